#!/venv/bin/python
"""C14 oracle stream (seventh round): DEEP alias chains, REVERSED / let-bounded slices, depth-3 macros, EVERY CONSUMER of a
reference at EVERY STAGE, value-vs-kind of overriding values, TWO programs through ONE backend object.

    PYTHONPATH=/verif /venv/bin/python /verif/harness/agents/c14_deep.py [--seed 0] [--n 600] [--thorough]

`n` = number of cases (a case = two sibling programs with the SAME names mapped differently, run back to back through ONE
emulator backend object, each through 2 (quick) or all applicable (thorough) pipelines).  Oracles only (`"corr": {}`).

What C14 says: a program is never accepted with a qubit index outside 0..size-1 of the register OR ALIAS IT INDEXES (literal,
let value, overriding value, or by macro substitution), an alias slice reaching outside its source, ...; such programs are
rejected with JaqalError at the latest when the offending value becomes known; they never run on a different qubit.

Programs (JSON, rendered to Jaqal text; harness gate set X CX SWAP P PF prepare_all measure_all):
  register r[N] (N literal or a let);  aliases a b c d e in a CHAIN of depth 1..5 (every alias mapped from an earlier alias or
  r): whole-register aliases (also in the middle), forward / strided / REVERSED slices -- stop -1 (the only way to reach
  element 0 backwards: r[3:-1:-1], r[4:-1:-2]), partial last steps (q[4:0:-3]) -- bounds literal or LET-valued (not checked
  when the alias is constructed), overshooting by one (stop = size+1, stop = -2, start = size), single-qubit aliases;
  indices literal / let / macro parameter from {0, size-1, size, size+1, -1, mid} of the alias they index;
  macros m1 -> m2 -> m3 (depth 3) with qubit / integer / register parameters, all using the SAME parameter names, the outer
  one using its own parameter AFTER the inner call; parameters named like the register / an alias / a let while the aliases
  are used outside; parallel in sequential in parallel, loops; override dictionaries with boundary values, integral floats,
  NON-INTEGRAL floats for integer lets (index, slice bound, register size, INT gate argument, FLOAT gate argument).

Reference (class Ref, independent of the library): abstract evaluation where a value is an int, a float or UNKNOWN, at a
knowledge level (lets: unknown / declared / overridden; macros: substituted or not).  Only what is determined at a level is
a defect at that level.  Anything the property does not clearly decide (empty alias, stop beyond the source while every
element is inside, zero step, register size < 1, two branches of a parallel block on one qubit, a gate twice on one qubit)
makes the program MURKY: nothing is judged.

Oracles
  invalid_reference_rejected        : a program with a defect at full knowledge is refused by some stage of the pipeline.
  rejected_when_known               : ... by the end of the first stage whose knowledge determines the defect.
  rejection_is_jaqalerror           : ... with JaqalError.
  accepted_runs_on_reference_qubits : a valid program, IF accepted, has exactly the reference's native calls on the reference's
                                      fundamental qubits after let substitution + macro expansion, and the emulator ends in the
                                      reference's basis state.  (Refusing a valid program is tabulated, never reported.)
  consumer_refuses_unresolvable     : on the circuit AS IT IS after each stage (as parsed: declared let values): when a qubit
                                      reference that the consumer has to resolve lies outside the register or any alias of
                                      its chain, get_used_qubit_indices(circuit / statement), fill_in_map(circuit) and
                                      NamedQubit.resolve_qubit() raise JaqalError -- they never return a qubit for it.
  consumer_resolves_reference_qubit : when the program is valid at that level, whatever these consumers return is the
                                      reference's qubit set / qubit.
  terminates                        : every guarded call returns within harness.timeouts.limit() seconds.
"""
import argparse
import collections
import json
import os
import random
import signal
import sys
import time

sys.path.insert(0, os.path.dirname(os.path.dirname(os.path.dirname(os.path.abspath(__file__)))))

from harness import timeouts as _T  # noqa: E402

DEFAULT_DRIVER = "/verif/lean/.lake/build/bin/jaqal-model"
SIG = {"X": "q", "CX": "qq", "SWAP": "qq", "P": "qi", "PF": "fq", "prepare_all": "", "measure_all": ""}
_LIB = None


def lib():
    global _LIB
    if _LIB is None:
        os.environ.setdefault("JAQALPAQ_RUN_EMULATOR", "1")
        from jaqalpaq.error import JaqalError
        from jaqalpaq.parser import parse_jaqal_string
        from jaqalpaq.core.algorithm import fill_in_let, expand_macros, get_used_qubit_indices
        from jaqalpaq.core.algorithm.fill_in_map import fill_in_map
        from jaqalpaq.core.register import NamedQubit, Register
        from jaqalpaq.core.gate import GateStatement
        from jaqalpaq.core.block import BlockStatement, LoopStatement
        from jaqalpaq.core.macro import Macro
        from jaqalpaq.run import run_jaqal_circuit
        from jaqalpaq.emulator.unitary import UnitarySerializedEmulator
        from harness.gates import GATES

        G = {k: GATES[k] for k in SIG}
        _LIB = dict(JaqalError=JaqalError, parse=parse_jaqal_string, fill_in_let=fill_in_let, expand_macros=expand_macros,
                    used=get_used_qubit_indices, fill_in_map=fill_in_map, NamedQubit=NamedQubit, Register=Register,
                    GateStatement=GateStatement, BlockStatement=BlockStatement, LoopStatement=LoopStatement, Macro=Macro,
                    run=run_jaqal_circuit, Emu=UnitarySerializedEmulator, GATES=G)
    return _LIB


class _Hang(BaseException):
    pass


def _on_alarm(_s, _f):
    raise _Hang()


def guarded(f):
    """-> ("ok", value) | ("jaqal", message) | ("other", class name, message) | ("hang",)"""
    L = lib()
    try:
        old = signal.signal(signal.SIGALRM, _on_alarm)
    except ValueError:
        old = None
    if old is not None:
        signal.alarm(int(_T.limit()))
    try:
        return ("ok", f())
    except _Hang:
        _T.saw_hang()
        return ("hang",)
    except L["JaqalError"] as e:
        return ("jaqal", str(e)[:160])
    except Exception as e:  # noqa: BLE001
        return ("other", type(e).__name__, str(e)[:160])
    finally:
        if old is not None:
            signal.alarm(0)
            signal.signal(signal.SIGALRM, old)


# ---------------------------------------------------------------------------------------------------------------
# text


def _num(v):
    return repr(v)


def _expr(e):
    return e if isinstance(e, str) else _num(e)


def _arg(a):
    if a[0] == "q":
        return f"{a[1]}[{_expr(a[2])}]"
    if a[0] == "id":
        return a[1]
    return _num(a[1])


def _stmts(body, ind):
    out = []
    pad = "  " * ind
    for s in body:
        if s[0] == "g":
            out.append(pad + " ".join([s[1]] + [_arg(a) for a in s[2]]))
        elif s[0] == "seq":
            out.append(pad + "{\n" + "\n".join(_stmts(s[1], ind + 1)) + "\n" + pad + "}")
        elif s[0] == "par":
            out.append(pad + "<\n" + "\n".join(_stmts(s[1], ind + 1)) + "\n" + pad + ">")
        else:
            out.append(pad + f"loop {s[1]} {{\n" + "\n".join(_stmts(s[2], ind + 1)) + "\n" + pad + "}")
    return out


def render(prog):
    ls = [f"let {n} {_num(v)}" for n, v in prog["lets"]]
    ls.append(f"register r[{_expr(prog['size'])}]")
    for name, src, form in prog["maps"]:
        if form is None:
            ls.append(f"map {name} {src}")
        elif form[0] == "i":
            ls.append(f"map {name} {src}[{_expr(form[1])}]")
        else:
            sl = f"{_expr(form[1])}:{_expr(form[2])}" + ("" if form[3] is None else f":{_expr(form[3])}")
            ls.append(f"map {name} {src}[{sl}]")
    for name, params, body in prog["macros"]:
        ls.append(f"macro {name} " + " ".join(p for p, _t in params) + " {\n" + "\n".join(_stmts(body, 1)) + "\n}")
    ls.append("prepare_all")
    ls += _stmts(prog["body"], 0)
    ls.append("measure_all")
    return "\n".join(ls) + "\n"


# ---------------------------------------------------------------------------------------------------------------
# reference

BAD = "BAD"


def _intval(v):
    """int for an int or an integral float, None for UNKNOWN, BAD for a non-integral number"""
    if v is None:
        return None
    if isinstance(v, bool):
        return BAD
    if isinstance(v, int):
        return v
    if isinstance(v, float):
        return int(v) if v == int(v) else BAD
    return BAD


class Ref:
    def __init__(self, prog, mode, expand):
        self.p, self.mode, self.expand = prog, mode, expand
        self.defects, self.murky = [], []
        self.bad_refs = []          # [(text, concrete: bool)] qubit references that resolve nowhere
        self.lets = dict((n, v) for n, v in prog["lets"])
        self.ov = dict((n, v) for n, v in prog["ov"])
        self.maps = {name: (src, form) for name, src, form in prog["maps"]}
        self.macros = {name: (params, body) for name, params, body in prog["macros"]}
        self._size = {}
        self._eff = {}
        self.macro_defects = {}
        self.reached = set()
        self.calls = []             # flat native calls (loops unrolled) when everything is known
        self.complete = True        # every native call fully known
        self.top_sets = []          # per top-level statement: set of (fund, idx) | None
        self.top_direct = []        # per top-level statement: [resolved qubit | None per arg] for direct native calls, else None
        self._concrete = True
        self.run()

    # -- values
    def let(self, name):
        if self.mode == "unknown":
            return None
        if self.mode == "override" and name in self.ov:
            return self.ov[name]
        return self.lets[name]

    def val(self, e, scope):
        """number or None"""
        if isinstance(e, str):
            if e in scope:
                b = scope[e]
                if b is None:
                    return None
                if b[0] == "num":
                    return b[1]
                self.defect(f"{e} used as a number is not a number")
                return None
            return self.let(e)
        return e

    def defect(self, d):
        if d not in self.defects:
            self.defects.append(d)

    def murk(self, d):
        if d not in self.murky:
            self.murky.append(d)

    # -- registers
    def size_of(self, name):
        if name in self._size:
            return self._size[name]
        self._size[name] = None
        s = self._size_of(name)
        self._size[name] = s
        return s

    def _size_of(self, name):
        if name == "r":
            v = _intval(self.val(self.p["size"], {}))
            if v is BAD:
                self.defect("register size is not an integer")
                return None
            if v is not None and v < 1:
                self.murk("register size < 1")
                return None
            return v
        src, form = self.maps[name]
        n = self.size_of(src)
        if form is None:
            return n
        vals = [_intval(self.val(e, {})) if e is not None else d for e, d in zip(form[1:], (0, 0, 1))]
        if any(v is BAD for v in vals):
            self.defect(f"slice bound of {name} is not an integer")
            return None
        if any(v is None for v in vals):
            return None
        start, stop, step = vals
        if step == 0:
            self.murk("zero step")
            return None
        els = range(start, stop, step)
        if n is not None:
            if len(els) == 0:
                self.murk(f"alias {name} is empty")
            elif els[0] < 0 or els[0] >= n or els[-1] < 0 or els[-1] >= n:
                self.defect(f"alias {name} = {src}[{start}:{stop}:{step}] reaches outside its source of size {n}")
            elif (step > 0 and stop > n) or (step < 0 and stop < -1) or start < 0:
                self.murk(f"alias {name}: every element inside but a bound outside")
        return len(els)

    def slice_of(self, name):
        src, form = self.maps[name]
        vals = [_intval(self.val(e, {})) if e is not None else d for e, d in zip(form[1:], (0, 0, 1))]
        return vals[0], vals[2]

    def resolve(self, name, i, what):
        cur = name
        while True:
            n = self.size_of(cur)
            if n is None:
                return None
            if not 0 <= i < n:
                self.defect(f"{what}: index {i} outside 0..{n - 1} of {cur}")
                self.bad_refs.append((what, self._concrete))
                return BAD
            if cur == "r":
                return ("r", i)
            src, form = self.maps[cur]
            if form is not None:
                start, step = self.slice_of(cur)
                i = start + i * step
            cur = src

    # -- arguments -> bindings: ("num", v) | ("q", (fund, idx) | None | BAD) | ("reg", name) | None
    def bind(self, a, scope):
        if a[0] == "n":
            return ("num", a[1])
        if a[0] == "id":
            nm = a[1]
            if nm in scope:
                return scope[nm]
            if nm in self.lets:
                v = self.let(nm)
                return ("num", v)
            if nm == "r" or nm in self.maps and (self.maps[nm][1] is None or self.maps[nm][1][0] == "s"):
                return ("reg", nm)
            src, form = self.maps[nm]
            i = _intval(self.val(form[1], {}))
            if i is BAD:
                self.defect(f"index of qubit alias {nm} is not an integer")
                return ("q", BAD)
            if i is None:
                return ("q", None)
            return ("q", self.resolve(src, i, nm))
        # indexed
        _, rn, ie = a
        what = f"{rn}[{_expr(ie)}]"
        reg = None
        if rn in scope:
            b = scope[rn]
            if b is not None:
                if b[0] != "reg":
                    self.defect(f"{what}: {rn} is not a register")
                    self.val(ie, scope)
                    return ("q", BAD)
                reg = b[1]
        elif rn == "r" or (rn in self.maps and (self.maps[rn][1] is None or self.maps[rn][1][0] == "s")):
            reg = rn
        else:
            self.defect(f"{what}: {rn} is not a register")
            return ("q", BAD)
        i = _intval(self.val(ie, scope))
        if i is BAD:
            self.defect(f"{what}: index is not an integer")
            self.bad_refs.append((what, self._concrete))
            return ("q", BAD)
        if i is None or reg is None:
            return ("q", None)
        return ("q", self.resolve(reg, i, what if reg == rn else f"{what} with {rn} = {reg}"))

    def effective(self, mname):
        """names of the parameters of a macro that reach a native gate"""
        if mname in self._eff:
            return self._eff[mname]
        self._eff[mname] = set()
        params, body = self.macros[mname]
        pn = {p for p, _t in params}
        eff = set()

        def names(a):
            return {a[1]} | ({a[2]} if a[0] == "q" and isinstance(a[2], str) else set()) if a[0] != "n" else set()

        def walk(b):
            for s in b:
                if s[0] == "g":
                    if s[1] in self.macros:
                        sub = self.effective(s[1])
                        for (p, _t), a in zip(self.macros[s[1]][0], s[2]):
                            if p in sub:
                                eff.update(names(a) & pn)
                    else:
                        for a in s[2]:
                            eff.update(names(a) & pn)
                else:
                    walk(s[-1])

        walk(body)
        self._eff[mname] = eff
        return eff

    def stmt(self, s, scope, out):
        """out: list collecting flat calls (or None when not collecting)"""
        if s[0] == "g":
            name, args = s[1], s[2]
            if name in self.macros:
                params, body = self.macros[name]
                eff = self.effective(name)
                bs = []
                for (p, _t), a in zip(params, args):
                    n0, b0 = len(self.defects), len(self.bad_refs)
                    bs.append(self.bind(a, scope))
                    if p not in eff and (len(self.defects) > n0 or len(self.bad_refs) > b0):
                        # a defective argument for a parameter the macro never uses vanishes when the macro is expanded:
                        # whether such a program "has" the reference is not decided by the property
                        for d in self.defects[n0:]:
                            self.murk("unused macro argument: " + d)
                        if len(self.defects) == n0:
                            self.murk("unused macro argument with a defect")
                        del self.defects[n0:]
                        del self.bad_refs[b0:]
                    elif scope and len(self.bad_refs) > b0:
                        # an argument of a call INSIDE a macro body: get_used_qubit_indices passes an argument it cannot
                        # resolve on unevaluated (known finding, see the report); not demanded of that consumer here
                        self.bad_refs[b0:] = [(w, "arg" if c is True else c) for w, c in self.bad_refs[b0:]]
                if self._concrete:
                    self.reached.add(name)
                if self.expand:
                    inner = {p: b for (p, _t), b in zip(params, bs)}
                    for t in body:
                        self.stmt(t, inner, out)
                else:
                    self.complete = False
                return
            bs = [self.bind(a, scope) for a in args]
            sig = SIG[name]
            known = True
            qs = []
            for k, b in zip(sig, bs):
                if b is None:
                    known = False
                    continue
                if k == "q":
                    if b[0] != "q":
                        self.defect(f"{name}: argument of the wrong kind")
                        known = False
                    elif b[1] is None or b[1] is BAD:
                        known = False
                    else:
                        qs.append(b[1])
                else:
                    if b[0] != "num":
                        self.defect(f"{name}: argument of the wrong kind")
                        known = False
                    elif b[1] is None:
                        known = False
                    elif k == "i" and _intval(b[1]) is BAD:
                        self.defect(f"{name}: integer parameter given {b[1]}")
                        known = False
            if known and len(set(qs)) != len(qs):
                self.murk(f"{name} twice on one qubit")
            if known:
                if out is not None:
                    out.append([name, [list(b[1]) if b[0] == "q" else float(b[1]) for b in bs]])
            else:
                self.complete = False
        elif s[0] == "seq":
            for t in s[1]:
                self.stmt(t, scope, out)
        elif s[0] == "par":
            seen = set()
            for t in s[1]:
                sub = []
                self.stmt(t, scope, sub)
                qs = {tuple(a) for c in sub for a in c[1] if isinstance(a, list)}
                if qs & seen:
                    self.murk("parallel branches on one qubit")
                seen |= qs
                if out is not None:
                    out.extend(sub)
        else:
            sub = []
            for t in s[2]:
                self.stmt(t, scope, sub)
            if out is not None:
                for _ in range(s[1]):
                    out.extend(sub)

    def run(self):
        self.size_of("r")
        self._concrete = None       # declarations: nothing a consumer of the statements has to resolve
        for name, _s, _f in self.p["maps"]:
            form = self.maps[name][1]
            if form is not None and form[0] == "i":
                self.bind(["id", name], {})
            else:
                self.size_of(name)
        # macro bodies with unknown parameters
        self._concrete = False
        keep = self.complete
        exp = self.expand
        self.expand = False
        for name, params, body in self.p["macros"]:
            scope = {p: None for p, _t in params}
            n0 = len(self.defects)
            for t in body:
                self.stmt(t, scope, None)
            self.macro_defects[name] = self.defects[n0:]
        self.expand = exp
        self.complete = keep
        self._concrete = True
        for s in self.p["body"]:
            sub = []
            c0 = self.complete
            self.complete = True
            self.stmt(s, {}, sub)
            self.top_sets.append({tuple(a) for c in sub for a in c[1] if isinstance(a, list)} if self.complete else None)
            direct = None
            if s[0] == "g" and s[1] not in self.macros and self.complete and len(sub) == 1:
                direct = [tuple(a) if isinstance(a, list) else None for a in sub[0][1]]
            self.top_direct.append(direct)
            self.complete = self.complete and c0
            self.calls.extend(sub)


def simulate(calls, nq):
    st = 0
    for name, args in calls:
        qs = [a[1] for a in args if isinstance(a, list)]
        if name == "X":
            st ^= 1 << qs[0]
        elif name == "CX":
            if (st >> qs[0]) & 1:
                st ^= 1 << qs[1]
        elif name == "SWAP":
            a, b = (st >> qs[0]) & 1, (st >> qs[1]) & 1
            if a != b:
                st ^= (1 << qs[0]) | (1 << qs[1])
    return "".join(str((st >> q) & 1) for q in range(nq))


LEVELS = [(False, False), (True, False), (False, True), (True, True)]


def judge(prog):
    refs = {(lt, mc): Ref(prog, "override" if lt else "unknown", mc) for lt, mc in LEVELS}
    full = refs[(True, True)]
    murky = list(full.murky)
    v = {"invalid": {lv: bool(refs[lv].defects) for lv in LEVELS}, "defects": full.defects[:5], "murky": murky, "calls": None,
         "state": None, "nq": None, "refs": refs}
    for name, ds in full.macro_defects.items():
        if ds and name not in full.reached:
            murky.append(f"defect in macro {name}, which is never called")
    for lv in LEVELS:
        if refs[lv].defects and not full.defects:
            murky.append("reference not monotone")
    if not full.defects and not murky and full.complete:
        v["calls"] = full.calls
        v["nq"] = full.size_of("r")
        if v["nq"] is not None and v["nq"] <= 8:
            v["state"] = simulate(full.calls, v["nq"])
    # consumer levels
    v["cons"] = {}
    for mode in ("declared", "override"):
        v["cons"][mode] = (Ref(prog, mode, True), Ref(prog, mode, False))
    return v


# ---------------------------------------------------------------------------------------------------------------
# pipelines

LET, MAC = "let", "macro"
STAGE_K = {"parse": (), "parse_let": (LET,), "parse_all": (LET, MAC), "fill": (LET,), "expand": (MAC,), "map": (),
           "run": (LET, MAC), "run_b": (LET, MAC)}
PIPES = {
    "A": ["parse", "fill", "expand", "run_b"], "B": ["parse", "expand", "fill", "run_b"],
    "C": ["parse_let", "expand", "run_b"], "D": ["parse_all", "run"], "F": ["parse", "fill", "run_b"],
    "M2": ["parse", "fill", "map", "expand", "run_b"], "M4": ["parse", "expand", "fill", "map", "run_b"],
    # only without an override dictionary (run_jaqal_circuit and fill_in_map take the declared values)
    "R": ["parse", "run_b"], "M": ["parse", "map", "fill", "expand", "run_b"], "M3": ["parse", "map", "run_b"],
    "E": ["parse", "expand", "map", "run"],
}
NO_OV = ["R", "M", "M3", "E"]


def applicable(prog):
    return [p for p in PIPES if not (prog["ov"] and p in NO_OV)]


def do_stage(ctx, st, prog, text, circ):
    L = lib()
    ov = dict((n, v) for n, v in prog["ov"]) or None
    if st == "parse":
        return L["parse"](text, inject_pulses=ctx["gates"], autoload_pulses=False)
    if st == "parse_let":
        return L["parse"](text, override_dict=ov, expand_let=True, inject_pulses=ctx["gates"], autoload_pulses=False)
    if st == "parse_all":
        return L["parse"](text, override_dict=ov, expand_let=True, expand_macro=True, inject_pulses=ctx["gates"], autoload_pulses=False)
    if st == "fill":
        return L["fill_in_let"](circ, ov)
    if st == "expand":
        return L["expand_macros"](circ)
    if st == "map":
        return L["fill_in_map"](circ)
    if st == "run":
        return L["run"](circ)
    if st == "run_b":
        return L["run"](circ, backend=ctx["backend"])
    raise ValueError(st)


def observe(circ):
    """flat native calls of a circuit without macros and lets: [[name, [[reg, idx] | number]]] (loops unrolled)"""
    L = lib()

    def walk(s, out):
        if isinstance(s, L["GateStatement"]):
            if s.name in ("prepare_all", "measure_all"):
                return
            if isinstance(s.gate_def, L["Macro"]):
                raise ValueError(f"macro call {s.name} left")
            args = []
            for v in s.parameters.values():
                if isinstance(v, L["NamedQubit"]):
                    reg, idx = v.resolve_qubit()
                    if not reg.fundamental:
                        raise ValueError("resolve_qubit returned an alias")
                    args.append([reg.name, int(idx)])
                else:
                    args.append(float(v))
            out.append([s.name, args])
        elif isinstance(s, L["LoopStatement"]):
            sub = []
            walk(s.statements, sub)
            for _ in range(int(s.iterations)):
                out.extend(sub)
        elif isinstance(s, L["BlockStatement"]):
            for t in s.statements:
                walk(t, out)
        else:
            raise ValueError(f"unexpected statement {type(s).__name__}")

    out = []
    walk(circ.body, out)
    return out


def consumers(circ, cons, results, where):
    """the consumers of references on a circuit as it is.  cons = (Ref expand=True, Ref expand=False) at the circuit's level"""
    L = lib()
    rt, rf = cons
    if rt.murky or rf.murky:
        return
    conc = [w for w, c in rt.bad_refs if c is True]
    valid = not rt.defects and rt.complete
    body = [s for s in circ.body.statements
            if not (isinstance(s, L["GateStatement"]) and s.name in ("prepare_all", "measure_all"))]
    # get_used_qubit_indices(circuit)
    g = guarded(lambda: {k: set(v) for k, v in L["used"](circ).items()})
    if g[0] == "hang":
        results.append(("terminates", False, f"get_used_qubit_indices {where}: no answer"))
        return
    if conc:
        results.append(("consumer_refuses_unresolvable", g[0] == "jaqal",
                        f"get_used_qubit_indices(circuit {where}) -> {g[1:]} although {conc[0]} lies outside "
                        f"({'; '.join(rt.defects[:2])})"))
    # per top-level statement (only when the statements are still those of the program)
    if len(body) == len(rt.top_sets):
        for k, s in enumerate(body):
            want = rt.top_sets[k]
            g = guarded(lambda s=s: {k2: set(v) for k2, v in L["used"](s).items() if v})
            if g[0] == "hang":
                results.append(("terminates", False, f"get_used_qubit_indices(statement) {where}: no answer"))
                return
            if valid and want is not None:
                if g[0] == "ok":
                    got = {(rn, int(i)) for rn, vs in g[1].items() for i in vs}
                    results.append(("consumer_resolves_reference_qubit", got == want,
                                    f"get_used_qubit_indices(statement {k} {where}) = {sorted(got)}, the reference says {sorted(want)}"))
            d = rt.top_direct[k]
            if valid and d is not None and isinstance(s, L["GateStatement"]):
                for j, v in enumerate(s.parameters.values()):
                    if isinstance(v, L["NamedQubit"]) and d[j] is not None:
                        g = guarded(lambda v=v: v.resolve_qubit())
                        if g[0] == "ok":
                            got = (g[1][0].name, int(g[1][1]))
                            results.append(("consumer_resolves_reference_qubit", got == d[j] and g[1][0].fundamental,
                                            f"{v.name}.resolve_qubit() {where} = {got}, the reference says {d[j]}"))
    # fill_in_map as a consumer: resolves every indexed qubit at top level and in macro bodies
    body_refs = [w for w, c in rf.bad_refs if c is not None]
    if body_refs:
        g = guarded(lambda: L["fill_in_map"](circ))
        if g[0] == "hang":
            results.append(("terminates", False, f"fill_in_map {where}: no answer"))
            return
        results.append(("consumer_refuses_unresolvable", g[0] == "jaqal",
                        f"fill_in_map(circuit {where}) -> {g[0] if g[0] == 'ok' else g[1:]} although {body_refs[0]} lies outside "
                        f"({'; '.join(rf.defects[:2])})"))


def check(ctx, prog, pipe, verdict, text):
    stages = PIPES[pipe]
    results, facts = [], []
    circ, refused, pre_run, finals = None, None, None, []
    required = None
    known = set()
    for i, st in enumerate(stages):
        known |= set(STAGE_K[st])
        if required is None and verdict["invalid"][(LET in known, MAC in known)]:
            required = i
    known = set()
    murky = bool(verdict["murky"])
    for i, st in enumerate(stages):
        known |= set(STAGE_K[st])
        r = guarded(lambda st=st, circ=circ: do_stage(ctx, st, prog, text, circ))
        if r[0] == "hang":
            results.append(("terminates", False, f"{st}: no answer within {_T.limit()} s"))
            return results, facts
        if r[0] != "ok":
            refused = (i, r)
            break
        if st.startswith("run"):
            finals.append(r[1])
            continue
        circ = r[1]
        if LET in known and MAC in known:
            pre_run = circ
        # the consumers, on the circuit as it is now
        if MAC not in known and st != "map":
            mode = "override" if LET in known else "declared"
            consumers(circ, verdict["cons"][mode], results, f"after {st}")
    results.append(("terminates", True, ""))
    if murky:
        facts.append("murky: " + ("accepted" if refused is None else "refused"))
        return results, facts
    if verdict["invalid"][(True, True)]:
        why = "; ".join(verdict["defects"][:3])
        if refused is None:
            results.append(("invalid_reference_rejected", False, f"accepted by every stage of {stages}; the reference says: {why}"))
            facts.append("invalid: ACCEPTED")
            return results, facts
        i, r = refused
        results.append(("invalid_reference_rejected", True, ""))
        results.append(("rejected_when_known", i <= required,
                        f"defect ({why}) is determined after stage {stages[required]!r} but the program passed it and was refused "
                        f"only by {stages[i]!r}: {r[1:]}"))
        results.append(("rejection_is_jaqalerror", r[0] == "jaqal",
                        f"stage {stages[i]!r} raised {r[1]}: {r[2] if len(r) > 2 else ''} instead of JaqalError; the reference says: {why}"))
        facts.append(f"invalid: refused at {stages[i]}")
        return results, facts
    if refused is not None:
        i, r = refused
        facts.append(f"valid: refused at {stages[i]} ({'JaqalError' if r[0] == 'jaqal' else r[1]})")
        return results, facts
    facts.append("valid: accepted")
    bad = []
    if pre_run is not None and verdict["calls"] is not None:
        g = guarded(lambda: observe(pre_run))
        if g[0] != "ok":
            bad.append(f"a qubit of the accepted circuit does not resolve: {g[1:]}")
        elif g[1] != verdict["calls"]:
            want = verdict["calls"]
            k = next((j for j, (a, b) in enumerate(zip(want, g[1])) if a != b), min(len(want), len(g[1])))
            bad.append(f"accepted circuit executes {len(g[1])} native calls, the reference {len(want)}; first difference at call {k}: "
                       f"circuit {json.dumps(g[1][k:k + 2])}, reference {json.dumps(want[k:k + 2])}")
    if verdict["state"] is not None:
        for j, final in enumerate(finals):
            def read(final=final):
                d = final.subcircuits[0].probability_by_str
                hit = [k for k, p in d.items() if abs(p - 1) < 1e-9]
                return hit[0] if len(hit) == 1 else None
            g = guarded(read)
            if g[0] != "ok":
                bad.append(f"run {j}: result not readable: {g[1:]}")
            elif g[1] != verdict["state"]:
                bad.append(f"run {j}: the emulator ends in basis state {g[1]!r}, the reference in {verdict['state']!r}")
    results.append(("accepted_runs_on_reference_qubits", not bad, "; ".join(bad[:3])))
    return results, facts


# ---------------------------------------------------------------------------------------------------------------
# generation


class Gen:
    def __init__(self, rng, salt):
        self.rng = rng
        self.lets = []              # [name, declared]
        self.salt = salt
        self.sizes = {}             # intended size per alias (None when unknown / defective)
        self.tags = []

    def as_let(self, v, prefix="k"):
        for n, d in self.lets:
            if d == v and type(d) is type(v) and n.startswith(prefix) and self.rng.random() < 0.6:
                return n
        n = f"{prefix}{len(self.lets)}"
        self.lets.append([n, v])
        return n

    def bound(self, v, p_let):
        return self.as_let(v) if self.rng.random() < p_let else v

    def make_slice(self, m):
        """a slice over a source of size m -> (form, intended size | None)"""
        rng = self.rng
        p_let = rng.choice([0.0, 0.0, 0.5, 1.0])
        step = rng.choice([1, 1, 1, 2, 3, -1, -1, -1, -2, -3])
        if abs(step) >= m and m > 1:
            step = 1 if step > 0 else -1
        cnt_max = (m - 1) // abs(step) + 1
        cnt = rng.randint(1, cnt_max)
        span = (cnt - 1) * abs(step)
        lo = rng.randint(0, m - 1 - span)
        if rng.random() < 0.5:
            lo = rng.choice([0, m - 1 - span])
        if step > 0:
            start, last = lo, lo + span
            stop = min(m, rng.randint(last + 1, last + step))     # partial last step
        else:
            start, last = lo + span, lo
            stop = max(-1, rng.randint(last + step, last - 1))
        kind = "ok"
        if rng.random() < 0.10:
            kind = rng.choice(["stop+", "stop+", "start+", "full+"])
            if kind == "stop+":
                stop = (last + step) if (last + step >= m or last + step < 0) else (m + 1 if step > 0 else -2)
                stop = stop + (1 if step > 0 else -1) if rng.random() < 0.5 else stop
                if step > 0 and stop <= m:
                    stop = m + 1
                if step < 0 and stop >= -1:
                    stop = -2
            elif kind == "start+":
                start = m if step < 0 else start
                if step > 0:
                    stop = m + 1
            else:
                start, stop = (0, m + 1) if step > 0 else (m, -1)
            self.tags.append("slice overshoots")
        if step < 0:
            self.tags.append("reversed slice" + (" to -1" if stop == -1 else ""))
        if any(isinstance(x, str) for x in ()):  # pragma: no cover
            pass
        n = len(range(start, stop, step))
        form = ["s", self.bound(start, p_let), self.bound(stop, p_let), None if step == 1 and rng.random() < 0.7 else self.bound(step, p_let * 0.5)]
        if any(isinstance(x, str) for x in form[1:]):
            self.tags.append("let-bounded slice")
        return form, n

    def index(self, n, p_bad=0.07):
        rng = self.rng
        if n is None or n < 1:
            n = 2
        if rng.random() < p_bad:
            self.tags.append("index at boundary outside")
            return rng.choice([n, n, n + 1, -1])
        return rng.choice([0, n - 1, n - 1, rng.randrange(n)])


def gen_prog(rng, salt):
    g = Gen(rng, salt)
    N = rng.choice([2, 3, 4, 4, 5, 6])
    size = g.as_let(N, "n") if rng.random() < 0.4 else N
    g.sizes["r"] = N
    names = ["a", "b", "c", "d", "e"][: rng.choice([1, 2, 2, 3, 3, 3, 4, 5])]
    maps = []
    prev = "r"
    for nm in names:
        src = prev if rng.random() < 0.8 else rng.choice(["r"] + [m[0] for m in maps])
        m = g.sizes[src]
        if rng.random() < 0.3 or m < 1:
            form, n = None, m
            g.tags.append("whole alias" + (" in the middle" if src != "r" else ""))
        else:
            form, n = g.make_slice(m)
        maps.append([nm, src, form])
        g.sizes[nm] = n
        prev = nm
    regs = ["r"] + names
    depth = {"r": 0}
    for nm, src, _f in maps:
        depth[nm] = depth[src] + 1
    deep = max(regs, key=lambda x: depth[x])
    zq = None
    if rng.random() < 0.25:
        src = rng.choice(regs)
        maps.append(["z", src, ["i", g.bound(g.index(g.sizes[src], 0.1), 0.4)]])
        zq = "z"

    def pick_reg():
        return deep if rng.random() < 0.5 else rng.choice(regs)

    def qarg(scope_i=None, p_bad=0.06):
        rn = pick_reg()
        i = g.index(g.sizes[rn], p_bad)
        f = rng.random()
        if scope_i and f < 0.3:
            return ["q", rn, rng.choice(scope_i)]
        if f < 0.55:
            return ["q", rn, g.as_let(i)]
        if zq and f < 0.62:
            return ["id", zq]
        return ["q", rn, i]

    def distinct(args):
        probe = Ref({"lets": g.lets, "ov": [], "size": size, "maps": maps, "macros": [], "body": []}, "declared", True)
        qs = [probe.bind(a, {}) for a in args]
        qs = [q[1] for q in qs if q and q[0] == "q" and q[1] not in (None, BAD)]
        return len(set(qs)) == len(qs)

    def native(qsrc, iparams=(), single=False):
        """a native call whose qubit arguments come from qsrc()"""
        for _ in range(8):
            c = native1(qsrc, iparams, single)
            if single or distinct([a for a in c[2] if a[0] != "n"]):
                break
        return c

    def native1(qsrc, iparams, single):
        name = rng.choice(["X", "X", "P", "PF"] if single else ["X", "X", "X", "CX", "SWAP", "P", "PF"])
        args = []
        for k in SIG[name]:
            if k == "q":
                args.append(qsrc())
            elif k == "i":
                f = rng.random()
                args.append(["id", rng.choice(list(iparams))] if iparams and f < 0.3 else ["id", g.as_let(rng.randrange(4))] if f < 0.6 else ["n", rng.randrange(4)])
            else:
                args.append(rng.choice([["n", 0.5], ["n", 1], ["id", g.as_let(0.25, "f")], ["id", g.as_let(rng.randrange(3))]]))
        return ["g", name, args]

    # macros: a chain m1 -> m2 -> m3 sharing parameter names
    macros = []
    nm = rng.choice([0, 1, 2, 3, 3, 3])
    pools = [["x", "k", "g"], ["x", "k", "g"], ["x", "k", "g"], ["r", "k", "a"], ["b", "k0", "c"], ["x", "n0", "r"]]
    pool = rng.choice(pools)
    if pool != pools[0]:
        g.tags.append("parameter named like a register / alias / let")
    specs = []
    for lvl in range(nm, 0, -1):          # innermost first (a macro may only call an earlier one)
        types = rng.choice([["q"], ["q", "i"], ["q", "i", "g"], ["i", "g"], ["g"], ["i"], ["q", "g"]])
        params = [[pool["qig".index(t)], t] for t in types]
        pn = {t: p for p, t in params}

        def inner_q(pn=pn):
            f = rng.random()
            if "q" in pn and f < 0.4:
                return ["id", pn["q"]]
            if "g" in pn and f < 0.7:
                return ["q", pn["g"], pn["i"] if "i" in pn and rng.random() < 0.5 else rng.choice([0, 0, 1])]
            a = qarg([pn["i"]] if "i" in pn else None, 0.05)
            # a global name shadowed by a parameter means the parameter: do not use it for a global reference
            if a[0] == "q" and a[1] in [p for p, _t in params]:
                return ["q", "r" if "r" not in [p for p, _t in params] else pn.get("g", "r"), a[2]]
            return a

        body = [native(inner_q, [pn["i"]] if "i" in pn else (), single=True)]
        if specs:
            cname, cparams = specs[-1]
            cargs = []
            for p, t in cparams:
                f = rng.random()
                if t in pn and f < 0.7:
                    cargs.append(["id", pn[t]])
                elif t == "q":
                    cargs.append(inner_q())
                elif t == "i":
                    cargs.append(["n", rng.choice([0, 1, 1, 2])] if f < 0.9 else ["id", g.as_let(1)])
                else:
                    cand = [x for x in regs if x not in [p2 for p2, _t in params]] or ["r"]
                    cargs.append(["id", rng.choice(cand)])
            body.append(["g", cname, cargs])
            if rng.random() < 0.3:
                body[-1] = rng.choice([["par", [["seq", [body[-1]]]]], ["loop", rng.choice([1, 2]), [body[-1]]]])
            # the outer macro uses its own parameters AFTER the inner call
            body.append(native(inner_q, [pn["i"]] if "i" in pn else (), single=True))
        if any(p == "r" for p, _t in params) and "r" in json.dumps(body):
            pass
        mname = f"m{lvl}"
        specs.append((mname, params))
        macros.append([mname, params, body])
    if nm:
        g.tags.append(f"macro depth {nm}")

    def call_macro():
        cname, cparams = specs[-1] if rng.random() < 0.7 else rng.choice(specs)
        cargs = []
        for p, t in cparams:
            if t == "q":
                cargs.append(qarg(None, 0.04))
            elif t == "i":
                rn = deep
                i = g.index(min(g.sizes[x] or 2 for x in regs), 0.08)
                cargs.append(["n", i] if rng.random() < 0.6 else ["id", g.as_let(i)])
                del rn
            else:
                cargs.append(["id", pick_reg()])
        return ["g", cname, cargs]

    def stmt(d):
        f = rng.random()
        if d < 3 and f < 0.3:
            kind = rng.choice(["seq", "seq", "par", "loop"])
            inner = [stmt(d + 1) for _ in range(rng.choice([1, 2, 2]))]
            if kind == "loop":
                return ["loop", rng.choice([1, 2, 3]), [s if s[0] != "seq" else ["par", [s]] for s in inner]]
            if kind == "par":
                inner = [s if s[0] != "par" else ["seq", [s]] for s in inner]
                g.tags.append(f"parallel at depth {d}")
            else:
                inner = [s if s[0] != "seq" else ["par", [s]] for s in inner]     # (no { } directly inside { })
            return [kind, inner]
        if specs and f < 0.6:
            return call_macro()
        return native(qarg)

    body = [stmt(0) for _ in range(rng.choice([1, 2, 3, 4]))]
    if specs and not any(json.dumps(specs[-1][0]) in json.dumps(s) for s in body):
        body.append(call_macro())
    prog = {"lets": g.lets, "ov": [], "size": size, "maps": maps, "macros": macros, "body": body, "tags": sorted(set(g.tags))}
    # override dictionary
    if g.lets and rng.random() < 0.4:
        k = rng.choice([1, 1, 2])
        for n, d in rng.sample(g.lets, min(k, len(g.lets))):
            if isinstance(d, float):
                v = rng.choice([0.75, 2, 1.0])
            else:
                v = rng.choice([d, d, d + 1, d - 1, d + 1, d - 1, float(d), float(d), d + 0.5, d - 0.5, d + 0.999, 0, N - 1, N, 1])
                if n.startswith("n") and not isinstance(v, float) and v < 1:
                    v = 1
            prog["ov"].append([n, v])
            if isinstance(v, float) and isinstance(d, int):
                prog["tags"].append("integer let overridden by " + ("integral float" if v == int(v) else "NON-integral float"))
            elif n.startswith("n") and v != d:
                prog["tags"].append("register size " + ("shrunk" if v < d else "enlarged") + " by override")
    return prog


def gen_case(rng, thorough):
    r0 = rng.random()
    progs = [gen_prog(random.Random(f"{r0}/{k}"), k) for k in range(2)]
    if rng.random() < 0.3:
        # the sibling differs ONLY in the override dictionary / in one declared value
        p = json.loads(json.dumps(progs[0]))
        if p["lets"]:
            i = rng.randrange(len(p["lets"]))
            d = p["lets"][i][1]
            if rng.random() < 0.5 and isinstance(d, int) and not p["lets"][i][0].startswith("n"):
                p["lets"][i][1] = d + rng.choice([1, -1])
            else:
                p["ov"] = [[p["lets"][i][0], d + rng.choice([1, -1, 0.5]) if isinstance(d, int) else 0.75]]
        progs[1] = p
    steps = []
    for p in progs:
        ps = applicable(p)
        if not thorough:
            rng.shuffle(ps)
            ps = ps[:2]
        steps.append(ps)
    return {"progs": progs, "pipes": steps}


# ---------------------------------------------------------------------------------------------------------------

ORACLES = ["invalid_reference_rejected", "rejected_when_known", "rejection_is_jaqalerror", "accepted_runs_on_reference_qubits",
           "consumer_refuses_unresolvable", "consumer_resolves_reference_qubit", "terminates"]


def run_case(case, report, count):
    L = lib()
    ctx = {"gates": dict(L["GATES"]), "backend": L["Emu"]()}
    for k, (prog, pipes) in enumerate(zip(case["progs"], case["pipes"])):
        verdict = judge(prog)
        text = render(prog)
        for t in prog.get("tags", []):
            count(t)
        count("program " + ("murky" if verdict["murky"] else "invalid" if verdict["invalid"][(True, True)] else "valid"))
        if not verdict["murky"] and verdict["invalid"][(True, True)]:
            lv = next(lv for lv in LEVELS if verdict["invalid"][lv])
            count(f"defect known at level let={lv[0]} macro={lv[1]}")
        count(f"alias depth {max([0] + [_depth(prog, m[0]) for m in prog['maps']])}")
        for pipe in pipes:
            results, facts = check(ctx, prog, pipe, verdict, text)
            for name, ok, detail in results:
                report(name, ok, k, pipe, detail)
            for f in facts:
                count(f.split(" (")[0])
            count(f"pipeline {pipe}")


def _depth(prog, name):
    d = 0
    src = {m[0]: m[1] for m in prog["maps"]}
    while name != "r":
        name = src[name]
        d += 1
    return d


def run(seed: int, n: int, driver: str = DEFAULT_DRIVER, thorough: bool = False) -> dict:
    lib()
    rng = random.Random(f"c14_deep/{seed}/{int(bool(thorough))}")
    oracle = {o: {"cases": 0, "failures": []} for o in ORACLES}
    dist = collections.Counter()
    samples = []
    distinct = set()
    for k in range(n):
        sub = random.Random(f"c14_deep/{seed}/{int(bool(thorough))}/{k}/{rng.random()}")
        case = gen_case(sub, thorough)

        def report(name, ok, step, pipe, detail, case=case):
            o = oracle[name]
            o["cases"] += 1
            if not ok:
                if len(o["failures"]) < 20:
                    o["failures"].append({"case": dict(case, step=step, pipe=pipe, text=render(case["progs"][step])), "detail": detail})
                else:
                    o["failures_not_listed"] = o.get("failures_not_listed", 0) + 1

        def count(f):
            dist[f] += 1

        run_case(case, report, count)
        for p in case["progs"]:
            distinct.add(json.dumps([p["maps"], p["body"], p["ov"]]))
        if len(samples) < 4 and k % 7 == 0:
            samples.append({"pipes": case["pipes"], "text": render(case["progs"][0]), "ov": case["progs"][0]["ov"]})
    return {"corr": {}, "oracle": oracle, "distribution": dict(dist), "samples": samples, "nontrivial": len(distinct)}


def replay(case: dict, driver: str = DEFAULT_DRIVER) -> dict:
    """Re-run the whole case (both programs, in order, on one fresh backend object); failures of the recorded step come first."""
    lib()
    found = []

    def report(name, ok, step, pipe, detail):
        if not ok:
            found.append((0 if (step == case.get("step") and pipe == case.get("pipe")) else 1, name, step, pipe, detail))

    run_case(case, report, lambda f: None)
    found.sort(key=lambda t: t[0])
    if not found:
        return {"oracle_ok": True, "detail": "no oracle fails on this case"}
    _, name, step, pipe, detail = found[0]
    prog = case["progs"][step]
    return {"oracle_ok": False,
            "detail": f"{name}: {detail}\n--- program {step}, pipeline {pipe} = {PIPES.get(pipe)}, override {prog['ov']}\n{render(prog)}"
                      f"(+{len(found) - 1} more failing checks in this case)",
            "impl": {"oracle": name, "step": step, "pipe": pipe, "text": render(prog), "override": prog["ov"]}}


def main():
    ap = argparse.ArgumentParser()
    ap.add_argument("--seed", type=int, default=0)
    ap.add_argument("--n", type=int, default=600)
    ap.add_argument("--thorough", action="store_true")
    ap.add_argument("--driver", default=DEFAULT_DRIVER)
    a = ap.parse_args()
    t0 = time.time()
    r = run(a.seed, a.n, a.driver, a.thorough)
    bad = 0
    for name, o in r["oracle"].items():
        print(f"{name:36s} cases {o['cases']:7d}  failures {len(o['failures'])}")
        bad += len(o["failures"])
        for f in o["failures"][:2]:
            c = f["case"]
            print(f"   [program {c['step']} pipe {c['pipe']} ov {c['progs'][c['step']]['ov']}] {f['detail'][:700]}")
            print("   " + c["text"].replace("\n", "\n   "))
    print("distribution:", json.dumps(r["distribution"], indent=1, sort_keys=True))
    print("nontrivial:", r["nontrivial"], " seconds:", round(time.time() - t0, 1))
    sys.exit(1 if bad else 0)


if __name__ == "__main__":
    main()
