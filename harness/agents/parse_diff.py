#!/venv/bin/python
"""Differential test + direct oracles for C02 / C16 (syntax half): Lean lexer/parser model (ops "lex",
"parse" of `JaqalModel/Model/ParserOps.lean`) vs the real JaqalPaq code.

CLI:   /venv/bin/python /verif/harness/agents/parse_diff.py [--driver PATH] [--n N] [--seed S] [--thorough]
API:   run(seed, n, driver, thorough) -> dict      (see notes/AGENT_CONVENTIONS.md, "Diff-script protocol")
       replay(case, driver) -> dict

Streams (n = number of generated programs; every program yields one text per stream):
  grammar : grammar-directed random programs rendered with random layout (separator choice, comments,
            blank lines, spaces); ~20 % violate a side condition (header after body, register size, import)
  tokmut  : one token of the program deleted / duplicated / swapped / replaced / inserted
  charmut : 1-3 characters of the rendered text deleted / inserted / replaced
  noise   : random characters / random words over the alphabet of Jaqal
  hdrafter: near misses of "headers before bodies": a header statement of each kind (register, let, map,
            usepulses) after a body consisting of ONE kind of statement only (gate, `{}`, `<>`, subcircuit,
            loop, macro definition), all 24 combinations in turn
  cmtpos  : an illegal character inside / a stray token after a valid program, preceded by multi-line block
            comments (line numbers must advance by the newlines inside comments)
  edge    : a fixed list of corner cases
Block comments are drawn from an alphabet rich in `*`, `/` and newlines, often end in `**…*/`, include
`/**/`, `/***/`, `/****/`, `/*/*/`, and the comment density varies per program (distribution
`block_comments_{0,1,>=2}`).
corr   : `parse_to_sexpression` and `JaqalLexer().tokenize` vs the model: acceptance, S-expression / token
         list, and (line, column) of errors, exactly (floats: the model's exact decimal must round to the
         float the lexer produced).
oracle : properties of the real code alone
  relayout_same_sexpr   : a valid program rendered twice with independent layouts (and `;`<->newline,
                          `|`<->newline in parallel blocks) is accepted both times with the same S-expression
  no_statement_dropped  : number of gate statements in the S-expression == number in the generating AST
  reject_position       : a rejected single-token mutant of a valid program raises JaqalParseError at EOF or
                          at a token start (real lexer) that is not before the first token of the top-level
                          statement containing the mutation
  only_JaqalParseError  : no input of any stream raises anything but JaqalParseError
  header_after_body     : every `hdrafter` text is rejected at the first token of the misplaced header statement
  error_pos_after_comments : every `cmtpos` text is rejected exactly at the offending character / token
"""
import argparse
import collections
import decimal
import json
import random
import subprocess
import sys

from jaqalpaq.parser.parser import parse_to_sexpression
from jaqalpaq.parser.slyparse import JaqalLexer, JaqalParseError
from jaqalpaq.parser.identifier import Identifier

DEFAULT_DRIVER = "/verif/lean/.lake/build/bin/jaqal-model"

# ----------------------------------------------------------------------------------------------- driver


def drive(driver, op, texts):
    """One subprocess for the whole batch: returns the list of `out` values."""
    if not texts:
        return []
    inp = "".join(json.dumps({"op": op, "text": t}) + "\n" for t in texts)
    r = subprocess.run([driver], input=inp, capture_output=True, text=True)
    lines = [l for l in r.stdout.split("\n") if l.strip()]
    if len(lines) != len(texts):
        raise RuntimeError(f"driver returned {len(lines)} lines for {len(texts)} requests: {r.stderr[:300]}")
    outs = []
    for t, l in zip(texts, lines):
        j = json.loads(l)
        if "out" not in j:
            raise RuntimeError(f"driver error {j} on {t!r}")
        outs.append(j["out"])
    return outs


# ------------------------------------------------------------------------------------ rendering results


def dec_of_float(x):
    """[neg, mant, exp] (canonical) of the shortest repr of a finite float."""
    d = decimal.Decimal(repr(x))
    sign, digits, exp = d.as_tuple()
    mant = int("".join(map(str, digits)))
    if mant == 0:
        return [bool(sign), 0, 0]
    while mant % 10 == 0:
        mant //= 10
        exp += 1
    return [bool(sign), mant, exp]


class F:
    """A float as seen by the harness (kept apart from ints when comparing)."""

    def __init__(self, x):
        self.x = x


def render_sx(v):
    if isinstance(v, Identifier):
        return str(v)
    if isinstance(v, (list, tuple, collections.deque)):
        return [render_sx(a) for a in v]
    if isinstance(v, bool):
        raise TypeError("bool in sexpression")
    if isinstance(v, int):
        return {"i": v}
    if isinstance(v, float):
        return {"f": F(v)}
    if v is None or isinstance(v, str):
        return v
    raise TypeError(f"unexpected {type(v)} in sexpression")


def float_matches(f, jdec):
    """Does the model's exact decimal [neg, "mant", "exp"] denote (after float rounding) the float f.x ?
    (Decimal is used throughout: Python refuses int <-> str conversions beyond 4300 digits.)"""
    neg, mant, exp = jdec[0], jdec[1], jdec[2]
    ref = dec_of_float(f.x)
    if len(mant) < 100 and len(exp) < 100 and [neg, int(mant), int(exp)] == ref:
        return True
    STATS["rounded_float_matches"] += 1
    try:
        y = float(("-" if neg else "") + mant + "E" + exp)  # correctly rounded, like float(text) in the lexer
    except Exception:
        return False
    return y == f.x and (str(y)[0] == "-") == (str(f.x)[0] == "-")


def same(real, model):
    """Compare a rendered real value with the model's JSON."""
    if isinstance(real, list):
        return isinstance(model, list) and len(real) == len(model) and all(same(a, b) for a, b in zip(real, model))
    if isinstance(real, dict):
        if not isinstance(model, dict) or set(real) != set(model):
            return False
        if "i" in real:
            return int(model["i"]) == real["i"]
        return float_matches(real["f"], model["f"])
    return real == model and type(real) == type(model)


def show(real):
    if isinstance(real, list):
        return [show(a) for a in real]
    if isinstance(real, dict) and "f" in real:
        return {"f": dec_of_float(real["f"].x)}
    return real


def real_parse(text):
    try:
        sx = parse_to_sexpression(text)
    except JaqalParseError as e:
        return ("err", [None if e.line == "EOF" else e.line, e.column])
    except BaseException as e:  # noqa
        return ("crash", type(e).__name__ + ": " + str(e)[:200])
    return ("ok", render_sx(sx))


def real_lex(text):
    out = []
    try:
        for t in JaqalLexer().tokenize(text):
            if t.type == "NUMBER":
                v = {"f": F(t.value)}
            elif t.type in ("INT", "BININT"):
                v = {"i": t.value}
            elif t.type == "NL":
                v = None
            else:
                v = t.value
            out.append([str(t.type), v, {"i": t.lineno}, {"i": t.index}])
    except JaqalParseError as e:
        return ("err", [e.line, e.column])
    except BaseException as e:  # noqa
        return ("crash", type(e).__name__ + ": " + str(e)[:200])
    return ("ok", out)


def model_lex_norm(m):
    """Bring the model's token list to the shape compared by `same`."""
    if "err" in m:
        return ("err", [int(m["err"][0]), int(m["err"][1])])
    out = []
    for kind, value, line, index in m["ok"]:
        if kind == "NUMBER":
            v = {"f": value}
        elif kind in ("INT", "BININT"):
            v = {"i": value}
        else:
            v = value
        out.append([kind, v, {"i": line}, {"i": index}])
    return ("ok", out)


def model_parse_norm(m):
    if "err" in m:
        l, c = m["err"]
        return ("err", [None if l is None else int(l), int(c)])
    return ("ok", m["ok"])


# -------------------------------------------------------------------------------------------- generators

KEYWORDS = ["register", "map", "let", "macro", "loop", "import", "usepulses", "from", "as", "branch", "subcircuit"]
IDENTS = ["g", "Rx", "q", "a", "b.c", "x_1", "foo.bar.baz", "_z", "letx", "loops", "A9", "r", "N", "Sxx", "p.q1"]
VOCAB = (
    KEYWORDS
    + IDENTS
    + ["<", ">", "|", "{", "}", ";", "[", "]", ",", "*", ":", "\n", "\n\n", "0", "1", "2", "-3", "+7", "007",
       "1.5", "-0.25", "+.5", "2.5e3", "1.0E-7", "'01'", "'1'", ".", ".pulses", "qscout.v1", "$", "(", "'", "\r",
       "/", "-", "1e5", "1.", "0x1", "//c", "/*c*/", "/* a\n b */", "\t", "'012'", "''", "1.0e400", "-2.0e309"]
)


class Gen:
    def __init__(self, rng):
        self.r = rng
        self.n_gates = 0  # gate statements generated since the last program() call
        self.comment_rate = 0.2  # probability of a block comment between two tokens (set per rendering)
        self.n_comments = 0  # block comments emitted by the last render_pos()

    def ident(self):
        r = self.r
        if r.random() < 0.7:
            return r.choice(IDENTS)
        s = r.choice("abcxyzQRS_")
        for _ in range(r.randrange(0, 6)):
            s += r.choice("abcxyz019_AZ") if r.random() < 0.85 else "." + r.choice("abcxyz019_")
        return s if s not in KEYWORDS else s + "_"

    def int_(self, lo=-5, hi=40):
        r = self.r
        v = r.randrange(lo, hi)
        s = str(abs(v))
        if r.random() < 0.1:
            s = "0" * r.randrange(1, 3) + s
        if v < 0:
            return "-" + s
        return ("+" if r.random() < 0.15 else "") + s

    def posint(self):
        return str(self.r.randrange(1, 30))

    def number(self):
        r = self.r
        nd = r.randrange(1, 15)
        digits = "".join(r.choice("0123456789") for _ in range(nd))
        k = r.randrange(0, nd)  # digits before the dot (may be 0)
        ip, fp = digits[:k], digits[k:]
        if not fp:
            fp = "0"
        sign = r.choice(["", "", "-", "+"])
        if not ip and not sign:
            ip = "0"  # an unsigned ".5" is DOTIDENTIFIER + INT, not a NUMBER
        s = sign + ip + "." + fp
        if r.random() < 0.4:
            s += r.choice("eE") + r.choice(["", "-", "+"]) + str(r.randrange(0, 280))
        return s

    def let_or_int(self):
        return self.ident() if self.r.random() < 0.4 else self.int_(0, 20)

    def gate(self):
        r = self.r
        self.n_gates += 1
        toks = [self.ident()]
        for _ in range(r.choice([0, 0, 1, 1, 2, 3, 5])):
            k = r.random()
            if k < 0.3:
                toks.append(self.ident())
            elif k < 0.5:
                toks.append(self.int_())
            elif k < 0.7:
                toks.append(self.number())
            else:
                toks += [self.ident(), "[", self.ident() if r.random() < 0.3 else self.int_(0, 9), "]"]
        return toks

    # `SEQ` / `PAR` stand for one separator run, `SEQPAD` / `PARPAD` for optional padding
    def seq_items(self, depth, top=False):
        r = self.r
        n = r.choice([0, 1, 1, 2, 3, 4]) if depth < 4 else r.choice([0, 1])
        out = ["SEQPAD"]
        for i in range(n):
            if i:
                out.append("SEQ")
            out += self.seq_stmt(depth)
        if n and r.random() < 0.4:
            out.append("SEQ")
        return out

    def seq_stmt(self, depth):
        r = self.r
        k = r.random()
        if depth >= 4 or k < 0.5:
            return self.gate()
        if k < 0.7:
            return self.par_block(depth + 1)
        if k < 0.85:
            return ["loop", self.let_or_int()] + self.gate_block(depth + 1)
        return ["subcircuit"] + ([self.let_or_int()] if r.random() < 0.5 else []) + self.seq_block(depth + 1)

    def seq_block(self, depth):
        return ["{"] + self.seq_items(depth) + ["}"]

    def par_block(self, depth):
        r = self.r
        n = r.choice([0, 1, 2, 2, 3]) if depth < 4 else r.choice([0, 1])
        out = ["<", "PARPAD"]
        for i in range(n):
            if i:
                out.append("PAR")
            out += self.gate() if (depth >= 4 or r.random() < 0.7) else self.seq_block(depth + 1)
        if n and r.random() < 0.3:
            out.append("PAR")
        return out + [">"]

    def gate_block(self, depth):
        return self.seq_block(depth) if self.r.random() < 0.7 else self.par_block(depth)

    def header(self):
        r = self.r
        k = r.random()
        if k < 0.25:
            return ["register", self.ident(), "[", self.ident() if r.random() < 0.3 else self.posint(), "]"]
        if k < 0.5:
            return ["let", self.ident(), self.number() if r.random() < 0.5 else self.int_()]
        if k < 0.8:
            t = ["map", self.ident(), self.ident()]
            j = r.random()
            if j < 0.3:
                return t
            if j < 0.5:
                return t + ["[", self.let_or_int(), "]"]
            t.append("[")
            if r.random() < 0.5:
                t.append(self.let_or_int())
            t.append(":")
            if r.random() < 0.5:
                t.append(self.let_or_int())
            if r.random() < 0.5:
                t += [":", self.let_or_int()]
            return t + ["]"]
        return ["from", r.choice(["qscout.v1.std", ".pulses", ".", "a", "x.y"]), "usepulses", "*"]

    def body(self):
        r = self.r
        k = r.random()
        if k < 0.55:
            return self.seq_stmt(0)
        if k < 0.7:
            return self.seq_block(1)
        if k < 0.88:
            return ["macro"] + [self.ident() for _ in range(r.randrange(1, 4))] + self.gate_block(1)
        out = ["branch", "{", "SEQPAD"]
        n = r.randrange(0, 4)
        for i in range(n):
            if i:
                out.append("SEQ")
            out += ["'" + "".join(r.choice("01") for _ in range(r.randrange(1, 4))) + "'", ":"] + self.gate_block(2)
        if n and r.random() < 0.3:
            out.append("SEQ")
        return out + ["}"]

    HEADER_KINDS = ("register", "let", "map", "usepulses")
    BODY_KINDS = ("gate", "seq_block", "par_block", "subcircuit", "loop", "macro")

    def header_of(self, kind):
        r = self.r
        if kind == "register":
            return ["register", self.ident(), "[", self.ident() if r.random() < 0.3 else self.posint(), "]"]
        if kind == "let":
            return ["let", self.ident(), self.number() if r.random() < 0.5 else self.int_()]
        if kind == "map":
            return ["map", self.ident(), self.ident()] + r.choice([[], ["[", self.let_or_int(), "]"], ["[", ":", "]"], ["[", self.let_or_int(), ":", self.let_or_int(), ":", self.let_or_int(), "]"]])
        return ["from", r.choice(["qscout.v1.std", ".pulses", "a"]), "usepulses", "*"]

    def body_of(self, kind):
        r = self.r
        if kind == "gate":
            return self.gate()
        if kind == "seq_block":
            return self.seq_block(2)
        if kind == "par_block":
            return self.par_block(2)
        if kind == "subcircuit":
            return ["subcircuit"] + ([self.let_or_int()] if r.random() < 0.5 else []) + self.seq_block(2)
        if kind == "loop":
            return ["loop", self.let_or_int()] + self.gate_block(2)
        return ["macro"] + [self.ident() for _ in range(r.randrange(1, 4))] + self.gate_block(2)

    def header_after_body(self, hkind, bkind):
        """A program whose body consists ONLY of statements of kind `bkind`, followed by a header statement
        of kind `hkind`. Returns the tokens and the index of the header statement's first token (where the
        error must be reported)."""
        r = self.r
        out = ["SEQPAD"]
        for _ in range(r.choice([0, 0, 1, 2])):
            out += self.header_of(r.choice(self.HEADER_KINDS)) + ["SEQ"]
        for _ in range(r.choice([1, 1, 2, 3])):
            out += self.body_of(bkind) + ["SEQ"]
        at = len(out)
        out += self.header_of(hkind)
        if r.random() < 0.5:
            out += ["SEQ"] + r.choice([[], self.gate(), self.header_of(r.choice(self.HEADER_KINDS))])
        return out, at

    def program(self, valid=True):
        """Token list of a program. Sets `self.n_gates` (number of gate statements) and `self.stmt_start`
        (for every token index, the index of the first token of its top-level statement; separators
        between statements count for themselves)."""
        r = self.r
        self.n_gates = 0
        out = ["SEQPAD"]
        start = [0]
        stmts = [self.header() for _ in range(r.choice([0, 1, 2, 3]))] + [self.body() for _ in range(r.choice([0, 1, 2, 3, 5]))]
        if not valid:
            # break a side condition: header after body, register size <= 0, import
            k = r.random()
            if k < 0.4 and stmts:
                r.shuffle(stmts)
            elif k < 0.7:
                stmts.insert(r.randrange(0, len(stmts) + 1), ["register", self.ident(), "[", r.choice(["0", "-1", "-0", "+0"]), "]"])
            else:
                stmts.insert(r.randrange(0, len(stmts) + 1), ["import", self.ident(), "as", self.ident()])
        for i, s in enumerate(stmts):
            if i:
                start.append(len(out))
                out.append("SEQ")
            start += [len(out)] * len(s)
            out += s
        if stmts and r.random() < 0.5:
            start.append(len(out))
            out.append("SEQ")
        self.stmt_start = start
        return out

    # ---- layout

    STAR_COMMENTS = ["/**/", "/***/", "/****/", "/*****/", "/*/*/", "/* banner **/", "/** x **/", "/***\n * doc\n ***/",
                     "/*\n*/", "/*\n\n\n*/", "/* a\n * b\n */", "/*//*/", "/* // */", "/*/ */", "/** /* **/"]

    def comment(self, allow_line):
        """A comment. Block comment bodies are drawn from an alphabet rich in `*`, `/` and newlines and often
        end in one or more `*` right before the closing `*/`; the only constraint is that the body contains
        no `*/` of its own (the comment ends at the FIRST `*/` after its `/*`)."""
        r = self.r
        k = r.random()
        self.n_comments += 1
        if allow_line and k < 0.3:
            self.n_comments -= 1
            return "//" + "".join(r.choice(" ab/*;|{}<>x1.'$*/") for _ in range(r.randrange(0, 8)))
        if k < 0.5:
            return r.choice(self.STAR_COMMENTS)
        alphabet = " ab\n*/;|{}<>x1.'$" if k < 0.75 else "**//\n\n *x"
        body = "".join(r.choice(alphabet) for _ in range(r.randrange(0, 12)))
        body += "*" * r.choice([0, 0, 1, 1, 2, 3])
        while "*/" in body:
            body = body.replace("*/", r.choice(["* /", "*", "/", "*\n/"]), 1)
        # a body ending in "*" is fine: "/* x **/" closes at its last two characters
        return "/*" + body + "*/"

    def gap(self, need_space):
        """Layout between two tokens of one statement (no newline outside a block comment)."""
        r = self.r
        if r.random() < self.comment_rate:
            return r.choice(["", " "]) + self.comment(False) + r.choice(["", " "])
        if r.random() < 0.75:
            return " " if need_space or r.random() < 0.5 else ""
        return r.choice([" ", "  ", "\t", " \t "])

    def sep(self, chars, at_least_one):
        """A run of separators (`chars` = ';\\n' or '|\\n') with layout, possibly empty."""
        r = self.r
        n = r.choice([1, 1, 1, 2, 3]) if at_least_one else r.choice([0, 0, 1, 2])
        s = ""
        for _ in range(n):
            c = r.choice(chars)
            pre = r.choice(["", "", " ", "\t"])
            if c == "\n" and r.random() < max(0.25, self.comment_rate):
                pre += self.comment(True)
            elif r.random() < self.comment_rate / 2:
                pre += self.comment(False) + " "
            s += pre + c
        return s + r.choice(["", "", " ", "  "])

    MARKERS = ("SEQ", "PAR", "SEQPAD", "PARPAD")

    def render_pos(self, toks):
        """Text of a token list under a random layout, and the start offset of every token's rendering
        (for a separator marker: where its run of separators and layout begins)."""
        out = []
        offs = []
        n = 0
        prev = None
        self.n_comments = 0
        for t in toks:
            piece = ""
            if t == "SEQ":
                piece = self.sep(";\n", True)
            elif t == "PAR":
                piece = self.sep("|\n", True)
            elif t == "SEQPAD":
                piece = self.sep(";\n", False)
            elif t == "PARPAD":
                piece = self.sep("|\n", False)
            else:
                if prev is not None and prev not in self.MARKERS:
                    need = (prev[-1].isalnum() or prev[-1] in "_.'") and (t[0].isalnum() or t[0] in "_.+-'")
                    g = self.gap(need)
                    out.append(g)
                    n += len(g)
                piece = t
            offs.append(n)
            out.append(piece)
            n += len(piece)
            prev = t
        return "".join(out), offs

    def render(self, toks):
        return self.render_pos(toks)[0]

    def mutate_tokens(self, toks):
        """One token deleted / duplicated / swapped / replaced / inserted. Returns the new list and the
        smallest index at which it differs from `toks`."""
        r = self.r
        toks = list(toks)
        if not toks:
            return [r.choice(VOCAB)], 0
        i = r.randrange(len(toks))
        k = r.random()
        if k < 0.25:
            del toks[i]
        elif k < 0.45:
            toks.insert(i, toks[i])
        elif k < 0.6 and len(toks) > 1:
            j = r.randrange(len(toks))
            toks[i], toks[j] = toks[j], toks[i]
            i = min(i, j)
        elif k < 0.85:
            toks[i] = r.choice(VOCAB)
        else:
            toks.insert(i, r.choice(VOCAB))
        return toks, i

    ALPHABET = "abgqxRlet mpo01239._+-eE'<>|{};[],*:\n\n \t/*/ $(\r#\"\\"

    def noise(self):
        r = self.r
        if r.random() < 0.5:
            return "".join(r.choice(self.ALPHABET) for _ in range(r.randrange(0, 25)))
        # words
        return "".join(r.choice(VOCAB) + r.choice(["", " ", " ", "\n"]) for _ in range(r.randrange(0, 12)))

    def mutate_chars(self, s):
        r = self.r
        for _ in range(r.choice([1, 1, 2, 3])):
            if not s:
                return r.choice(self.ALPHABET)
            i = r.randrange(len(s) + 1)
            k = r.random()
            c = r.choice(self.ALPHABET)
            if k < 0.35:
                s = s[:i] + s[i + 1:]
            elif k < 0.7:
                s = s[:i] + c + s[i:]
            else:
                s = s[:i] + c + s[i + 1:]
        return s


EDGE = [
    "", " ", "\n", ";", "\n\n;;\n", "//only a comment", "/* unterminated", "/*/", "/**/", "/***/", "/* a */ */",
    "g", "g\n", "g;", ";g", "g a", "g a[", "g a[1", "g a[1]", "g a[b]", "g a[1.0]", "g a[]", "g a [ 1 ]", "g 1 2.5 -3 +.5",
    "register q[2]", "register q[0]", "register q[-1]", "register q[N]", "register q[0] $", "register q[0] x", "register q[0]\n$",
    "register q[0];$", "let a 1", "let a 1.5", "let a b", "let a", "let", "let 1", "let a 1 $", "let a 1 2",
    "g\nlet a 1", "g\nlet a 1 $", "g\nlet a 1 x", "g\nlet a 1\n$", "g;register q[0]", "import a as b", "import a as b $",
    "import a as b\nx", "g\nimport a as b", "import a", "import", "map a b", "map a b[1]", "map a b[1:]", "map a b[:]",
    "map a b[::]", "map a b[::2]", "map a b[1:2:3]", "map a b[x:y:z]", "map a b[:2]", "map a b[", "map a b[1", "map a b[1:",
    "map a b[1:2", "map a b[1:2:", "map a b[1:2:3", "map a b[1}", "map a b[:}", "map a b[::}", "map a b[1:2:3:4]", "map a b c", "map a",
    "from a usepulses *", "from .a usepulses *", "from . usepulses *", "from a.b.c usepulses *", "from a usepulses", "from a usepulses x",
    "from usepulses *", "from 1 usepulses *", "{", "}", "{}", "{;}", "{\n}", "{g}", "{g;}", "{;g}", "{g;;h}", "{g\nh}", "{g|h}", "<g|h>",
    "<g\nh>", "<g;h>", "<>", "<|>", "< | g | >", "<{g}>", "<{g}|{h}>", "{<g>}", "{{g}}", "<<g>>", "{loop 2 {g}}", "<loop 2 {g}>",
    "loop 2 {g}", "loop N <g>", "loop 2 g", "loop {g}", "loop 2", "loop", "loop 2.0 {g}", "subcircuit {g}", "subcircuit 5 {g}",
    "subcircuit N {g}", "subcircuit <g>", "subcircuit 5 <g>", "subcircuit", "subcircuit 5", "{subcircuit {g}}", "<subcircuit {g}>",
    "macro m {g}", "macro m a b {g a b}", "macro m <g>", "macro {g}", "macro m", "macro m g", "macro", "{macro m {g}}", "macro m 1 {g}",
    "branch {}", "branch {'0': {g}}", "branch {'0': {g}; '1': <h>}", "branch {'0': {g}\n'1': {h}\n}", "branch { ; '0': {g} ; }",
    "branch {'0' {g}}", "branch {0: {g}}", "branch {'0': g}", "branch", "branch {", "branch {'0':", "{branch {}}", "branch {'0': {g} '1': {h}}",
    "'01'", "g '01'", "a..b", "a.b", "a.", ".5", "1.", "+.5", "-3", "a-3", "a -3", "- 3", "1e5", "1.5e", "1.5e+", "1.5e+3x",
    "g 1.0e308", "g 1.7976931348623157e308", "g 1.7976931348623158e308", "g 1.7976931348623159e308", "g 1.8e308", "g 1.0e309", "g -1.0e400",
    "g 0.0e999", "g -0.0", "g 0.0", "g 00.100", "g 1.0e-400", "g 179769313486231580793728971405303415079934132710037826936173778980444968292764750946649017977587207096330286416692887910946555547851940402630657488671505820681908902000708383676273854845817711531764475730270069855571366959622842914819860834936475292719074168444365510704342711559699508093042880177904174497791.0",
    "g 179769313486231580793728971405303415079934132710037826936173778980444968292764750946649017977587207096330286416692887910946555547851940402630657488671505820681908902000708383676273854845817711531764475730270069855571366959622842914819860834936475292719074168444365510704342711559699508093042880177904174497792.0",
    "g 0.000000000000000000000001e333", "g 17976931348623158.0e292", "g 17976931348623159.0e292",
    "g $", "$", "g\n$", "g x $", "g ] $", "g\r\n", "g\t\th", "g /* \n\n */ h $", "g /* \n\n */ ]", "/* \n */ ]", "//x\n]", "\n\n  ]", "g // x\n  h ]",
    "g,h", "g , h", "g * h", "g : h", "g ( h", "g ' h", "g '2' h", "g '' h", "g '01 h",
    "register", "register q", "register q[", "register q[1", "register q 1", "register 1", "REGISTER q[1]", "Register q[1]",
    "let pi 3.14159;register q[2];map a q[0];from x.y usepulses *\nloop 3 { <Rx a pi | Ry q[1] 1.0> ; subcircuit { prepare_all\n measure_all } }",
    "g\n" * 50, "{" * 30 + "g" + "}" * 30, "<{" * 10 + "g" + "}>" * 10, "loop 1 " * 5 + "{g}",
    "g " + "1" * 400, "g " + "1" * 400 + ".5", "g " + "1" * 4300, "g " + "1" * 4301, "g " + "0" * 4301, "g -" + "1" * 4300, "g +" + "1" * 4301, "g 0" + "1" * 4300,
    "g a\n  x -" + "1" * 4301 + " $", "g '" + "1" * 5000 + "'", "register q[" + "1" * 4301 + "]", "loop " + "1" * 4301 + " {g}", "let a -" + "9" * 5000, "g 1." + "1" * 5000, "g 0." + "0" * 400 + "1", "'" + "1" * 300 + "'",
]

STATS = collections.Counter()  # auxiliary counters (e.g. float comparisons that needed rounding)


# --------------------------------------------------------------------------------------------- oracles


def count_gates(sx):
    """Number of `["gate", …]` nodes in a rendered S-expression."""
    if isinstance(sx, list):
        n = 1 if (sx and sx[0] == "gate") else 0
        return n + sum(count_gates(a) for a in sx[1:] if isinstance(a, list))
    return 0


def line_col(text, off):
    return (1 + text.count("\n", 0, off), off - text.rfind("\n", 0, off))


def real_token_starts(text):
    """(line, column) of every token the real lexer produces, plus the position of its error if it fails."""
    out = set()
    try:
        for t in JaqalLexer().tokenize(text):
            out.add((t.lineno, t.index - text.rfind("\n", 0, t.index)))
    except JaqalParseError as e:
        out.add((e.line, e.column))
    except BaseException:  # reported by only_JaqalParseError
        pass
    return out


def oracle_relayout(text1, text2, n_gates):
    """-> (relayout_ok, detail, nodrop_ok | None, detail).  The gate count is checked on every rendering
    that is accepted, also when the other one is rejected."""
    r1, r2 = real_parse(text1), real_parse(text2)
    counts = [count_gates(show(r[1])) for r in (r1, r2) if r[0] == "ok"]
    nodrop = all(g == n_gates for g in counts) if counts else None
    d2 = f"{counts} gate statements in the accepted tree(s), {n_gates} generated"
    if r1[0] != "ok" or r2[0] != "ok":
        what = [r[0] + (" " + json.dumps(r[1]) if r[0] != "ok" else "") for r in (r1, r2)]
        return False, "not accepted: " + " / ".join(what), nodrop, d2
    same_tree = json.dumps(show(r1[1])) == json.dumps(show(r2[1]))
    return same_tree, "" if same_tree else "different S-expressions", nodrop, d2


def oracle_reject_position(text, lb_off):
    """-> (checked, ok, detail).  Only rejected texts are checked."""
    r = real_parse(text)
    if r[0] != "err":
        return False, True, ""
    line, col = r[1]
    if line is None:
        return True, col == 0, "EOF error with column != 0" if col != 0 else ""
    starts = real_token_starts(text)
    if (line, col) not in starts:
        return True, False, f"({line},{col}) is not a token start"
    if lb_off is not None and (line, col) < line_col(text, lb_off):
        return True, False, f"({line},{col}) is before the mutated statement at {line_col(text, lb_off)}"
    return True, True, ""


# ------------------------------------------------------------------------------------------------- run


def classify(rp):
    if rp[0] == "ok":
        return "accepted"
    if rp[0] == "crash":
        return "other_exception"
    return "rejected_at_EOF" if rp[1][0] is None else "rejected_at_token"


def run(seed: int, n: int, driver: str = DEFAULT_DRIVER, thorough: bool = False) -> dict:
    if thorough:
        n *= 5
    STATS.clear()
    rng = random.Random(seed)
    gen = Gen(rng)
    cases = []  # (stream, text)
    orc = {k: {"cases": 0, "failures": []} for k in
           ("relayout_same_sexpr", "no_statement_dropped", "reject_position", "only_JaqalParseError",
            "header_after_body", "error_pos_after_comments")}
    dist = collections.Counter()

    def fail(name, case, detail):
        if len(orc[name]["failures"]) < 20:
            orc[name]["failures"].append({"case": case, "detail": detail})
        dist["oracle_failures_" + name] += 1

    for t in EDGE:
        cases.append(("edge", t))
    def expect_error_at(name, stream, text, off):
        """Oracle: the real parser rejects `text` exactly at offset `off`."""
        cases.append((stream, text))
        want = list(line_col(text, off))
        r = real_parse(text)
        orc[name]["cases"] += 1
        if r[0] != "err" or r[1] != want:
            got = r[1] if r[0] != "ok" else "accepted"
            fail(name, {"oracle": name, "text": text, "off": off}, f"expected error at {want}, got {r[0]} {got}")

    combos = [(h, b) for h in Gen.HEADER_KINDS for b in Gen.BODY_KINDS]
    for k in range(n):
        gen.comment_rate = rng.choice([0.05, 0.2, 0.2, 0.5])
        valid = rng.random() < 0.8
        toks = gen.program(valid=valid)
        n_gates, stmt_start = gen.n_gates, gen.stmt_start
        text = gen.render(toks)
        dist["block_comments_%s" % ("0" if gen.n_comments == 0 else "1" if gen.n_comments == 1 else ">=2")] += 1
        cases.append(("grammar", text))
        # near miss: a header statement of each kind after a body made of one kind of statement only
        hkind, bkind = combos[k % len(combos)]
        htoks, at = gen.header_after_body(hkind, bkind)
        htext, hoffs = gen.render_pos(htoks)
        dist["header_after_%s" % bkind] += 1
        expect_error_at("header_after_body", "hdrafter", htext, hoffs[at])
        # error position after multi-line block comments: an illegal character inside a valid program,
        # or a stray token after it
        if valid:
            save = gen.comment_rate
            gen.comment_rate = 0.5
            if rng.random() < 0.5:
                j = rng.randrange(1, len(toks) + 1)
                ptext = gen.render(toks[:j])
                bad = rng.choice(["$", ")", "#"])
            else:
                ptext = gen.render(toks)
                bad = rng.choice(["]", ",", "$", ":", "*"])
            ptext += rng.choice([" ", "", "\t"]) + rng.choice(["/*\n*/", "/* a\n * b\n **/", "/***\n\n***/", "/*\n\n\n*/ /**/"]) + rng.choice([" ", ""])
            dist["newlines_in_comments_before_error"] += 1
            expect_error_at("error_pos_after_comments", "cmtpos", ptext + bad + rng.choice(["", " x", "\n"]), len(ptext))
            gen.comment_rate = save
        dist["program_tokens_%s" % ("<10" if len(toks) < 10 else "<40" if len(toks) < 40 else ">=40")] += 1
        if valid:
            text2 = gen.render(toks)
            orc["relayout_same_sexpr"]["cases"] += 1
            orc["no_statement_dropped"]["cases"] += 1
            ok1, d1, ok2, d2 = oracle_relayout(text, text2, n_gates)
            if not ok1:
                fail("relayout_same_sexpr", {"oracle": "relayout_same_sexpr", "text": text, "text2": text2, "gates": n_gates}, d1)
            if ok2 is False:
                fail("no_statement_dropped", {"oracle": "no_statement_dropped", "text": text, "text2": text2, "gates": n_gates}, d2)
        mtoks, i = gen.mutate_tokens(toks)
        mtext, offs = gen.render_pos(mtoks)
        cases.append(("tokmut", mtext))
        if valid:
            lb = stmt_start[i] if i < len(stmt_start) else len(mtoks)
            lb_off = offs[lb] if lb < len(offs) else len(mtext)
            checked, ok, d = oracle_reject_position(mtext, lb_off)
            if checked:
                orc["reject_position"]["cases"] += 1
                if not ok:
                    fail("reject_position", {"oracle": "reject_position", "text": mtext, "lb_off": lb_off}, d)
        cases.append(("charmut", gen.mutate_chars(gen.render(toks))))
        cases.append(("noise", gen.noise()))

    texts = [t for _, t in cases]
    model_parse = [model_parse_norm(m) for m in drive(driver, "parse", texts)]
    model_lex = [model_lex_norm(m) for m in drive(driver, "lex", texts)]
    corr = {"parse": {"cases": 0, "disagreements": []}, "lex": {"cases": 0, "disagreements": []}}
    for (stream, text), mp, ml in zip(cases, model_parse, model_lex):
        rp = real_parse(text)
        rl = real_lex(text)
        dist[stream + "_" + classify(rp)] += 1
        dist["parse_" + classify(rp)] += 1
        dist["lex_" + ("ok" if rl[0] == "ok" else "error" if rl[0] == "err" else "other_exception")] += 1
        orc["only_JaqalParseError"]["cases"] += 1
        for which, r in (("parse", rp), ("lex", rl)):
            if r[0] == "crash":
                fail("only_JaqalParseError", {"oracle": "only_JaqalParseError", "op": which, "text": text}, r[1])
        if stream not in ("grammar",):
            # every rejection, on every stream, must be at EOF or at a token start
            checked, ok, d = oracle_reject_position(text, None)
            if checked and stream != "tokmut":
                orc["reject_position"]["cases"] += 1
            if checked and not ok:
                fail("reject_position", {"oracle": "reject_position", "text": text, "lb_off": None}, d)
        if rp[0] != "crash":
            corr["parse"]["cases"] += 1
            if rp[0] != mp[0] or not (same(rp[1], mp[1]) if rp[0] == "ok" else rp[1] == mp[1]):
                if len(corr["parse"]["disagreements"]) < 20:
                    corr["parse"]["disagreements"].append({"case": {"op": "parse", "text": text, "stream": stream},
                                                           "model": list(mp), "impl": [rp[0], show(rp[1])]})
                dist["disagreements_parse"] += 1
        if rl[0] != "crash":
            corr["lex"]["cases"] += 1
            if rl[0] != ml[0] or not (same(rl[1], ml[1]) if rl[0] == "ok" else rl[1] == ml[1]):
                if len(corr["lex"]["disagreements"]) < 20:
                    corr["lex"]["disagreements"].append({"case": {"op": "lex", "text": text, "stream": stream},
                                                         "model": list(ml), "impl": [rl[0], show(rl[1])]})
                dist["disagreements_lex"] += 1
    dist["rounded_float_matches"] = STATS["rounded_float_matches"]
    nontrivial = len({t for t in texts if len(t.split()) >= 3})
    samples = [{"stream": st, "text": t} for st, t in cases[len(EDGE):len(EDGE) + 8]]
    return {"corr": corr, "oracle": orc, "distribution": dict(dist), "samples": samples, "nontrivial": nontrivial}


def replay(case: dict, driver: str = DEFAULT_DRIVER) -> dict:
    """Re-run one case of a `disagreements` / `failures` entry."""
    text = case["text"]
    if "oracle" in case:
        name = case["oracle"]
        impl = real_parse(text)
        impl = [impl[0], show(impl[1]) if impl[0] == "ok" else impl[1]]
        model = list(model_parse_norm(drive(driver, "parse", [text])[0]))
        if name in ("relayout_same_sexpr", "no_statement_dropped"):
            ok1, d1, ok2, d2 = oracle_relayout(text, case["text2"], case["gates"])
            ok, d = (ok1, d1) if name == "relayout_same_sexpr" else (bool(ok2), d2)
        elif name == "reject_position":
            _, ok, d = oracle_reject_position(text, case.get("lb_off"))
        elif name in ("header_after_body", "error_pos_after_comments"):
            want = list(line_col(text, case["off"]))
            r = real_parse(text)
            ok = r[0] == "err" and r[1] == want
            d = "" if ok else f"expected error at {want}, got {r[0]} {r[1] if r[0] != 'ok' else 'accepted'}"
        else:
            r = real_lex(text) if case.get("op") == "lex" else real_parse(text)
            ok, d = r[0] != "crash", r[1] if r[0] == "crash" else ""
        return {"model": model, "impl": impl, "oracle_ok": bool(ok), "detail": d}
    op = case.get("op", "parse")
    if op == "lex":
        r = real_lex(text)
        m = model_lex_norm(drive(driver, "lex", [text])[0])
    else:
        r = real_parse(text)
        m = model_parse_norm(drive(driver, "parse", [text])[0])
    if r[0] == "crash":
        return {"model": list(m), "impl": list(r), "oracle_ok": False, "detail": "real code raised " + r[1]}
    agree = r[0] == m[0] and (same(r[1], m[1]) if r[0] == "ok" else r[1] == m[1])
    return {"model": list(m), "impl": [r[0], show(r[1])], "oracle_ok": None,
            "detail": "model and implementation agree" if agree else "model and implementation DISAGREE"}


def main():
    ap = argparse.ArgumentParser()
    ap.add_argument("--driver", default=DEFAULT_DRIVER)
    ap.add_argument("--n", type=int, default=1000, help="number of generated programs (4 texts each)")
    ap.add_argument("--seed", type=int, default=20260923)
    ap.add_argument("--thorough", action="store_true")
    ap.add_argument("--json", action="store_true", help="print the full result as JSON")
    args = ap.parse_args()
    res = run(args.seed, args.n, args.driver, args.thorough)
    if args.json:
        print(json.dumps(res))
    else:
        print("== parse_diff ==")
        for op, c in res["corr"].items():
            print(f"  corr {op:24s} cases {c['cases']:7d}  disagreements {len(c['disagreements'])}")
            for d in c["disagreements"][:10]:
                print("    DISAGREE text=", repr(d["case"]["text"])[:300])
                print("      impl :", json.dumps(d["impl"])[:400])
                print("      model:", json.dumps(d["model"])[:400])
        for name, o in res["oracle"].items():
            print(f"  oracle {name:22s} cases {o['cases']:7d}  failures {len(o['failures'])}")
            for f in o["failures"][:10]:
                print("    FAIL", f["detail"][:200], " text=", repr(f["case"]["text"])[:200])
        print("  nontrivial distinct texts:", res["nontrivial"])
        for k in sorted(res["distribution"]):
            print(f"    {k:36s} {res['distribution'][k]}")
    bad = any(c["disagreements"] for c in res["corr"].values())
    sys.exit(1 if bad else 0)


if __name__ == "__main__":
    main()
