#!/venv/bin/python
"""C13 on DERIVED OBJECTS, LANGUAGE TRAPS and FAILURE HISTORIES: the used-qubit analysis and the parallel-disjointness check
with gate tables that were DERIVED (not constructed), programs built from run-time values through the S-expression builder,
and API objects (backend, circuit, gate table) that are RE-USED after a call on them raised JaqalError.

The other C13 streams (used_diff, c13_history, c13_edge, c13_combo) always inject the constructor-made table harness.gates,
always run the emulator with backend=None (a fresh backend per call), write every name as a literal of the script and every
index as a Python int.  This stream varies exactly these:

  gate table   the SAME names / signatures made in five ways: constructor; `other.copy(name=, parameters=, ideal_unitary=)` from a
               gate with FEWER / MORE / RENAMED / REORDERED qubit parameters (chains of copies); copy.deepcopy of the table;
               stretched gates (`X_s q f`) of idle gates and idle gates (`I_X_s`) of stretched gates, through stretched_gates(
               add_idle_gates(..)) or add_idle_gates(stretched_gates(..)) or update=True; idle / busy definitions made by
               `.copy(name=)` of another idle / busy definition; a busy gate `sync` that is not prepare / measure; the table's
               insertion order shuffled
  programs     2-4 programs per case over small pools of names that are SUBSTRINGS of one another (q / q0 / qq, a / ab / a0),
               macros calling macros with PERMUTED / SHIFTED parameter names, register-typed and int-typed macro parameters,
               aliases of aliases, empty `{ }` / `< >` / loops over empty blocks, idle and busy gates inside parallel blocks
  forms        built from S-expressions whose strings are created at RUN TIME (never interned), whose sub-expressions are
               tuples / lists / mixed and either SHARED objects (the same tuple in several positions / scopes) or all fresh,
               whose indices / sizes / let values are int / integral float / numpy.int64 / numpy.float64 / bool; parsed from
               text (own printer); REBUILT by feeding the constants / registers / macros / statements of a built circuit
               back into the builder; through expand_macros / fill_in_let / expand_subcircuits in several orders; through
               an already expanded circuit run again
  history      the calls of a case happen in one process, all emulator runs of a case on ONE explicitly created backend
               object (or backend=None); rejected programs (overlap at various depths) and BROKEN programs (a gate before
               prepare_all, a dangling measure_all deep in nested blocks, a gate given one qubit twice - alone and together
               with an overlap) precede valid ones; calls that raise on purpose (a macro-body statement analysed without
               context) hit the same circuit object that is analysed afterwards; the first judged call is repeated last
  access       probability views of a result are read by_str first or by_int first

Expected values come from an independent reference in this script (`Ref`: a lexical interpreter of the S-expression).
oracles (real code alone; "corr" is empty)
    used_exact_traps    get_used_qubit_indices(circuit | pass output | busy-free sub-statement) returns exactly the reference set
    reject_iff_traps    UsedQubitIndicesVisitor(validate_parallel) / DiscoverSubcircuits / run_jaqal_circuit raise JaqalError
                        <=> the reference finds a parallel block with two intersecting branches (otherwise valid programs
                        only; broken programs are history, never judged); any other class, a hang, acceptance of a
                        collision, rejection of a collision-free program fails - whatever was called before
    order_traps         the twin with the branches of every parallel block permuted gives the same used sets, the same
                        acceptance and the same state vectors / probabilities (Gaussian-dyadic gates: exact up to 1e-12)

CLI:    PYTHONPATH=/verif /venv/bin/python /verif/harness/agents/c13_traps.py [--seed S] [--n N] [--thorough]
Module: harness.agents.c13_traps.run(seed, n, driver, thorough) -> dict ; replay(case, driver) -> dict
        a case is one whole history: replay needs nothing else.
"""
import os, sys, gc, json, copy, random, signal, argparse, warnings

os.environ.setdefault("JAQALPAQ_RUN_EMULATOR", "1")
_ROOT = os.path.dirname(os.path.dirname(os.path.dirname(os.path.abspath(__file__))))
if _ROOT not in sys.path:
    sys.path.insert(0, _ROOT)

DEFAULT_DRIVER = "/verif/lean/.lake/build/bin/jaqal-model"
ORACLES = ["used_exact_traps", "reject_iff_traps", "order_traps"]
TABLES = ["ctor", "copy_up", "copy_down", "deepcopy", "copy_plain"]
STRETCH = ["idle_then_stretch", "stretch_then_idle", "update"]
NUMFORMS = ["int", "float", "np64", "npf", "bool", "mixed"]

_LIB = {}


def lib():
    """Lazy imports (no work at import time)."""
    if _LIB:
        return _LIB
    warnings.filterwarnings("ignore")
    import numpy as np
    from harness import gates as HG
    from jaqalpaq.parser import parse_jaqal_string
    from jaqalpaq.core import GateDefinition, Parameter, ParamType
    from jaqalpaq.core.gatedef import BusyGateDefinition, IdleGateDefinition, add_idle_gates
    from jaqalpaq.core.stretch import stretched_gates
    from jaqalpaq.core.circuitbuilder import build
    from jaqalpaq.core.algorithm import get_used_qubit_indices, expand_macros, fill_in_let, expand_subcircuits
    from jaqalpaq.core.algorithm.used_qubit_visitor import UsedQubitIndicesVisitor
    from jaqalpaq.core.algorithm.walkers import DiscoverSubcircuits
    from jaqalpaq.emulator import run_jaqal_circuit, UnitarySerializedEmulator
    from jaqalpaq.error import JaqalError

    class VP(UsedQubitIndicesVisitor):
        validate_parallel = True

    _LIB.update(locals())
    return _LIB


class Hang(Exception):
    pass


def _alarm(*a):
    raise Hang()


def guarded(f, secs=None):
    """-> ("ok", value) | ("err", class name, message)   secs: a short budget for calls that are history only (never judged)"""
    L = lib()
    from harness import timeouts as _T
    old = signal.signal(signal.SIGALRM, _alarm)
    signal.alarm(int(secs or _T.limit()))
    try:
        return ("ok", f())
    except Hang:
        if secs is None:
            _T.saw_hang()
        return ("err", "hang", "")
    except L["JaqalError"] as e:
        return ("err", "JaqalError", str(e)[:200])
    except RecursionError:
        return ("err", "RecursionError", "")
    except Exception as e:
        return ("err", type(e).__name__, str(e)[:200])
    finally:
        signal.alarm(0)
        signal.signal(signal.SIGALRM, old)


# ------------------------------------------------------------------------------------------------
# gate tables: the same names and signatures, made in different ways
# signature letters: q qubit, r register, i int, f float ; class n(ormal) / idle / busy

BASE_SIG = {
    "X": "q", "Y": "q", "Z": "q", "S": "q", "SX": "q", "N": "q", "RG": "r",
    "P": "qi", "PF": "fq",
    "CX": "qq", "CZ": "qq", "SWAP": "qq", "HH": "qq", "NS": "qq",
    "CCX": "qqq", "ROT3": "qqq",
}
STRETCHED = ["X", "SX", "P", "CX", "NS"]  # have X_s … and I_X_s …
SIGS = {}
for _n, _s in BASE_SIG.items():
    SIGS[_n] = ("n", _s)
    SIGS["I_" + _n] = ("idle", _s)
for _n in STRETCHED:
    SIGS[_n + "_s"] = ("n", BASE_SIG[_n] + "f")
    SIGS["I_" + _n + "_s"] = ("idle", BASE_SIG[_n] + "f")
SIGS["I_w"] = ("idle", "q")
SIGS["I_w2"] = ("idle", "qq")
SIGS["sync"] = ("busy", "")
SIGS["prepare_all"] = ("busy", "")
SIGS["measure_all"] = ("busy", "")
PNAMES = {  # parameter names of the final definitions (positional calls only: names do not matter for the programs)
    "q": ["q"], "r": ["g"], "qi": ["q", "k"], "fq": ["k", "q"], "qq": ["c", "t"], "qqq": ["a", "b", "c"],
}


def make_table(spec):
    """spec {"how": TABLES, "stretch": STRETCH, "order": int, "idle_copy": bool, "busy_copy": bool} -> dict name -> definition"""
    L = lib()
    HG, GD, Par, PT = L["HG"], L["GateDefinition"], L["Parameter"], L["ParamType"]
    kind = {"q": PT.QUBIT, "r": PT.REGISTER, "i": PT.INT, "f": PT.FLOAT}
    U = {"X": HG.U_X, "Y": HG.U_Y, "Z": HG.U_Z, "S": HG.U_S, "SX": HG.U_SX, "N": None, "RG": None, "P": HG.U_P, "PF": HG.U_P,
         "CX": HG.U_CX, "CZ": HG.U_CZ, "SWAP": HG.U_SWAP, "HH": HG.U_HH, "NS": HG.U_NS, "CCX": HG.U_CCX, "ROT3": HG.U_ROT3}

    def params(name, alt=False):
        sig = BASE_SIG[name]
        names = PNAMES[sig]
        if alt:
            names = [n + "1" for n in names]
        return [Par(n, kind[k]) for n, k in zip(names, sig)]

    def rt(name):
        # a name made at run time (not the interned literal) when the spec says so
        return "".join([ch for ch in name]) if spec.get("fresh_names") else name

    def ctor(name):
        return GD(rt(name), params(name), ideal_unitary=U[name])

    how = spec["how"]
    T = {}
    if how in ("ctor", "deepcopy"):
        for n in BASE_SIG:
            T[n] = ctor(n)
    elif how == "copy_plain":
        # every definition is a plain copy (nothing changed / only the name restated) of a constructed one
        for n in BASE_SIG:
            g = ctor(n)
            T[n] = g.copy(name=n) if len(n) % 2 else g.copy()
    else:
        # chains of copies: each gate is derived from a gate with other qubit parameters
        chain_up = ["X", "CX", "CCX", "ROT3", "Y", "P", "PF", "Z", "CZ", "SWAP", "S", "HH", "NS", "SX"]
        chain = chain_up if how == "copy_up" else list(reversed(chain_up))
        prev = ctor(chain[0]) if how == "copy_up" else GD("SX", [Par("zz", PT.QUBIT), Par("c", PT.QUBIT), Par("k", PT.INT)], ideal_unitary=HG.U_CCX)
        for j, n in enumerate(chain):
            if j == 0 and how == "copy_up":
                T[n] = prev
                continue
            prev = prev.copy(name=n, parameters=params(n, alt=(j % 3 == 0)), ideal_unitary=U[n])
            T[n] = prev
        # gates without a unitary cannot be derived by copy from one that has it (None = keep): constructed, then copied
        T["N"] = ctor("N")
        T["RG"] = T["N"].copy(name="RG", parameters=params("RG"))
    if spec.get("busy_copy"):
        T["prepare_all"] = L["BusyGateDefinition"](rt("prepare_all"), [])
        T["measure_all"] = T["prepare_all"].copy(name=rt("measure_all"))
        T["sync"] = T["measure_all"].copy(name=rt("sync"), parameters=[])
    else:
        for n in ("prepare_all", "measure_all", "sync"):
            T[n] = L["BusyGateDefinition"](rt(n), [])
    base = {n: T[n] for n in BASE_SIG}
    sub = {n: T[n] for n in STRETCHED}
    st = spec["stretch"]
    if st == "idle_then_stretch":
        idle = L["add_idle_gates"](base)
        T.update(idle)
        T.update(L["stretched_gates"]({n: g for n, g in idle.items() if n in sub or (n[2:] in sub and n.startswith("I_"))}, suffix="_s"))
    elif st == "stretch_then_idle":
        T.update(L["add_idle_gates"](base))
        T.update(L["add_idle_gates"](L["stretched_gates"](sub, suffix="_s")))
    else:
        d = dict(sub)
        L["stretched_gates"](d, suffix="_s", update=True)
        T.update(L["add_idle_gates"]({**base, **d}))
    if spec.get("idle_copy"):
        T["I_w"] = T["I_CX"].copy(name="I_w", parameters=[Par("q", PT.QUBIT)])
        T["I_w2"] = T["I_X"].copy(name="I_w2", parameters=[Par("a", PT.QUBIT), Par("b", PT.QUBIT)])
    else:
        T["I_w"] = L["IdleGateDefinition"](T["X"], name="I_w")
        T["I_w2"] = L["IdleGateDefinition"](T["CZ"], name="I_w2")
    names = sorted(T)
    random.Random(spec["order"]).shuffle(names)
    if spec["order"] % 3 == 0:
        names.sort(reverse=True)
    T = {n: T[n] for n in names}
    if how == "deepcopy":
        T = copy.deepcopy(T)
    missing = set(SIGS) - set(T)
    assert not missing, missing
    return T


# ------------------------------------------------------------------------------------------------
# the reference

class Invalid(Exception):
    """the program is NOT otherwise valid"""


class Ref:
    def __init__(self, sx):
        self.lets, self.regs, self.qals, self.macros, self.body = {}, {}, {}, {}, []
        self.size = None
        for it in sx[1:]:
            c = it[0]
            if c == "let":
                self.lets[it[1]] = it[2]
            elif c == "register":
                n = self.g(it[2])
                if not isinstance(n, int) or n < 1 or self.size is not None:
                    raise Invalid("register")
                self.size = n
                self.regs[it[1]] = list(range(n))
            elif c == "map":
                if it[2] not in self.regs:
                    raise Invalid("map source")
                l = self.regs[it[2]]
                if len(it) == 3:
                    self.regs[it[1]] = l
                elif len(it) == 4:
                    i = self.g(it[3])
                    if not 0 <= i < len(l):
                        raise Invalid("qubit alias index")
                    self.qals[it[1]] = l[i]
                else:
                    st, sp, se = (self.g(x) for x in it[3:6])
                    st = 0 if st is None else st
                    sp = len(l) if sp is None else sp
                    se = 1 if se is None else se
                    if se == 0 or st < 0 or sp > len(l) or sp < 0:
                        raise Invalid("slice")
                    r = range(st, sp, se)
                    if len(r) and (r[0] >= len(l) or r[-1] < 0):
                        raise Invalid("slice range")
                    self.regs[it[1]] = [l[i] for i in r]
            elif c == "macro":
                self.macros[it[1]] = (it[2:-1], it[-1])
            else:
                self.body.append(it)
        self.all = set(range(self.size))

    def g(self, x):
        if isinstance(x, str):
            if x not in self.lets:
                raise Invalid("unknown let " + x)
            return self.lets[x]
        return x

    def name(self, nm, env):
        if nm in env:
            return env[nm]
        if nm in self.qals:
            return ("q", self.qals[nm])
        if nm in self.regs:
            return ("r", self.regs[nm])
        if nm in self.lets:
            return ("n", self.lets[nm])
        raise Invalid("unknown name " + nm)

    def arg(self, a, env):
        if isinstance(a, str):
            return self.name(a, env)
        if isinstance(a, list):
            if a[0] != "array_item":
                raise ValueError(a)
            b = self.name(a[1], env)
            if b[0] != "r":
                raise Invalid("indexing a non-register")
            i = a[2]
            if isinstance(i, str):
                v = self.name(i, env)
                if v[0] != "n":
                    raise Invalid("index not a number")
                i = v[1]
            if not isinstance(i, int) or not 0 <= i < len(b[1]):
                raise Invalid("index out of range")
            return ("q", b[1][i])
        return ("n", a)

    def used(self, s, env, ev):
        """fundamental indices some gate reachable from s acts on; events P (parallel branches share a qubit), G (a gate
        given one qubit twice), B (busy gate)"""
        c = s[0]
        if c == "gate":
            nm, args = s[1], s[2:]
            if nm in self.macros:
                ps, body = self.macros[nm]
                if len(ps) != len(args):
                    raise Invalid("argument count")
                env2 = {p: self.arg(a, env) for p, a in zip(ps, args)}
                return self.used(body, env2, ev)
            cls, sig = SIGS[nm]
            if len(sig) != len(args):
                raise Invalid("argument count")
            out, seen = set(), set()
            for k, a in zip(sig, args):
                v = self.arg(a, env)
                if k in "qr":
                    if v[0] != k:
                        raise Invalid("argument kind")
                    cur = {v[1]} if k == "q" else set(v[1])
                    if seen & cur:
                        ev.append("G")
                    seen |= cur
                    out |= cur
                elif v[0] != "n" or (k == "i" and not float(v[1]).is_integer()):
                    raise Invalid("argument kind")
            if cls == "busy":
                ev.append("B")
                return set(self.all)
            return set() if cls == "idle" else out
        if c in ("sequential_block", "parallel_block"):
            return self.block(c == "parallel_block", s[1:], env, ev)
        if c == "loop":
            n = s[1]
            if isinstance(n, str):
                v = self.name(n, env)
                if v[0] != "n":
                    raise Invalid("loop count")
                n = v[1]
            if not isinstance(n, int) or n < 0:
                raise Invalid("loop count")
            return self.used(s[2], env, ev)
        if c == "subcircuit_block":
            ev.append("B")
            self.block(False, s[2:], env, ev)
            return set(self.all)
        raise ValueError(s)

    def block(self, par, items, env, ev):
        out = set()
        for x in items:
            cur = self.used(x, env, ev)
            if par and out & cur:
                ev.append("P")
            out |= cur
        return out

    def judge(self):
        """-> (used set of the circuit, collides?)   raises Invalid"""
        ev = []
        u = self.block(False, self.body, {}, ev)
        # macros never called must still be well-formed for the parts that do not depend on parameters: not checked here,
        # the generator only writes parameter-free references that are valid
        if "G" in ev:
            raise Invalid("a gate given one qubit twice")
        return u, "P" in ev


def permute(sx, k):
    """the twin: branches of every parallel block rotated by k / reversed"""
    if not isinstance(sx, list):
        return sx
    items = [permute(x, k) for x in sx]
    if items and items[0] == "parallel_block" and len(items) > 2:
        br = items[1:]
        br = br[::-1] if k == 0 else br[k % len(br):] + br[: k % len(br)]
        if br == items[1:]:
            br = br[::-1]
        items = ["parallel_block"] + br
    return items


# ------------------------------------------------------------------------------------------------
# materialisation: JSON S-expression -> the Python values handed to the builder ; own printer for the text route

def numform(v, mode, salt):
    L = lib()
    np = L["np"]
    if not isinstance(v, int) or isinstance(v, bool):
        return v
    if mode == "mixed":
        mode = ["int", "float", "np64", "npf", "bool"][salt % 5]
    if mode == "float":
        return float(v)
    if mode == "np64":
        return np.int64(v)
    if mode == "npf":
        return np.float64(v)
    if mode == "bool" and v in (0, 1):
        return bool(v)
    return v


def materialise(sx, forms):
    memo = {}
    cnt = [0]

    def fresh(s):
        if not forms["fresh"]:
            return s
        return "".join([ch for ch in s])  # a new str object (for len > 1), never interned

    def seq(items):
        cnt[0] += 1
        m = forms["seq"]
        if m == "tuple" or (m == "mixed" and cnt[0] % 2):
            return tuple(items)
        return list(items)

    def go(x, numeric=False):
        if isinstance(x, str):
            return fresh(x)
        if not isinstance(x, list):
            if numeric:
                cnt[0] += 1
                return numform(x, forms["num"], cnt[0])
            return x
        key = json.dumps(x)
        if forms["share"] and key in memo:
            return memo[key]
        c = x[0]
        if c in ("let", "register"):
            r = seq([fresh(c), fresh(x[1]), go(x[2], True)])
        elif c == "map":
            r = seq([fresh(c), fresh(x[1]), fresh(x[2])] + [go(y, True) for y in x[3:]])
        elif c == "array_item":
            r = seq([fresh(c), fresh(x[1]), go(x[2], True)])
        elif c == "subcircuit_block":
            r = seq([fresh(c), x[1]] + [go(y) for y in x[2:]])
        else:
            r = seq([fresh(c)] + [go(y) for y in x[1:]])
        if forms["share"]:
            memo[key] = r
        return r

    return go(sx)


def text_ok(sx):
    """can the Jaqal TEXT say this S-expression?  (no block directly inside a block of the same kind, no loop directly inside
    a parallel block; the builder accepts more shapes than the grammar)"""
    def go(s, parent):
        c = s[0]
        if c == "gate":
            return True
        if c == "loop":
            return parent != "parallel_block" and s[2][0] == "sequential_block" and go(s[2], "loop")
        if c in ("sequential_block", "parallel_block"):
            return parent != c and all(go(x, c) for x in s[1:])
        if c == "subcircuit_block":
            return parent == "top" and all(go(x, "sequential_block") for x in s[2:])
        return False

    for it in sx[1:]:
        if it[0] == "macro":
            if not all(go(x, it[-1][0]) for x in it[-1][1:]):
                return False
        elif it[0] not in ("let", "register", "map") and not go(it, "top"):
            return False
    return True


def render(sx):
    def num(v):
        return repr(v)

    def arg(a):
        if isinstance(a, list):
            return f"{a[1]}[{a[2]}]"
        return a if isinstance(a, str) else num(a)

    def stmt(s, ind):
        c = s[0]
        if c == "gate":
            return " ".join([s[1]] + [arg(a) for a in s[2:]])
        if c == "sequential_block":
            return "{ " + " ; ".join(stmt(x, ind) for x in s[1:]) + " }"
        if c == "parallel_block":
            return "< " + " | ".join(stmt(x, ind) for x in s[1:]) + " >"
        if c == "loop":
            return f"loop {s[1]} " + stmt(s[2], ind)
        if c == "subcircuit_block":
            return "subcircuit" + ("" if s[1] in (None, "") else f" {s[1]}") + " { " + " ; ".join(stmt(x, ind) for x in s[2:]) + " }"
        raise ValueError(s)

    out = []
    for it in sx[1:]:
        c = it[0]
        if c == "let":
            out.append(f"let {it[1]} {num(it[2])}")
        elif c == "register":
            out.append(f"register {it[1]}[{it[2]}]")
        elif c == "map":
            if len(it) == 3:
                out.append(f"map {it[1]} {it[2]}")
            elif len(it) == 4:
                out.append(f"map {it[1]} {it[2]}[{it[3]}]")
            else:
                b = ["" if v is None else str(v) for v in it[3:6]]
                out.append(f"map {it[1]} {it[2]}[{b[0]}:{b[1]}:{b[2]}]")
        elif c == "macro":
            out.append(f"macro {' '.join(it[1:-1])} " + stmt(it[-1], ""))
        else:
            out.append(stmt(it, ""))
    return "\n".join(out) + "\n"


# ------------------------------------------------------------------------------------------------
# generator

REG_NAMES = ["q", "r", "qq", "q0", "rq"]
ALIAS_NAMES = ["a", "ab", "b", "a0", "q1", "qa", "aq", "ba", "w"]
LET_NAMES = ["n", "nn", "k", "n0", "i", "kn"]
MACRO_NAMES = ["m", "mm", "m0", "f", "fm", "g", "gm"]
PARAM_NAMES = ["a", "b", "c", "x", "y", "xa", "ax", "p", "p0", "s", "t", "u", "bx", "yb"]
ONE = ["X", "Y", "Z", "S", "SX", "N", "I_X", "I_w", "I_SX"]
TWO = ["CX", "CZ", "SWAP", "HH", "NS", "I_CX", "I_w2", "I_NS"]


class Gen:
    def __init__(self, rng, kind):
        self.rng = rng
        self.kind = kind  # valid | collide | any
        r = rng
        self.items = ["circuit"]
        self.size = r.choice([3, 4, 4, 5])
        self.reg = r.choice(REG_NAMES)
        taken = {self.reg}
        self.lets = {}
        lets_pool = [x for x in LET_NAMES if x not in taken]
        r.shuffle(lets_pool)
        for nm in lets_pool[: r.choice([0, 1, 2, 2])]:
            self.lets[nm] = r.choice([0, 1, 1, 2, self.size - 1])
            taken.add(nm)
        size_let = None
        if r.random() < 0.3:
            size_let = [x for x in LET_NAMES if x not in taken][0]
            self.lets[size_let] = self.size
            taken.add(size_let)
        names = list(self.lets)
        r.shuffle(names)
        early = [n for n in names if n == size_let or r.random() < 0.6]
        late = [n for n in names if n not in early]
        for n in early:
            self.items.append(["let", n, self.lets[n]])
        self.items.append(["register", self.reg, size_let or self.size])
        for n in late:
            self.items.append(["let", n, self.lets[n]])
        self.regs = {self.reg: list(range(self.size))}
        self.qals = {}
        pool = [x for x in ALIAS_NAMES if x not in taken]
        r.shuffle(pool)
        for nm in pool[: r.choice([0, 1, 2, 3, 3])]:
            src = r.choice(list(self.regs))
            l = self.regs[src]
            t = r.random()
            if t < 0.25:
                i = r.randrange(len(l))
                cand = [k for k, v in self.lets.items() if v == i]
                self.items.append(["map", nm, src, r.choice(cand) if cand and r.random() < 0.5 else i])
                self.qals[nm] = l[i]
            elif t < 0.4:
                self.items.append(["map", nm, src])
                self.regs[nm] = l
            else:
                for _ in range(10):
                    st = r.randrange(len(l))
                    se = r.choice([1, 1, 2, -1])
                    sp = r.randrange(st + 1, len(l) + 1) if se > 0 else r.randrange(-1, st) if st else None
                    if sp is None or (se < 0 and sp < 0):
                        continue
                    new = [l[i] for i in range(st, sp, se)]
                    if len(new) >= 2:
                        break
                else:
                    continue
                self.items.append(["map", nm, src, st, sp, se])
                self.regs[nm] = new
            taken.add(nm)
        self.taken = taken
        # forms: fundamental index -> expressions (top-level scope)
        self.forms = {i: [] for i in range(self.size)}
        for nm, l in self.regs.items():
            for j, f in enumerate(l):
                self.forms[f].append(["array_item", nm, j])
                for k, v in self.lets.items():
                    if v == j:
                        self.forms[f].append(["array_item", nm, k])
        for nm, f in self.qals.items():
            self.forms[f].append(nm)
            self.forms[f].append(nm)
        self.macros = {}  # name -> param kinds string
        self.macro_params = {}
        self.make_macros()
        self.make_body()

    # ---- expressions
    _avoid = ()
    _dup = False

    def top_qubit(self, allowed):
        al = sorted(set(allowed) - set(self._avoid))
        if not al:
            self._dup = True
            al = sorted(allowed)
        f = self.rng.choice(al)
        self._avoid = set(self._avoid) | {f}
        return self.rng.choice(self.forms[f])

    def classical(self, k):
        r = self.rng
        if k == "i":
            return r.choice([0, 1, 2, 3, 2.0, -1] + [n for n in self.lets])
        return r.choice([0, 1, 0.5, -0.0, 2.25, 3] + [n for n in self.lets])

    def regs_of_len(self, n):
        return [nm for nm, l in self.regs.items() if len(l) >= n]

    def gate(self, qubit, depth=0, allow_busy=False):
        """one gate / macro call; qubit() -> a qubit expression valid in the scope"""
        r = self.rng
        t = r.random()
        drawn = []
        _q = qubit
        self._avoid = set()
        self._dup = False

        def wrapped():
            for _ in range(6):
                e = _q()
                if e not in drawn:
                    break
            else:
                self._dup = True
            drawn.append(e)
            return e

        g = self.gate_inner(wrapped, depth, allow_busy, t)
        if self._dup and drawn:
            # the scope does not offer enough different qubits for this gate
            return ["gate", r.choice(ONE), drawn[0]]
        return g

    def gate_inner(self, qubit, depth, allow_busy, t):
        r = self.rng
        if self.macros and t < 0.3:
            nm = r.choice(list(self.macros) + list(self.macros)[-1:] * 2)
            args = []
            for k in self.macros[nm]:
                if k == "q":
                    args.append(qubit())
                elif k == "r":
                    c = self.reg_arg(2)
                    if c is None:
                        return ["gate", "X", qubit()]
                    args.append(c)
                else:
                    args.append(self.int_arg())
            return ["gate", nm] + args
        if allow_busy and t < 0.36:
            return ["gate", "sync"]
        if t < 0.62:
            return ["gate", r.choice(ONE), qubit()]
        if t < 0.8:
            return ["gate", r.choice(TWO), qubit(), qubit()]
        if t < 0.84:
            return ["gate", r.choice(["CCX", "ROT3"]), qubit(), qubit(), qubit()]
        if t < 0.89:
            return ["gate", r.choice(["P", "I_P"]), qubit(), self.classical("i")]
        if t < 0.93:
            return ["gate", "PF", self.classical("f"), qubit()]
        s = r.choice(STRETCHED)
        idle = "I_" if r.random() < 0.4 else ""
        sig = BASE_SIG[s]
        return ["gate", idle + s + "_s"] + [qubit() if k == "q" else self.classical(k) for k in sig] + [r.choice([1, 1.5, 2, 0.25])]

    def macros_need_reg(self):
        return True

    # scope hooks (top level defaults; make_macros overrides while it writes a body)
    def reg_arg(self, n):
        c = self.regs_of_len(n)
        return self.rng.choice(c) if c else None

    def int_arg(self):
        return self.rng.choice([0, 1, 0, 1] + [k for k, v in self.lets.items() if v in (0, 1)])

    def make_macros(self):
        r = self.rng
        pool = [x for x in MACRO_NAMES if x not in self.taken]
        r.shuffle(pool)
        prev_params = None
        for nm in pool[: r.choice([0, 1, 2, 2, 3])]:
            ppool = [x for x in PARAM_NAMES if x not in self.taken]
            np_ = r.choice([1, 2, 2, 3])
            callee = None
            if self.macros and r.random() < 0.65:
                # the parameter names of an earlier macro (which this one will call), permuted or shifted; each name keeps
                # the kind it has there so that it can be handed over crosswise
                callee = r.choice(list(self.macros))
                cps = self.macro_params[callee]
                kmap = dict(zip(cps, self.macros[callee]))
                ps = list(cps)
                t = r.random()
                if t < 0.4 and len(ps) > 1:
                    ps = ps[::-1]
                elif t < 0.6 and len(ps) > 1:
                    r.shuffle(ps)
                else:
                    new_name = r.choice([x for x in ppool if x not in ps])
                    kmap[new_name] = "q"
                    ps = ([new_name] + ps[:-1]) if r.random() < 0.5 else ([new_name] + ps)
                kinds = "".join(kmap[x] for x in ps)
            else:
                ps = r.sample(ppool, np_)
                pairs = [pr for pr in (("a", "ax"), ("a", "xa"), ("b", "bx"), ("b", "yb"), ("p", "p0")) if pr[0] in ppool and pr[1] in ppool]
                if np_ >= 2 and pairs and r.random() < 0.45:
                    # two parameters of one macro, one name a SUBSTRING of the other, in either order
                    pr = list(r.choice(pairs))
                    r.shuffle(pr)
                    ps = pr + [x for x in ps if x not in pr][: np_ - 2]
                kinds = "".join(r.choice("qqqqqqri") for _ in ps)
            if "q" not in kinds and "r" not in kinds:
                kinds = "q" + kinds[1:]
            qs = [p for p, k in zip(ps, kinds) if k == "q"]
            rs = [p for p, k in zip(ps, kinds) if k == "r"]
            ns = [p for p, k in zip(ps, kinds) if k == "i"]

            def qubit():
                t = r.random()
                if qs and t < 0.6:
                    return r.choice(qs)
                if rs and t < 0.85:
                    return ["array_item", r.choice(rs), r.choice([0, 1] + ns[:1])]
                if qs and t < 0.93:
                    return r.choice(qs)
                return self.top_qubit(range(self.size))

            save = (self.reg_arg, self.int_arg, self.classical)
            self.reg_arg = lambda n, _rs=rs, _o=save[0]: r.choice(_rs) if _rs and r.random() < 0.7 else _o(n)
            self.int_arg = lambda _ns=ns, _o=save[1]: r.choice(_ns) if _ns and r.random() < 0.7 else _o()
            self.classical = lambda k, _ns=ns, _o=save[2]: r.choice(_ns) if _ns and r.random() < 0.5 else _o(k)
            try:
                body = self.block(qubit, depth=1, par=r.random() < 0.25, maxlen=3)
                if self.macros and (callee or r.random() < 0.5):
                    # a call of an earlier macro whose arguments are this macro's own parameters, crosswise where possible
                    callee = callee or r.choice(list(self.macros))
                    own = {"q": list(qs), "r": list(rs), "i": list(ns)}
                    for l in own.values():
                        r.shuffle(l)
                    args = []
                    for cp, k in zip(self.macro_params[callee], self.macros[callee]):
                        cand = [x for x in own[k] if x != cp] or own[k]
                        if cand and r.random() < 0.9:
                            x = cand[0]
                            own[k].remove(x)
                            args.append(x)
                        elif k == "q":
                            args.append(self.top_qubit(range(self.size)))
                        elif k == "r":
                            args.append(save[0](2))
                        else:
                            args.append(save[1]())
                    if None not in args:
                        body.insert(r.randrange(1, len(body) + 1), ["gate", callee] + args)
            finally:
                self.reg_arg, self.int_arg, self.classical = save
            self.items.append(["macro", nm] + ps + [body])
            self.macros[nm] = kinds
            self.macro_params[nm] = ps

    def block(self, qubit, depth, par, maxlen=4, allowed=None):
        r = self.rng
        n = r.choice([0, 1, 1, 2, 2, 3, maxlen]) if depth else r.choice([1, 2, 3, maxlen])
        items = []
        if par and allowed is not None and self.kind != "collide" and r.random() < 0.75:
            # branches over disjoint subsets of the allowed qubits
            al = sorted(allowed)
            r.shuffle(al)
            n = max(2, min(n, len(al)))
            parts = [al[j::n] for j in range(n)]
            for p in parts:
                if not p:
                    continue
                items.append(self.stmt(lambda _p=p: self.top_qubit(_p), depth + 1, _allowed=p))
            if r.random() < 0.3:
                items.insert(r.randrange(len(items) + 1), r.choice([["sequential_block"], ["gate", "I_X", self.top_qubit(al)], ["loop", 2, ["sequential_block"]], ["parallel_block"]]))
        else:
            for _ in range(n):
                items.append(self.stmt(qubit, depth + 1, _allowed=allowed))
        return ["parallel_block" if par else "sequential_block"] + items

    def stmt(self, qubit, depth, _allowed=None):
        r = self.rng
        t = r.random()
        if depth >= 4 or t < 0.55:
            return self.gate(qubit, depth, allow_busy=(depth >= 2 and r.random() < 0.15))
        if t < 0.72:
            return self.block(qubit, depth, False, allowed=_allowed)
        if t < 0.9:
            return self.block(qubit, depth, True, allowed=_allowed)
        cnt = r.choice([1, 2, 2, 0] + [k for k, v in self.lets.items() if v in (1, 2)])
        return ["loop", cnt, self.block(qubit, depth, r.random() < 0.3, allowed=_allowed)]

    def make_body(self):
        r = self.rng
        al = list(range(self.size))
        q = lambda: self.top_qubit(al)
        for seg in range(r.choice([1, 1, 2])):
            inner = [["gate", "prepare_all"]]
            for _ in range(r.choice([1, 2, 3])):
                t = r.random()
                if t < 0.55:
                    inner.append(self.block(q, 1, True, allowed=al))
                else:
                    inner.append(self.stmt(q, 1, _allowed=al))
            inner.append(["gate", "measure_all"])
            t = r.random()
            if t < 0.12:
                self.items.append(["loop", 2, ["sequential_block"] + inner])
            elif t < 0.24:
                self.items.append(["subcircuit_block", r.choice([None, 2]), *inner[1:-1]])
            else:
                self.items.extend(inner)


def gen_program(rng, kind):
    """-> (sx, used list, collides) with the reference's verdict ; kind valid / collide"""
    for _ in range(400):
        g = Gen(rng, kind)
        sx = g.items
        try:
            u, col = Ref(sx).judge()
        except Invalid:
            continue
        if (kind == "valid" and col) or (kind == "collide" and not col):
            continue
        return sx
    raise RuntimeError("generator could not make a " + kind + " program")


def break_program(rng, sx):
    """a BROKEN twin (not otherwise valid): history only"""
    sx = json.loads(json.dumps(sx))
    head = [x for x in sx[1:] if x[0] in ("let", "register", "map", "macro")]
    body = [x for x in sx[1:] if x[0] not in ("let", "register", "map", "macro")]
    reg = [x for x in head if x[0] == "register"][0][1]
    q0 = ["array_item", reg, 0]
    t = rng.choice(["early_gate", "dangling_measure", "twice", "twice_deep"])
    if t == "early_gate":
        body = [["gate", "X", q0]] + body
    elif t == "dangling_measure":
        body = body + [["sequential_block", ["sequential_block", ["parallel_block", ["gate", "measure_all"]]]]]
    elif t == "twice":
        body = body[:1] + [["gate", "CX", q0, q0]] + body[1:]
    else:
        body = body[:1] + [["sequential_block", ["gate", "X", q0], ["parallel_block", ["sequential_block", ["gate", "CZ", q0, q0]]]]] + body[1:]
    return ["circuit"] + head + body, t


def sub_statements(sx):
    """paths (lists of ints below circuit.body) of busy-free sub-statements worth analysing alone, with their sexpr"""
    ref = Ref(sx)
    out = []

    def go(s, path, depth):
        ev = []
        try:
            ref.used(s, {}, ev)
        except Invalid:
            return
        if "B" not in ev:
            out.append((path, s))
        if depth > 2:
            return
        c = s[0]
        if c in ("sequential_block", "parallel_block"):
            for j, x in enumerate(s[1:]):
                go(x, path + [j], depth + 1)
        elif c == "loop":
            go(s[2], path + ["L"], depth + 1)
        elif c == "subcircuit_block":
            for j, x in enumerate(s[2:]):
                go(x, path + [j], depth + 1)

    for j, s in enumerate(ref.body):
        go(s, [j], 0)
    return out


def gen_case(rng, thorough):
    r = rng
    table = {"how": r.choice(TABLES), "stretch": r.choice(STRETCH), "order": r.randrange(1000),
             "idle_copy": r.random() < 0.5, "busy_copy": r.random() < 0.5, "fresh_names": r.random() < 0.5}
    forms = {"fresh": r.random() < 0.7, "seq": r.choice(["tuple", "list", "mixed"]), "share": r.random() < 0.5, "num": r.choice(NUMFORMS)}
    nprog = r.choice([2, 3, 3, 4] if thorough else [2, 2, 3])
    kinds = [r.choice(["valid", "collide", "collide", "broken", "broken2"]) for _ in range(nprog - 1)] + ["valid"]
    if r.random() < 0.3:
        r.shuffle(kinds)
    programs = []
    for k in kinds:
        if k in ("broken", "broken2"):
            base = gen_program(r, "valid" if k == "broken" else "collide")
            sx, how = break_program(r, base)
            programs.append({"kind": k, "how": how, "sx": sx})
        else:
            programs.append({"kind": k, "sx": gen_program(r, k)})
    steps = []
    judged = [i for i, p in enumerate(programs) if p["kind"] in ("valid", "collide")]
    order = list(range(nprog))
    ROUTES = ["sx", "sx", "text", "rebuilt"]
    PASSES = ["", "M", "L", "ML", "LM", "SLM", "S", "MS"]
    for i in order:
        p = programs[i]
        route = r.choice(ROUTES)
        if p["kind"] in ("broken", "broken2"):
            for op in r.sample(["run", "discover", "vp", "run"], 2):
                steps.append({"op": op, "p": i, "route": route, "twin": False})
            continue
        ops = ["used", "used", "stmt", "vp", "discover", "run", "run", "poke", "rerun"]
        r.shuffle(ops)
        for op in ops[: r.choice([4, 5, 6])]:
            st = {"op": op, "p": i, "route": r.choice(ROUTES) if r.random() < 0.4 else route, "twin": r.random() < 0.35}
            if op == "used":
                st["passes"] = r.choice(PASSES)
            steps.append(st)
    if r.random() < 0.5:
        # interleave: the calls on the different programs alternate instead of coming program after program
        r.shuffle(steps)
    # a failing emulator run first, when there is a rejected / broken program, and every valid program run after it
    bad = [i for i, p in enumerate(programs) if p["kind"] != "valid"]
    if bad:
        steps.insert(r.randrange(0, max(1, len(steps) // 2)), {"op": "run", "p": r.choice(bad), "route": "sx", "twin": False})
    for i in judged:
        steps.append({"op": "run", "p": i, "route": r.choice(ROUTES), "twin": r.random() < 0.3})
        steps.append({"op": "used", "p": i, "route": r.choice(ROUTES), "twin": False, "passes": r.choice(PASSES)})
    first = next((s for s in steps if s["p"] in judged), None)
    if first:
        steps.append(dict(first))
    return {"table": table, "forms": forms, "programs": programs, "steps": steps,
            "shared_backend": r.random() < 0.75, "views": r.choice(["str_first", "int_first"]), "perm": r.randrange(3)}


# ------------------------------------------------------------------------------------------------
# evaluation of one case

def plain(d):
    out = set()
    for k, v in dict(d).items():
        for i in v:
            out.add((k, int(i)))
    return out


def stmt_at(circ, path):
    obj = circ.body.statements[path[0]]
    for p in path[1:]:
        obj = obj.statements if p == "L" else obj.statements[p]
    return obj


def eval_case(case):
    """-> (records, distribution)   records: (oracle, ok, detail)"""
    L = lib()
    recs = []
    dist = {}

    def bump(k):
        dist[k] = dist.get(k, 0) + 1

    r = guarded(lambda: make_table(case["table"]))
    if r[0] != "ok":
        recs.append(("used_exact_traps", False, f"the gate table could not be derived: {r[1:]}"))
        return recs, dist
    G = r[1]
    bump("table:" + case["table"]["how"])
    bump("stretch:" + case["table"]["stretch"])
    backend = L["UnitarySerializedEmulator"]() if case["shared_backend"] else None
    bump("backend:" + ("shared" if backend is not None else "fresh"))
    progs = case["programs"]
    refs = {}
    for i, p in enumerate(progs):
        if p["kind"] in ("valid", "collide"):
            ref = Ref(p["sx"])
            u, col = ref.judge()
            refs[i] = (ref, u, col)
    circuits = {}

    def circuit(i, route, twin):
        key = (i, route, twin)
        if key in circuits:
            return circuits[key]
        sx = progs[i]["sx"]
        if twin:
            sx = permute(sx, case["perm"])
        if route == "text" and not text_ok(sx):
            route = "sx"
            bump("text_route_not_expressible")
        if route == "text":
            txt = render(sx)
            if case["forms"]["fresh"]:
                txt = "\n".join(txt.split("\n"))
            f = lambda: L["parse_jaqal_string"](txt, inject_pulses=G, autoload_pulses=False)
        elif route == "rebuilt":
            def f():
                c = L["build"](materialise(sx, case["forms"]), inject_pulses=G)
                parts = list(c.constants.values()) + list(c.registers.values()) + list(c.macros.values()) + list(c.body.statements)
                # a let used by the register must come first, which dict order already guarantees per kind
                return L["build"](("circuit", *parts), inject_pulses=G)
        else:
            f = lambda: L["build"](materialise(sx, case["forms"]), inject_pulses=G)
        circuits[key] = guarded(f)
        return circuits[key]

    PASS = {"M": L["expand_macros"], "L": L["fill_in_let"], "S": L["expand_subcircuits"]}
    run_seen = {}
    used_seen = {}
    failed_before = 0
    for si, st in enumerate(case["steps"]):
        i, op = st["p"], st["op"]
        judged = i in refs
        tag = f"step {si} {op} program {i} ({progs[i]['kind']}) route={st['route']} twin={st['twin']} after {failed_before} failed calls"
        bump("op:" + op)
        bump("route:" + st["route"])
        c = circuit(i, st["route"], st["twin"])
        if c[0] != "ok":
            if judged:
                recs.append(("reject_iff_traps", False, f"{tag}: the program could not be built: {c[1:]}"))
            continue
        circ = c[1]
        if op == "poke":
            # calls that are expected to raise: the circuit object is analysed again afterwards
            def poke():
                for m in circ.macros.values():
                    for s in m.body.statements:
                        L["get_used_qubit_indices"](s)
                L["get_used_qubit_indices"](circ.body.statements[0])
            pr = guarded(poke, secs=2)
            if pr[0] != "ok":
                failed_before += 1
                bump("poke:" + pr[1])
            continue
        if op == "used":
            def f():
                x = circ
                for ch in st.get("passes", ""):
                    x = PASS[ch](x)
                return plain(L["get_used_qubit_indices"](x))
            res = guarded(f)
            if not judged:
                continue
            if '"subcircuit_block"' in json.dumps(progs[i]["sx"]) and "S" not in st.get("passes", ""):
                # whether the implied prepare / measure of a subcircuit block count before expand_subcircuits is not fixed
                # by the property text: the call is made (history), not judged
                bump("used_unjudged_subcircuit")
                continue
            ref, u, col = refs[i]
            exp = {(ref_reg_name(progs[i]["sx"]), k) for k in u}
            ok = res[0] == "ok" and res[1] == exp
            recs.append(("used_exact_traps", ok, "" if ok else f"{tag} passes={st.get('passes', '')!r}: got {fmt(res)}, reference {sorted(exp)}"))
            key = (i, st.get("passes", ""))
            if res[0] == "ok":
                if key in used_seen and used_seen[key][0] != st["twin"]:
                    ok2 = used_seen[key][1] == res[1]
                    recs.append(("order_traps", ok2, "" if ok2 else f"{tag}: used set differs from the twin's: {sorted(res[1])} vs {sorted(used_seen[key][1])}"))
                used_seen.setdefault(key, (st["twin"], res[1]))
            continue
        if op == "stmt":
            if not judged:
                continue
            sx = permute(progs[i]["sx"], case["perm"]) if st["twin"] else progs[i]["sx"]
            ref = Ref(sx)
            rn = ref_reg_name(sx)
            for path, s in sub_statements(sx)[:12]:
                res = guarded(lambda: plain(L["get_used_qubit_indices"](stmt_at(circ, path))))
                exp = {(rn, k) for k in ref.used(s, {}, [])}
                ok = res[0] == "ok" and res[1] == exp
                bump("stmt:" + s[0])
                recs.append(("used_exact_traps", ok, "" if ok else f"{tag} sub-statement {path} {json.dumps(s)}: got {fmt(res)}, reference {sorted(exp)}"))
            continue
        if op in ("vp", "discover"):
            if op == "vp":
                f = lambda: L["VP"]().visit(circ) and None
            else:
                f = lambda: L["DiscoverSubcircuits"]().visit(L["expand_macros"](L["fill_in_let"](L["expand_subcircuits"](circ)))) and None
            res = guarded(f)
            if res[0] != "ok":
                failed_before += 1
            if judged:
                col = refs[i][2]
                ok = (res[0] == "ok" and not col) or (res[0] == "err" and res[1] == "JaqalError" and col)
                bump("verdict:" + ("reject" if col else "accept"))
                recs.append(("reject_iff_traps", ok, "" if ok else f"{tag}: {fmt(res)}, reference says {'branches overlap' if col else 'no overlap'}"))
            continue
        if op in ("run", "rerun"):
            def f():
                x = circ
                if op == "rerun":
                    # the output of the passes goes into the emulator (which applies them again)
                    x = L["expand_macros"](L["fill_in_let"](L["expand_subcircuits"](circ)))
                L["np"].random.seed(1)
                res = L["run_jaqal_circuit"](x, backend=backend)
                out = []
                for sc in res.subcircuits:
                    if case["views"] == "str_first":
                        ps = dict(sc.probability_by_str)
                        pi = list(sc.probability_by_int)
                    else:
                        pi = list(sc.probability_by_int)
                        ps = dict(sc.probability_by_str)
                    out.append(([complex(z) for z in sc.state_vector], [float(x) for x in pi], {k: float(v) for k, v in ps.items()}))
                return out
            res = guarded(f)
            if res[0] != "ok":
                failed_before += 1
            if not judged:
                bump("broken_run:" + (res[1] if res[0] == "err" else "accepted"))
                continue
            col = refs[i][2]
            ok = (res[0] == "ok" and not col) or (res[0] == "err" and res[1] == "JaqalError" and col)
            bump("verdict:" + ("reject" if col else "accept"))
            recs.append(("reject_iff_traps", ok, "" if ok else f"{tag}: {fmt(res)}, reference says {'branches overlap' if col else 'no overlap'}"))
            if res[0] == "ok":
                n = refs[i][0].size
                shape_ok = all(len(sv) == 2 ** n and abs(sum(p) - 1) < 1e-9 and len(ps) == 2 ** n for sv, p, ps in res[1])
                if not shape_ok:
                    recs.append(("order_traps", False, f"{tag}: result views have the wrong shape"))
                if i in run_seen:
                    prev = run_seen[i]
                    same = len(prev[1]) == len(res[1]) and all(
                        close(a[0], b[0]) and close(a[1], b[1]) and a[2].keys() == b[2].keys() and close([a[2][k] for k in sorted(a[2])], [b[2][k] for k in sorted(b[2])])
                        for a, b in zip(prev[1], res[1]))
                    bump("order_pairs" + (":twin" if prev[0] != st["twin"] else ":same"))
                    recs.append(("order_traps", same, "" if same else f"{tag}: state vectors / probabilities differ from an earlier run of the same program (twin={prev[0]}, {prev[2]})"))
                else:
                    run_seen[i] = (st["twin"], res[1], tag)
            continue
    del circuits
    gc.collect()
    return recs, dist


def close(a, b):
    return len(a) == len(b) and all(abs(x - y) < 1e-12 for x, y in zip(a, b))


def fmt(res):
    if res[0] == "ok":
        v = res[1]
        return "accepted" if v is None or isinstance(v, list) else str(sorted(v))
    return f"{res[1]}: {res[2]}"


def ref_reg_name(sx):
    return [x for x in sx[1:] if x[0] == "register"][0][1]


# ------------------------------------------------------------------------------------------------
# protocol

def run(seed, n, driver=DEFAULT_DRIVER, thorough=False):
    rng = random.Random(f"c13_traps:{seed}:{int(bool(thorough))}")
    oracle = {o: {"cases": 0, "failures": []} for o in ORACLES}
    dist, samples, distinct = {}, [], set()
    for k in range(n):
        case = gen_case(rng, thorough)
        recs, d = eval_case(case)
        for a, b in d.items():
            dist[a] = dist.get(a, 0) + b
        for p in case["programs"]:
            dist["prog:" + p["kind"]] = dist.get("prog:" + p["kind"], 0) + 1
        dist["num:" + case["forms"]["num"]] = dist.get("num:" + case["forms"]["num"], 0) + 1
        dist["history_len:%d" % len(case["steps"])] = dist.get("history_len:%d" % len(case["steps"]), 0) + 1
        failed = set()
        for o, ok, detail in recs:
            oracle[o]["cases"] += 1
            if not ok and o not in failed:
                failed.add(o)
                if len(oracle[o]["failures"]) < 20:
                    oracle[o]["failures"].append({"case": case, "detail": detail})
            elif not ok:
                pass
        # count every failing record, report one per case and oracle
        for o in ORACLES:
            bad = sum(1 for oo, ok, _ in recs if oo == o and not ok)
            if bad:
                oracle[o].setdefault("failed_records", 0)
                oracle[o]["failed_records"] += bad
        distinct.add(json.dumps(case["programs"], sort_keys=True))
        if k < 3:
            samples.append(case)
    return {"corr": {}, "oracle": oracle, "distribution": dist, "samples": samples, "nontrivial": len(distinct)}


def replay(case, driver=DEFAULT_DRIVER):
    recs, _ = eval_case(case)
    bad = [(o, d) for o, ok, d in recs if not ok]
    if bad:
        return {"oracle_ok": False, "detail": "; ".join(f"[{o}] {d}" for o, d in bad[:5]), "model": None, "impl": None}
    return {"oracle_ok": True, "detail": f"{len(recs)} judged calls agree with the reference", "model": None, "impl": None}


def main():
    ap = argparse.ArgumentParser()
    ap.add_argument("--seed", type=int, default=0)
    ap.add_argument("--n", type=int, default=60)
    ap.add_argument("--thorough", action="store_true")
    a = ap.parse_args()
    r = run(a.seed, a.n, thorough=a.thorough)
    print(json.dumps({k: (v["cases"], len(v["failures"])) for k, v in r["oracle"].items()}))
    for o, v in r["oracle"].items():
        for f in v["failures"][:3]:
            print(o, f["detail"][:600])
    print(json.dumps(r["distribution"], sort_keys=True))
    return 1 if any(v["failures"] for v in r["oracle"].values()) else 0


if __name__ == "__main__":
    sys.exit(main())
