#!/venv/bin/python
"""C07 stated at every entry point and after every rebuilding / substituting stage (oracles on the real code alone).

    PYTHONPATH=/verif /venv/bin/python /verif/harness/agents/c07_entry.py [--seed 0] [--n 100] [--thorough]

Why.  `build_diff.py` checks C07 (identifiers resolve lexically; the meaning of a statement ignores unrelated
statements) on what `build` / `parse_jaqal_string` return.  Scoping can be lost again LATER: `fill_in_let` and
`fill_in_map` hand already-built objects back to the builder (and to its gate memo table), `expand_macros` substitutes
arguments for parameters by name, the parse flags `expand_let`, `expand_let_map`, `expand_macro` and the emulator
pipeline (`run_jaqal_circuit`) chain those passes.  This script pushes programs that are rich in NAME COLLISIONS
through every such stage and combination of stages.

Programs.  A structured generator (the program is kept as a JSON tree, so its meaning can be computed independently)
with a pool of eight names shared by header objects and macro parameters: parameters named like the register / an
alias / a let (of any sort: a register-like parameter named like a let, an index parameter named like the register, ...),
arguments named like the callee's parameter, nested macros forwarding parameters under the same names, lets used as
indices / loop counts / classical arguments that collide with parameters, and a per-program pool of statement TEXTS that
is re-used in every scope where the text is valid (`g r[0]`, `g r[i]`, `g a`, `foo r` in macros with different bindings
and in the main body, in both orders).  All programs are valid under lexical scoping.

Reference.  `lex_*` below evaluates the JSON tree lexically (inside a macro an identifier is the parameter of that name
if there is one, else the header binding; in the main body the header binding): the expected list of gate applications
of the main body with every argument resolved to a number / fundamental (register, index) / tuple of those, and for
every macro the same list "opened" on symbolic parameters (`g r[0]` in `macro foo r` is `g item(param r, 0)`).

Oracles (all on the real code alone)
* `C07_stage_semantics`   for every stage (parse flags x sequences of fill_in_let [with / without overrides],
  expand_macros [with / without preserve_definitions], fill_in_map, expand_subcircuits; every prefix of every sequence)
  that returns a circuit: walking the REAL objects (`obj_*`: Parameter -> the binding of the enclosing macro call, by
  name; Constant -> its value; Register / NamedQubit -> followed to the fundamental register) gives exactly the
  lexical reference, for the main body and for every macro still defined.  A Parameter that is not a parameter of the
  macro it occurs in (or occurs in the main body) is a failure.
* `C07_stage_accepts`     a stage that rejects (or crashes on) a program accepts no alpha-renamed copy of it (all macro
  parameters renamed to fresh names, which by C07 changes nothing).  The one documented rejection that depends on a
  collision - fill_in_map: "a macro parameter is named like register r" - is tabulated, not judged.
* `C07_unrelated_statement`  the program plus one more copy of one of its own statement texts (in the main body, inside
  another macro, or in a new macro whose parameters capture the names in that text): the built form (object graph,
  described structurally) of every other macro and main-body statement is the same with and without the copy, at every
  structure-preserving stage; after expand_macros the main body's gate applications are the same once the copy's own
  contribution is removed.
* `C07_emulator_lexical`  native-gate programs through `run_jaqal_circuit` (plain, `expand_let` + overrides at parse,
  `fill_in_let` + overrides): the state vectors equal those of the reference program (no macros, lets or aliases; every
  argument written as `R[k]` / a literal); when the pipeline rejects the program although it runs the reference, it
  must reject the alpha-renamed program too.  (Programs whose reference the emulator rejects - one qubit given twice to
  a gate - are regenerated / not judged.)

Sizes: quick n=100 (about 10 s: 100 generated programs + their with-copy variants + 6 fixed ones, 12 of the 40 stage
paths each, i.e. ~3500 judged stages), thorough n>=500 with every path (~2 min, ~60000 judged stages).

Importable: `run(seed, n, driver, thorough) -> dict`, `replay(case, driver) -> dict`; `corr` is empty (no Lean model here).
"""
import argparse
import json
import os
import random
import signal
import sys
import warnings

sys.path.insert(0, __import__("os").path.dirname(__import__("os").path.dirname(__import__("os").path.dirname(__import__("os").path.abspath(__file__)))))

from harness import timeouts as T  # noqa: E402

DEFAULT_DRIVER = "/verif/lean/.lake/build/bin/jaqal-model"

NAMES = ["r", "q", "a", "b", "i", "n", "x", "s"]
ANON_SIG = {"g": "q", "h": "qq", "u": "qf", "v": "fq", "t": "qqf", "w": "r", "k": "i"}
ANON_WEIGHT = {"g": 8, "h": 3, "u": 3, "v": 1, "t": 1, "w": 1, "k": 1}
NATIVE_SIG = {"X": "q", "Y": "q", "Z": "q", "S": "q", "SX": "q", "P": "qi", "PF": "iq", "CX": "qq", "CZ": "qq",
              "SWAP": "qq", "HH": "qq", "NS": "qq"}
NATIVE_WEIGHT = {"X": 6, "Y": 2, "Z": 1, "S": 2, "SX": 3, "P": 4, "PF": 2, "CX": 3, "CZ": 1, "SWAP": 1, "HH": 1, "NS": 2}
PARAM_SORTS = ["reg", "reg", "reg", "qubit", "qubit", "idx", "idx", "idx", "cnt", "num"]
SORT_USAGE = {"reg": "r", "qubit": "q", "idx": "x", "cnt": "c", "num": "i"}


# ---------------------------------------------------------------------------------------------------------------
# the library, imported lazily (JAQALPAQ_RUN_EMULATOR must be set before jaqalpaq.run is imported)

_L = {}


def lib():
    if _L:
        return _L
    os.environ["JAQALPAQ_RUN_EMULATOR"] = "1"
    from jaqalpaq.error import JaqalError
    from jaqalpaq.parser import parse_jaqal_string
    from jaqalpaq.core.algorithm import fill_in_let, expand_macros
    from jaqalpaq.core.algorithm.fill_in_map import fill_in_map
    from jaqalpaq.core.algorithm.expand_subcircuits import expand_subcircuits
    from jaqalpaq.core.constant import Constant
    from jaqalpaq.core.parameter import Parameter
    from jaqalpaq.core.register import Register, NamedQubit
    from jaqalpaq.core.gate import GateStatement
    from jaqalpaq.core.block import BlockStatement, LoopStatement
    from jaqalpaq.core.macro import Macro
    from harness.gates import GATES

    _L.update(JaqalError=JaqalError, parse=parse_jaqal_string, fill_in_let=fill_in_let, expand_macros=expand_macros,
              fill_in_map=fill_in_map, expand_subcircuits=expand_subcircuits, Constant=Constant, Parameter=Parameter,
              Register=Register, NamedQubit=NamedQubit, GateStatement=GateStatement, BlockStatement=BlockStatement,
              LoopStatement=LoopStatement, Macro=Macro, GATES=GATES)
    return _L


class Hang(BaseException):
    pass


def _on_alarm(_s, _f):
    raise Hang()


def guarded(f):
    """-> ("ok", value) | ("rej", message)   JaqalError: a legitimate rejection
                        | ("exc", class, message) | ("hang", "", "")"""
    L = lib()
    try:
        old = signal.signal(signal.SIGALRM, _on_alarm)
    except ValueError:  # not the main thread
        old = None
    if old is not None:
        signal.alarm(int(T.limit()))
    try:
        with warnings.catch_warnings():
            warnings.simplefilter("ignore")
            return ("ok", f())
    except Hang:
        T.saw_hang()
        return ("hang", "", "")
    except L["JaqalError"] as e:
        return ("rej", str(e))
    except RecursionError:
        return ("exc", "RecursionError", "")
    except Exception as e:  # noqa: BLE001
        return ("exc", type(e).__name__, str(e)[:200])
    finally:
        if old is not None:
            signal.alarm(0)
            signal.signal(signal.SIGALRM, old)


# ---------------------------------------------------------------------------------------------------------------
# programs as JSON trees
#
# prog = {"gateset": "anon" | "native",
#         "lets":   [[name, value, role]]             role: idx (0/1) | cnt (0..3) | num (int) | flt | size
#         "reg":    [name, size]                      size: int | name of the size let
#         "maps":   [[name, "whole", src] | [name, "slice", src, start, stop, step] | [name, "qubit", src, index]]
#                                                      bounds / index: int | let name | None
#         "macros": [[name, [param], [sort], "seq" | "par", [stmt]]]
#         "main":   [stmt]}
# stmt = ["gate", name, [arg]] | ["call", name, [arg]] | ["loop", count, "seq" | "par", [stmt]] | ["seq", [stmt]]
#      | ["par", [stmt]] | ["sub", count | None, [stmt]]
# arg / count = ["num", text] | ["id", name] | ["item", array name, ["num", text] | ["id", name]]


def num_of(text):
    try:
        return int(text)
    except ValueError:
        return float(text)


def r_arg(a, ren=None):
    ren = ren or {}
    if a[0] == "num":
        return a[1]
    if a[0] == "id":
        return ren.get(a[1], a[1])
    return f"{ren.get(a[1], a[1])}[{r_arg(a[2], ren)}]"


def r_block(kind, stmts, ren):
    if kind == "par":
        return "< " + " | ".join(r_stmt(s, ren) for s in stmts) + " >"
    return "{ " + "; ".join(r_stmt(s, ren) for s in stmts) + " }"


def r_stmt(s, ren=None):
    if s[0] in ("gate", "call"):
        return " ".join([s[1]] + [r_arg(a, ren) for a in s[2]])
    if s[0] == "loop":
        return f"loop {r_arg(s[1], ren)} " + r_block(s[2], s[3], ren)
    if s[0] in ("seq", "par"):
        return r_block(s[0], s[1], ren)
    if s[0] == "sub":
        return "subcircuit " + (r_arg(s[1], ren) + " " if s[1] is not None else "") + r_block("seq", s[2], ren)
    raise ValueError(s)


def render(prog, alpha=False):
    """Jaqal text; alpha=True renames every macro parameter to a fresh name (pz<macro>_<k>)"""
    lines = []
    for name, value, _role in prog["lets"]:
        lines.append(f"let {name} {value!r}")
    lines.append(f"register {prog['reg'][0]}[{prog['reg'][1]}]")
    for m in prog["maps"]:
        if m[1] == "whole":
            lines.append(f"map {m[0]} {m[2]}")
        elif m[1] == "qubit":
            lines.append(f"map {m[0]} {m[2]}[{m[3]}]")
        else:
            start, stop, step = ("" if v is None else str(v) for v in m[3:6])
            lines.append(f"map {m[0]} {m[2]}[{start}:{stop}" + (f":{step}" if step else "") + "]")
    for k, (name, params, _sorts, kind, body) in enumerate(prog["macros"]):
        ren = {p: f"pz{k}_{j}" for j, p in enumerate(params)} if alpha else {}
        lines.append("macro " + " ".join([name] + [ren.get(p, p) for p in params]) + " " + r_block(kind, body, ren))
    for s in prog["main"]:
        lines.append(r_stmt(s))
    return "\n".join(lines) + "\n"


# ---------------------------------------------------------------------------------------------------------------
# lexical reference evaluation of the JSON tree
#
# values: number | ("q", R, k) | ("r", R, (k, ...)) | ("P", name) | ("item", value, value)
# trees:  ("gate", name, (value, ...)) | ("loop", value, kind, [tree]) | ("blk", kind, [tree]) | ("sub", value, [tree])


class LexError(Exception):
    pass


def norm_num(v):
    if isinstance(v, bool):
        return int(v)
    if isinstance(v, float) and v == int(v):
        return int(v)
    return v


def is_num(v):
    return isinstance(v, (int, float))


def index_value(base, idx):
    """value of base[idx]"""
    if isinstance(base, tuple) and base[0] == "r" and is_num(idx):
        k = norm_num(idx)
        if not isinstance(k, int) or not 0 <= k < len(base[2]):
            raise LexError(f"index {idx} outside a register of {len(base[2])} qubits")
        return ("q", base[1], base[2][k])
    if isinstance(base, tuple) and base[0] in ("r", "P") and (is_num(idx) or (isinstance(idx, tuple) and idx[0] == "P")):
        return ("item", base, norm_num(idx) if is_num(idx) else idx)
    raise LexError(f"cannot index {base!r} with {idx!r}")


def lex_header(prog, ov=None):
    ov = ov or {}
    env = {}
    for name, value, _role in prog["lets"]:
        env[name] = norm_num(ov.get(name, value))

    def bound(v, default):
        if v is None:
            return default
        return env[v] if isinstance(v, str) else v

    rname, size = prog["reg"]
    env[rname] = ("r", rname, tuple(range(bound(size, None))))
    for m in prog["maps"]:
        src = env[m[2]]
        if m[1] == "whole":
            env[m[0]] = src
        elif m[1] == "qubit":
            env[m[0]] = index_value(src, bound(m[3], None))
        else:
            rng = range(bound(m[3], 0), bound(m[4], len(src[2])), bound(m[5], 1))
            env[m[0]] = ("r", src[1], tuple(src[2][k] for k in rng))
    return env


def lex_arg(a, env):
    if a[0] == "num":
        return norm_num(num_of(a[1]))
    if a[0] == "id":
        if a[1] not in env:
            raise LexError(f"undefined identifier {a[1]}")
        return env[a[1]]
    return index_value(lex_arg(["id", a[1]], env), lex_arg(a[2], env))


def lex_stmts(stmts, env, prog, henv, depth=0):
    if depth > 40:
        raise LexError("macro nesting too deep")
    out = []
    for s in stmts:
        if s[0] == "gate":
            out.append(("gate", s[1], tuple(lex_arg(a, env) for a in s[2])))
        elif s[0] == "call":
            m = next(m for m in prog["macros"] if m[0] == s[1])
            env2 = dict(henv)
            env2.update({p: lex_arg(a, env) for p, a in zip(m[1], s[2])})
            out.append(("blk", m[3], lex_stmts(m[4], env2, prog, henv, depth + 1)))
        elif s[0] == "loop":
            out.append(("loop", lex_arg(s[1], env), s[2], lex_stmts(s[3], env, prog, henv, depth)))
        elif s[0] in ("seq", "par"):
            out.append(("blk", s[0], lex_stmts(s[1], env, prog, henv, depth)))
        elif s[0] == "sub":
            out.append(("sub", 1 if s[1] is None else lex_arg(s[1], env), lex_stmts(s[2], env, prog, henv, depth)))
    return out


def lex_program(prog, ov=None):
    """-> {"main": [tree], "macros": {name: [tree] opened on symbolic parameters}}"""
    henv = lex_header(prog, ov)
    macros = {}
    for name, params, _sorts, _kind, body in prog["macros"]:
        env = dict(henv)
        env.update({p: ("P", p) for p in params})
        macros[name] = lex_stmts(body, env, prog, henv)
    return {"main": lex_stmts(prog["main"], henv, prog, henv), "macros": macros, "henv": henv}


def flatten(trees, subs_expanded=False):
    """the gate applications in program order; loops and subcircuits leave markers (their counts are identifiers too);
    sequential / parallel grouping is not part of the comparison (expand_macros splices blocks)"""
    out = []
    for t in trees:
        if t[0] == "gate":
            out.append(("gate", t[1], t[2]))
        elif t[0] == "loop":
            out.append(("loop", t[1]))
            out.extend(flatten(t[3], subs_expanded))
            out.append(("endloop",))
        elif t[0] == "blk":
            out.extend(flatten(t[2], subs_expanded))
        elif t[0] == "sub":
            if subs_expanded:
                out.append(("gate", "prepare_all", ()))
                out.extend(flatten(t[2], subs_expanded))
                out.append(("gate", "measure_all", ()))
            else:
                out.append(("sub", t[1]))
                out.extend(flatten(t[2], subs_expanded))
                out.append(("endsub",))
    return out


def show(v):
    """compact text of a value / flat entry"""
    if isinstance(v, tuple):
        if v and v[0] == "q":
            return f"{v[1]}[{v[2]}]"
        if v and v[0] == "r":
            return f"{v[1]}[{','.join(map(str, v[2]))}]"
        if v and v[0] == "P":
            return f"<param {v[1]}>"
        if v and v[0] == "item":
            return f"{show(v[1])}[{show(v[2])}]"
        if v and v[0] == "gate":
            return " ".join([v[1]] + [show(a) for a in v[2]])
        return "(" + " ".join(show(x) for x in v) + ")"
    return str(v)


def first_difference(got, want):
    for k in range(max(len(got), len(want))):
        g = got[k] if k < len(got) else None
        w = want[k] if k < len(want) else None
        if g != w:
            return f"gate application #{k}: built `{show(g) if g is not None else '(nothing)'}`, lexically `{show(w) if w is not None else '(nothing)'}`"
    return ""


# ---------------------------------------------------------------------------------------------------------------
# evaluation of the REAL objects


class ObjError(Exception):
    pass


def obj_value(o, env, where):
    L = lib()
    if isinstance(o, (bool, int, float)):
        return norm_num(o)
    if isinstance(o, L["Constant"]):
        v = o.value
        while isinstance(v, L["Constant"]):
            v = v.value
        if not isinstance(v, (int, float)):
            raise ObjError(f"{where}: constant {o.name} has value {v!r}")
        return norm_num(v)
    if isinstance(o, L["Parameter"]):
        if env is None or o.name not in env:
            raise ObjError(f"{where}: holds Parameter {o.name!r}, which is not a parameter in scope there")
        return env[o.name]
    if isinstance(o, L["NamedQubit"]):
        base = obj_value(o.alias_from, env, where)
        idx = obj_value(o.alias_index, env, where)
        try:
            return index_value(base, idx)
        except LexError as e:
            raise ObjError(f"{where}: qubit {o.name}: {e}") from None
    if isinstance(o, L["Register"]):
        if o.alias_from is None:
            size = obj_value(o._size, env, where)
            if not isinstance(size, int):
                raise ObjError(f"{where}: register {o.name} has size {size!r}")
            return ("r", o.name, tuple(range(size)))
        src = obj_value(o.alias_from, env, where)
        if not (isinstance(src, tuple) and src[0] == "r"):
            raise ObjError(f"{where}: alias {o.name} of {show(src)}")
        sl = o.alias_slice
        if sl is None:
            return src

        def bound(v, default):
            if v is None:
                return default
            v = obj_value(v, env, where)
            if not isinstance(v, int):
                raise ObjError(f"{where}: alias {o.name} has slice bound {v!r}")
            return v

        step = bound(sl.step, 1)
        if step == 0:
            raise ObjError(f"{where}: alias {o.name} has step 0")
        try:
            return ("r", src[1], tuple(src[2][k] for k in range(bound(sl.start, 0), bound(sl.stop, len(src[2])), step)))
        except IndexError:
            raise ObjError(f"{where}: alias {o.name} reaches outside its source") from None
    raise ObjError(f"{where}: unexpected {type(o).__name__} as a value")


def obj_stmts(stmts, env, circuit, where, depth=0):
    L = lib()
    if depth > 40:
        raise ObjError(f"{where}: macro nesting too deep")
    out = []
    for s in stmts:
        if isinstance(s, L["GateStatement"]):
            macro = circuit.macros.get(s.name)
            if macro is None and isinstance(s.gate_def, L["Macro"]):
                macro = s.gate_def
            args = [obj_value(v, env, f"{where}, statement `{s.name}`") for v in s.parameters.values()]
            if macro is not None:
                if len(args) != len(macro.parameters):
                    raise ObjError(f"{where}: call of {s.name} with {len(args)} arguments")
                env2 = {p.name: a for p, a in zip(macro.parameters, args)}
                out.append(("blk", "par" if macro.body.parallel else "seq",
                            obj_stmts(macro.body.statements, env2, circuit, f"macro {macro.name} (called from {where})", depth + 1)))
            else:
                out.append(("gate", s.name, tuple(args)))
        elif isinstance(s, L["LoopStatement"]):
            out.append(("loop", obj_value(s.iterations, env, where), "par" if s.statements.parallel else "seq",
                        obj_stmts(s.statements.statements, env, circuit, where, depth)))
        elif isinstance(s, L["BlockStatement"]):
            if s.subcircuit:
                out.append(("sub", obj_value(s.iterations, env, where), obj_stmts(s.statements, env, circuit, where, depth)))
            else:
                out.append(("blk", "par" if s.parallel else "seq", obj_stmts(s.statements, env, circuit, where, depth)))
        else:
            raise ObjError(f"{where}: unexpected statement {type(s).__name__}")
    return out


def obj_program(circuit):
    """-> {"main": [tree] | ObjError text, "macros": {name: [tree] | ObjError text}}"""
    res = {"macros": {}}
    try:
        res["main"] = obj_stmts(circuit.body.statements, None, circuit, "main body")
    except ObjError as e:
        res["main"] = str(e)
    for name, m in circuit.macros.items():
        env = {p.name: ("P", p.name) for p in m.parameters}
        try:
            res["macros"][name] = obj_stmts(m.body.statements, env, circuit, f"macro {name}")
        except ObjError as e:
            res["macros"][name] = str(e)
    return res


def describe(o):
    """the built form of an object graph, structurally (for comparing two builds)"""
    L = lib()
    if isinstance(o, (bool, int, float)):
        return norm_num(o)
    if o is None or isinstance(o, str):
        return o
    if isinstance(o, L["Constant"]):
        return ["let", o.name, describe(o.value)]
    if isinstance(o, L["Parameter"]):
        return ["param", o.name]
    if isinstance(o, L["NamedQubit"]):
        return ["qubit", o.name, describe(o.alias_from), describe(o.alias_index)]
    if isinstance(o, L["Register"]):
        if o.alias_from is None:
            return ["register", o.name, describe(o._size)]
        sl = o.alias_slice
        return ["alias", o.name, describe(o.alias_from), None if sl is None else [describe(sl.start), describe(sl.stop), describe(sl.step)]]
    if isinstance(o, L["GateStatement"]):
        return ["gate", o.name, "macro" if isinstance(o.gate_def, L["Macro"]) else "gate",
                [[k, describe(v)] for k, v in o.parameters.items()]]
    if isinstance(o, L["LoopStatement"]):
        return ["loop", describe(o.iterations), describe(o.statements)]
    if isinstance(o, L["BlockStatement"]):
        return ["block", bool(o.parallel), bool(o.subcircuit), describe(o.iterations), [describe(s) for s in o.statements]]
    if isinstance(o, L["Macro"]):
        return ["macro", o.name, [p.name for p in o.parameters], describe(o.body)]
    return ["?", type(o).__name__]


# ---------------------------------------------------------------------------------------------------------------
# stages
#
# a stage = (flags, passes): parse_jaqal_string(text, **flags) then the passes in order
# flags: subset of {"expand_let", "expand_let_map", "expand_macro", "ov"}   ("ov": pass override_dict)
# passes: "L" fill_in_let, "Lo" fill_in_let with overrides, "M" expand_macros, "Mp" expand_macros(preserve_definitions),
#         "A" fill_in_map, "S" expand_subcircuits
# Overrides are only ever applied by the FIRST let-filling of a stage and before any fill_in_map (afterwards the
# constants are gone, and what a later override means is not C07's business).

STAGE_TABLE = [
    ((), [["L", "M", "A"], ["Lo", "M", "A"], ["M", "L", "A"], ["Mp", "Lo", "M"], ["L", "A", "M"], ["S", "L", "M"],
          ["S", "Lo", "M"], ["M", "S", "L"], ["L", "L", "M"], ["M", "M", "L"], ["A", "M"],
          ["Lo", "S", "Mp", "A"], ["L", "Mp", "L"], ["S", "M"], ["Lo", "Mp", "M"], ["M", "A", "L"],
          ["S", "M", "A"]]),
    (("expand_let",), [["M", "A"], ["S", "M"], ["L", "Mp"]]),
    (("expand_let", "ov"), [["M"], ["Mp", "A"], ["L", "M"]]),
    (("expand_let_map",), [["M"], ["L", "Mp"]]),
    (("expand_let_map", "ov"), [["Mp"], ["A", "M"]]),
    (("expand_macro",), [["L"], ["Lo", "A"], ["S", "L"], ["M"]]),
    (("expand_macro", "expand_let"), [["A"], ["M"]]),
    (("expand_macro", "expand_let", "ov"), [["A"], ["S"]]),
    (("expand_macro", "expand_let_map"), [["M"]]),
    (("expand_macro", "expand_let_map", "ov"), [[]]),
]


def all_stage_paths():
    return [(flags, seq) for flags, seqs in STAGE_TABLE for seq in seqs]


def stage_name(flags, passes):
    return "parse(" + ",".join(flags) + ")" + "".join("." + p for p in passes)


def stage_uses_ov(flags, passes):
    return ("ov" in flags) or ("Lo" in passes)


def stage_fills_map(flags, passes):
    return ("expand_let_map" in flags) or ("A" in passes)


def stage_keeps_structure(flags, passes):
    return "expand_macro" not in flags and not any(p in ("M", "Mp", "S") for p in passes)


def do_parse(text, gateset, flags, ov):
    L = lib()
    kw = {k: True for k in flags if k != "ov"}
    if "ov" in flags:
        kw["override_dict"] = dict(ov)
    return L["parse"](text, inject_pulses=(L["GATES"] if gateset == "native" else None), autoload_pulses=False, **kw)


def do_pass(c, p, ov):
    L = lib()
    if p == "L":
        return L["fill_in_let"](c)
    if p == "Lo":
        return L["fill_in_let"](c, override_dict=dict(ov))
    if p == "M":
        return L["expand_macros"](c)
    if p == "Mp":
        return L["expand_macros"](c, preserve_definitions=True)
    if p == "A":
        return L["fill_in_map"](c)
    if p == "S":
        return L["expand_subcircuits"](c)
    raise ValueError(p)


class StageRunner:
    """runs the stages of one program text, sharing prefixes"""

    def __init__(self, text, gateset, ov):
        self.text, self.gateset, self.ov = text, gateset, ov
        self.cache = {}

    def outcome(self, flags, passes):
        key = (tuple(flags), tuple(passes))
        if key in self.cache:
            return self.cache[key]
        if not passes:
            out = guarded(lambda: do_parse(self.text, self.gateset, flags, self.ov))
        else:
            prev = self.outcome(flags, passes[:-1])
            if prev[0] != "ok":
                out = ("prefix",) + tuple(prev)
            else:
                out = guarded(lambda: do_pass(prev[1], passes[-1], self.ov))
        self.cache[key] = out
        return out


def fresh_outcome(text, gateset, ov, flags, passes):
    return StageRunner(text, gateset, ov).outcome(list(flags), list(passes))


# ---------------------------------------------------------------------------------------------------------------
# generator


class Gen:
    def __init__(self, rng, gateset, emu):
        self.rng, self.gateset, self.emu = rng, gateset, emu
        self.sig = NATIVE_SIG if gateset == "native" else ANON_SIG
        self.weight = dict(NATIVE_WEIGHT if gateset == "native" else ANON_WEIGHT)
        if emu:  # the emulator rejects a gate given one qubit twice, and parallel branches that share a qubit
            for g, sg in self.sig.items():
                if sg.count("q") > 1:
                    self.weight[g] = 0.5

    def pick(self, xs):
        xs = list(xs)
        return xs[self.rng.randrange(len(xs))]

    def wpick(self, pairs):
        pairs = list(pairs)
        tot = sum(w for _x, w in pairs)
        r = self.rng.random() * tot
        for x, w in pairs:
            r -= w
            if r < 0:
                return x
        return pairs[-1][0]

    def chance(self, p):
        return self.rng.random() < p

    # ---- header
    def header(self):
        rng = self.rng
        names = list(NAMES)
        rng.shuffle(names)
        if self.chance(0.6) and "r" in names:
            names.remove("r")
            names.insert(0, "r")
        rname = names.pop(0)
        size = rng.randrange(3, 6)
        lets, maps, scope = [], [], {}
        self.varsize = set()
        reg = [rname, size]
        if self.chance(0.25):
            nm = names.pop(0)
            lets.append([nm, size, "size"])
            scope[nm] = "cnt"
            reg = [rname, nm]
        scope[rname] = ("reg", size)
        roles = ["idx", "idx", "idx", "cnt", "num"] + (["flt"] if self.gateset == "anon" else [])
        for _ in range(self.pick([1, 1, 2, 2, 3])):
            role = self.pick(roles)
            value = {"idx": lambda: rng.randrange(2), "cnt": lambda: rng.randrange(4), "num": lambda: rng.randrange(-3, 10),
                     "flt": lambda: self.pick([0.5, 2.5, -1.5])}[role]()
            nm = names.pop(0)
            lets.append([nm, value, role])
            scope[nm] = role
        idx_lets = [l[0] for l in lets if l[2] == "idx"]
        size_lets = [l[0] for l in lets if l[2] == "size"]
        for _ in range(self.pick([0, 1, 1, 2, 2, 3])):
            if not names:
                break
            srcs = [(k, v[1]) for k, v in scope.items() if isinstance(v, tuple)]
            src, ssize = self.pick(srcs)
            kind = self.pick(["whole", "slice", "slice", "qubit", "qubit"])
            nm = names.pop(0)
            # An alias whose start is a let changes size under an override, while the library freezes the implicit stop
            # of `map c b[:]` when it builds (an override / fill_in_let matter, not a scoping one): such aliases are
            # only sliced with a literal stop inside their smallest size.
            varsize = src in self.varsize
            if kind == "whole":
                maps.append([nm, "whole", src])
                scope[nm] = ("reg", ssize)
                if varsize:
                    self.varsize.add(nm)
            elif kind == "qubit":
                index = self.pick(idx_lets) if idx_lets and self.chance(0.4) else rng.randrange(ssize)
                maps.append([nm, "qubit", src, index])
                scope[nm] = "qubit"
            else:
                for _try in range(20):
                    start = self.pick([None, 0, 1, 1] + idx_lets)
                    stop = self.pick(([] if varsize else [None, None]) + [ssize, ssize - 1] + (size_lets if src == rname else []))
                    step = self.pick([None, None, None, 1, 2])
                    if self.chance(0.15):  # downwards
                        start, stop, step = ssize - 1, self.pick([0, 1]), -1
                    lo_hi = [0, 1] if isinstance(start, str) else [0 if start is None else start]
                    stop_v = ssize if (stop is None or isinstance(stop, str)) else stop
                    sizes = [len(range(s, stop_v, 1 if step is None else step)) for s in lo_hi]
                    if min(sizes) >= 2:
                        maps.append([nm, "slice", src, start, stop, step])
                        scope[nm] = ("reg", min(sizes))
                        if isinstance(start, str) or varsize:
                            self.varsize.add(nm)
                        break
                else:
                    maps.append([nm, "whole", src])
                    scope[nm] = ("reg", ssize)
        return lets, reg, maps, scope

    # ---- validity of a statement text in a scope (so that texts can be re-used)
    def arg_ok(self, a, usage, scope):
        def sort(name):
            return scope.get(name)

        if usage == "q":
            if a[0] == "id":
                return sort(a[1]) == "qubit"
            if a[0] != "item":
                return False
            s = sort(a[1])
            if not isinstance(s, tuple):
                return False
            if a[2][0] == "num":
                return 0 <= int(a[2][1]) < s[1]
            return sort(a[2][1]) == "idx"
        if usage == "r":
            return a[0] == "id" and isinstance(sort(a[1]), tuple)
        if a[0] == "item":
            return False
        if a[0] == "num":
            v = num_of(a[1])
            if usage == "x":
                return v in (0, 1) and isinstance(v, int)
            if usage == "c":
                return isinstance(v, int) and 0 <= v <= 3
            if usage == "i":
                return isinstance(v, int)
            return True
        s = sort(a[1])
        return s in {"x": ("idx",), "c": ("idx", "cnt"), "i": ("idx", "cnt", "num"), "f": ("idx", "cnt", "num", "flt")}[usage]

    def usages(self, s, macros):
        if s[0] == "gate":
            return self.sig[s[1]]
        m = macros.get(s[1])
        return None if m is None else [SORT_USAGE[x] for x in m[2]]

    def fits(self, s, scope, macros):
        us = self.usages(s, macros)
        return us is not None and len(us) == len(s[2]) and all(self.arg_ok(a, u, scope) for a, u in zip(s[2], us))

    # ---- arguments
    def ident(self, scope, ok, params, prefer=None):
        """an identifier of the scope whose sort satisfies `ok`; parameters (and the preferred name) weigh more"""
        c = [(n, (6 if n == prefer else 3 if n in params else 1)) for n, s in scope.items() if ok(s)]
        return self.wpick(c) if c else None

    def gen_arg(self, usage, scope, params, prefer=None):
        rng = self.rng
        if usage == "q":
            qid = self.ident(scope, lambda s: s == "qubit", params, prefer)
            if qid is not None and (qid == prefer or self.chance(0.3)):
                return ["id", qid]
            base = self.ident(scope, lambda s: isinstance(s, tuple), params, prefer)
            size = scope[base][1]
            iid = self.ident(scope, lambda s: s == "idx", params)
            if iid is not None and self.chance(0.45):
                return ["item", base, ["id", iid]]
            return ["item", base, ["num", str(rng.randrange(size))]]
        if usage == "r":
            return ["id", self.ident(scope, lambda s: isinstance(s, tuple), params, prefer)]
        sorts = {"x": ("idx",), "c": ("idx", "cnt"), "i": ("idx", "cnt", "num"), "f": ("idx", "cnt", "num", "flt")}[usage]
        nm = self.ident(scope, lambda s: s in sorts, params, prefer)
        if nm is not None and (nm == prefer or self.chance(0.55)):
            return ["id", nm]
        if usage == "x":
            return ["num", str(rng.randrange(2))]
        if usage == "c":
            return ["num", str(rng.randrange(4))]
        if usage == "f" and self.gateset == "anon" and self.chance(0.3):
            return ["num", self.pick(["0.5", "2.5", "-1.5", "1.0"])]
        return ["num", str(rng.randrange(0, 8))]

    def gen_gate(self, scope, params):
        name = self.wpick(self.weight.items())
        return ["gate", name, [self.gen_arg(u, scope, params) for u in self.sig[name]]]

    def gen_call(self, scope, params, macros):
        m = self.pick(macros.values())
        args = []
        for p, srt in zip(m[1], m[2]):
            # an argument named like the callee's parameter, when such a name is in scope with the right sort
            prefer = p if self.chance(0.6) else None
            args.append(self.gen_arg(SORT_USAGE[srt], scope, params, prefer))
        return ["call", m[0], args]

    def gen_simple(self, scope, params, macros):
        if self.pool and self.chance(0.45):
            c = [s for s in self.pool if self.fits(s, scope, macros)]
            if c:
                self.reused += 1
                return json.loads(json.dumps(self.pick(c)))
        s = self.gen_call(scope, params, macros) if macros and self.chance(0.35) else self.gen_gate(scope, params)
        self.pool.append(s)
        return s

    def gen_count(self, scope, params):
        return self.gen_arg("c", scope, params)

    def gen_stmt(self, scope, params, macros, ctx, depth):
        r = self.rng.random()
        if depth <= 0 or r < 0.62:
            return self.gen_simple(scope, params, macros)
        k = self.pick([1, 2, 2, 3])
        if ctx == "par":
            return ["seq", [self.gen_stmt(scope, params, macros, "seq", depth - 1) for _ in range(k)]]
        if r < 0.8 or self.emu:
            kind = "par" if self.chance(0.25) else "seq"
            return ["loop", self.gen_count(scope, params), kind,
                    [self.gen_stmt(scope, params, macros, kind, depth - 1) for _ in range(k)]]
        return ["par", [self.gen_stmt(scope, params, macros, "par", depth - 1) for _ in range(k)]]

    # ---- whole program
    def program(self):
        rng = self.rng
        self.pool, self.reused = [], 0
        lets, reg, maps, hscope = self.header()
        hnames = list(hscope)
        macros = {}
        par_p = 0.0 if self.emu else 0.15
        for k in range(self.pick([1, 2, 2, 3, 3, 4])):
            params = []
            earlier = [p for m in macros.values() for p in m[1]]
            for _ in range(self.pick([0, 1, 1, 2, 2, 2, 3])):
                r = rng.random()
                if earlier and r < 0.3:
                    p = self.pick(earlier)
                elif r < 0.8:
                    p = self.pick(hnames)
                else:
                    p = self.pick(NAMES)
                if p not in params:
                    params.append(p)
            sorts = [self.pick(PARAM_SORTS) for _ in params]
            scope = dict(hscope)
            scope.update({p: (("reg", 2) if s == "reg" else s) for p, s in zip(params, sorts)})
            if not any(isinstance(v, tuple) for v in scope.values()):
                # every register-like name is shadowed by a classical / qubit parameter: make one of them register-like
                j = self.pick([j for j, p in enumerate(params) if isinstance(hscope.get(p), tuple)])
                sorts[j] = "reg"
                scope[params[j]] = ("reg", 2)
            kind = "par" if self.chance(par_p) else "seq"
            body = [self.gen_stmt(scope, params, macros, kind, 1 if self.emu else 2) for _ in range(self.pick([1, 2, 2, 3, 4]))]
            macros[f"m{k}"] = [f"m{k}", params, sorts, kind, body]
        main = []
        for m in macros.values():
            if self.chance(0.75):
                main.append(self.gen_call(hscope, [], {m[0]: m}))
        for _ in range(self.pick([1, 2, 3, 4])):
            main.append(self.gen_stmt(hscope, [], macros, "seq", 1 if self.emu else 2))
        rng.shuffle(main)
        if self.emu:
            cut = rng.randrange(len(main) + 1) if self.chance(0.3) else len(main)
            main = [["sub", None, part] for part in (main[:cut], main[cut:]) if part]
        else:
            main = [s if not self.chance(0.12) else ["sub", self.pick([None, None, self.gen_count(hscope, [])]),
                                                     [s] if s[0] != "seq" else s[1]] for s in main]
        prog = {"gateset": self.gateset, "lets": lets, "reg": reg, "maps": maps, "macros": list(macros.values()), "main": main}
        ov = {}
        for name, value, role in lets:
            if role != "size" and self.chance(0.7):
                ov[name] = {"idx": lambda: rng.randrange(2), "cnt": lambda: rng.randrange(4), "num": lambda: rng.randrange(-3, 10),
                            "flt": lambda: self.pick([0.5, 2.5, -1.5, 3.0])}[role]()
        return prog, ov, hscope

    # ---- the same program plus one more copy of one of its statement texts
    def with_copy(self, prog, hscope):
        """-> (prog2, ins) or None.  ins = {"kind": "main"|"macro"|"newmacro", "pos": k, "macro": name, "stmt": text}"""
        rng = self.rng
        simple = []

        def collect(stmts):
            for s in stmts:
                if s[0] in ("gate", "call"):
                    simple.append(s)
                elif s[0] == "loop":
                    collect(s[3])
                elif s[0] in ("seq", "par"):
                    collect(s[1])
                elif s[0] == "sub":
                    collect(s[2])

        for m in prog["macros"]:
            collect(m[4])
        collect(prog["main"])
        if not simple:
            return None
        s = json.loads(json.dumps(self.pick(simple)))
        macros = {m[0]: m for m in prog["macros"]}
        prog2 = json.loads(json.dumps(prog))
        options = ["newmacro"]
        if self.fits(s, hscope, macros) and not self.emu:
            options += ["main", "main"]
        hosts = []
        for k, m in enumerate(prog["macros"]):
            scope = dict(hscope)
            scope.update({p: (("reg", 2) if srt == "reg" else srt) for p, srt in zip(m[1], m[2])})
            before = {x[0]: x for x in prog["macros"][:k]}
            if m[3] == "seq" and self.fits(s, scope, before):
                hosts.append(k)
        if hosts:
            options += ["macro", "macro"]
        kind = self.pick(options)
        text = r_stmt(s)
        if kind == "main":
            pos = rng.randrange(len(prog["main"]) + 1)
            prog2["main"].insert(pos, s)
            return prog2, {"kind": "main", "pos": pos, "stmt": text}
        if kind == "macro":
            k = self.pick(hosts)
            pos = rng.randrange(len(prog["macros"][k][4]) + 1)
            prog2["macros"][k][4].insert(pos, s)
            return prog2, {"kind": "macro", "macro": prog["macros"][k][0], "pos": pos, "stmt": text}
        # a new macro, never called, whose parameters capture names of the text
        us = self.usages(s, macros)
        need = {}

        def note(name, srt):
            need.setdefault(name, srt)

        for a, u in zip(s[2], us):
            if a[0] == "id":
                note(a[1], {"q": "qubit", "r": "reg", "x": "idx", "c": "cnt", "i": "num", "f": "num"}[u])
            elif a[0] == "item":
                note(a[1], "reg")
                if a[2][0] == "id":
                    note(a[2][1], "idx")
        # every name becomes a parameter, unless the header binding of that name makes the text valid too
        chosen = {name: ((("reg", 99) if srt == "reg" else srt)) for name, srt in need.items()}
        for name in list(need):
            if name in hscope and self.chance(0.35):
                scope = dict(hscope)
                scope.update({k: v for k, v in chosen.items() if k != name})
                if self.fits(s, scope, macros):
                    del chosen[name]
        for name in list(need):  # names the header does not bind at all must stay
            if name not in chosen and name not in hscope:
                chosen[name] = need[name]
        params = list(chosen)
        sorts = [need[p] for p in params]
        if self.chance(0.3):
            extra = self.pick(NAMES)
            if extra not in params and extra not in need:
                params.append(extra)
                sorts.append(self.pick(PARAM_SORTS))
        if s[0] == "call":
            lo = [k for k, m in enumerate(prog["macros"]) if m[0] == s[1]][0] + 1
        else:
            lo = 0
        pos = rng.randrange(lo, len(prog["macros"]) + 1)
        prog2["macros"].insert(pos, ["zz", params, sorts, "seq", [s]])
        return prog2, {"kind": "newmacro", "macro": "zz", "pos": pos, "stmt": text}


# ---------------------------------------------------------------------------------------------------------------
# the reference program for the emulator: no macros, lets or aliases


def ref_value(v):
    if isinstance(v, tuple) and v[0] == "q":
        return f"{v[1]}[{v[2]}]"
    if is_num(v):
        return repr(v)
    raise LexError(f"cannot write {v!r} in a reference program")


def ref_items(trees, ctx):
    out = []
    for t in trees:
        if t[0] == "gate":
            out.append(" ".join([t[1]] + [ref_value(a) for a in t[2]]))
        elif t[0] == "loop":
            out.append(f"loop {ref_value(t[1])} " + ref_block(t[2], t[3]))
        elif t[0] == "blk":
            if t[1] == ctx:
                out.extend(ref_items(t[2], ctx))
            else:
                out.append(ref_block(t[1], t[2]))
        elif t[0] == "sub":
            out.append(f"subcircuit {ref_value(t[1])} " + ref_block("seq", t[2]))
    return out


def ref_block(kind, trees):
    items = ref_items(trees, kind)
    return ("< " + " | ".join(items) + " >") if kind == "par" else ("{ " + "; ".join(items) + " }")


def reference_text(prog, ov):
    lx = lex_program(prog, ov)
    rname = prog["reg"][0]
    size = len(lx["henv"][rname][2])
    return f"register {rname}[{size}]\n" + "\n".join(ref_items(lx["main"], "seq")) + "\n"


def emulate(text, mode, ov):
    """-> ("ok", [state vectors as lists]) | ("rej", msg) | ("exc", cls, msg) | ("hang", ...)"""
    L = lib()

    def go():
        import numpy as np
        from jaqalpaq.run import run_jaqal_circuit

        if mode == "parse_ov":
            c = L["parse"](text, inject_pulses=L["GATES"], autoload_pulses=False, expand_let=True, override_dict=dict(ov))
        else:
            c = L["parse"](text, inject_pulses=L["GATES"], autoload_pulses=False)
            if mode == "fill_ov":
                c = L["fill_in_let"](c, override_dict=dict(ov))
        res = run_jaqal_circuit(c)
        return [np.array(sc.state_vector) for sc in res.subcircuits]

    return guarded(go)


EMU_MODES = ["plain", "parse_ov", "fill_ov"]


def check_emulator(prog, ov, mode):
    """-> (judged: bool, failure detail or None, tag)"""
    import numpy as np

    use_ov = ov if mode != "plain" else None
    try:
        ref = reference_text(prog, use_ov)
    except LexError as e:
        return False, None, f"emu: no reference ({e})"
    a = emulate(render(prog), mode, ov)
    b = emulate(ref, "plain", None)
    if b[0] != "ok":
        if a[0] == b[0]:
            return False, None, f"emu: program and reference both {a[0]}"
        if a[0] == "ok":
            return False, None, f"emu: reference {b[0]} but program accepted"
        return False, None, f"emu: program {a[0]}, reference {b[0]}"
    if a[0] != "ok":
        alpha = emulate(render(prog, alpha=True), mode, ov)
        if alpha[0] != "ok":
            return False, None, f"emu: program {a[0]} and so is the renamed program (reference runs)"
        return True, (f"the emulator pipeline ({mode}) gives {a[0]} {' '.join(map(str, a[1:]))[:200]} on the program but runs the same "
                      f"program with its macro parameters renamed to fresh names, and its lexical reference:\n{ref}"), "emu: judged"
    if len(a[1]) != len(b[1]) or any(x.shape != y.shape or not np.allclose(x, y, atol=1e-9) for x, y in zip(a[1], b[1])):
        return True, f"emulator ({mode}): state vectors differ from those of the lexical reference program:\n{ref}", "emu: judged"
    return True, None, "emu: judged"


# ---------------------------------------------------------------------------------------------------------------
# oracles on one (program, stage)


def expected_flat(prog, ov, flags, passes):
    lx = lex_program(prog, ov if stage_uses_ov(flags, passes) else None)
    subs = "S" in passes
    return flatten(lx["main"], subs), {k: flatten(v, subs) for k, v in lx["macros"].items()}


def judge_semantics(prog, ov, flags, passes, circuit):
    """-> list of failure details (empty: the circuit means what the program means lexically)"""
    want_main, want_macros = expected_flat(prog, ov, flags, passes)
    subs = "S" in passes
    got = obj_program(circuit)
    fails = []
    if isinstance(got["main"], str):
        fails.append(got["main"])
    else:
        d = first_difference(flatten(got["main"], subs), want_main)
        if d:
            fails.append("main body, " + d)
    for name, trees in got["macros"].items():
        if name not in want_macros:
            continue
        if isinstance(trees, str):
            fails.append(trees)
            continue
        d = first_difference(flatten(trees, subs), want_macros[name])
        if d:
            fails.append(f"macro {name}, " + d)
    return fails


KNOWN_MAP_LIMIT = "Cannot fill in map aliases: a macro parameter is named like register"


def judge_rejection(prog, ov, flags, passes, out):
    """the stage did not return a circuit: does the alpha-renamed program go through?
    -> (judged: bool, failure detail or None, tag)"""
    what = out[0] + (" " + " ".join(map(str, out[1:])) if len(out) > 1 else "")
    if out[0] == "rej" and stage_fills_map(flags, passes) and out[1].startswith(KNOWN_MAP_LIMIT):
        return False, None, "rejected: fill_in_map, parameter named like the register (documented)"
    alpha = fresh_outcome(render(prog, alpha=True), prog["gateset"], ov, flags, passes)
    if alpha[0] == "ok":
        return True, (f"{stage_name(flags, passes)} gives `{what[:300]}` but accepts the same program with its macro "
                      f"parameters renamed to fresh names"), "rejected: judged"
    if alpha[0] == out[0]:
        return True, None, f"rejected: {out[0]}, the renamed program too" + (f" ({out[1]})" if out[0] == "exc" else "")
    return True, None, f"rejected: {out[0]}, the renamed program {alpha[0]}"


def compare_with_copy(prog, prog2, ins, flags, passes, c1, c2, ov):
    """C07_unrelated_statement on one stage: c1 built from prog, c2 from prog2 = prog + one copied statement"""
    fails = []
    affected = ins.get("macro") if ins["kind"] in ("macro", "newmacro") else None
    if stage_keeps_structure(flags, passes) or ins["kind"] == "newmacro" or ins["kind"] == "main":
        for name, m in c1.macros.items():
            if name == affected or name not in c2.macros:
                continue
            if describe(m) != describe(c2.macros[name]):
                fails.append(f"macro {name} is built differently when `{ins['stmt']}` is also written in {where_of(ins)}")
    if stage_keeps_structure(flags, passes):
        s1 = list(c1.body.statements)
        s2 = list(c2.body.statements)
        if ins["kind"] == "main":
            if len(s2) == len(s1) + 1:
                del s2[ins["pos"]]
        if len(s1) == len(s2):
            for k, (x, y) in enumerate(zip(s1, s2)):
                if describe(x) != describe(y):
                    fails.append(f"main-body statement #{k} `{r_stmt(prog['main'][k])}` is built differently when "
                                 f"`{ins['stmt']}` is also written in {where_of(ins)}")
        else:
            fails.append(f"main body has {len(s1)} statements without and {len(s2)} with the copy in {where_of(ins)}")
    elif ins["kind"] in ("main", "newmacro"):
        subs = "S" in passes
        try:
            f1 = flatten(obj_stmts(c1.body.statements, None, c1, "main body"), subs)
            f2 = flatten(obj_stmts(c2.body.statements, None, c2, "main body"), subs)
        except ObjError:
            return fails  # reported by C07_stage_semantics
        if ins["kind"] == "main":
            lx = lex_program(prog2, ov if stage_uses_ov(flags, passes) else None)
            start = len(flatten(lx["main"][:ins["pos"]], subs))
            seg = len(flatten(lx["main"][ins["pos"]:ins["pos"] + 1], subs))
            f2 = f2[:start] + f2[start + seg:]
        d = first_difference(f2, f1)
        if d:
            fails.append(f"with `{ins['stmt']}` also written in {where_of(ins)} (its own contribution removed): {d} (built = with the copy, lexically = without)")
    return fails


def where_of(ins):
    if ins["kind"] == "main":
        return f"the main body (position {ins['pos']})"
    if ins["kind"] == "macro":
        return f"macro {ins['macro']} (position {ins['pos']})"
    return f"a new macro zz (macro position {ins['pos']})"


# ---------------------------------------------------------------------------------------------------------------
# fixed programs that must be covered whatever the seed (hand-written JSON trees)


def _g(*args):
    return ["gate", "g", list(args)]


def _it(a, i):
    return ["item", a, ["num", str(i)] if isinstance(i, int) else ["id", i]]


def fixed_programs():
    P = []

    def prog(lets, reg, maps, macros, main, ov=None):
        P.append(({"gateset": "anon", "lets": lets, "reg": reg, "maps": maps, "macros": macros, "main": main}, ov or {}))

    # the two shapes of the missed regressions, and their neighbours
    prog([], ["r", 3], [], [["foo", ["r"], ["reg"], "seq", [_g(_it("r", 0))]], ["bar", ["x"], ["qubit"], "seq", [_g(_it("r", 0))]]],
         [_g(_it("r", 0)), ["call", "foo", [["id", "r"]]], ["call", "bar", [_it("r", 1)]]])
    prog([], ["r", 3], [["q", "slice", "r", 1, 3, None]],
         [["foo", ["r"], ["reg"], "seq", [_g(_it("r", 0))]]],
         [["call", "foo", [["id", "r"]]], ["call", "foo", [["id", "q"]]], _g(_it("r", 0))])
    prog([], ["r", 3], [["q", "slice", "r", 1, 3, None]],
         [["inner", ["q"], ["reg"], "seq", [_g(_it("q", 1))]],
          ["outer", ["r"], ["reg"], "seq", [["call", "inner", [["id", "r"]]], ["call", "inner", [["id", "q"]]]]]],
         [["call", "outer", [["id", "r"]]], ["call", "outer", [["id", "q"]]], _g(_it("q", 1))])
    prog([["i", 1, "idx"]], ["r", 3], [],
         [["foo", ["i"], ["idx"], "seq", [_g(_it("r", "i"))]], ["bar", ["r"], ["reg"], "seq", [_g(_it("r", "i"))]]],
         [_g(_it("r", "i")), ["call", "foo", [["num", "0"]]], ["call", "foo", [["id", "i"]]], ["call", "bar", [["id", "r"]]]], {"i": 0})
    prog([["a", 1, "idx"]], ["r", 3], [["q", "qubit", "r", 2]],
         [["foo", ["q"], ["qubit"], "seq", [_g(["id", "q"])]], ["bar", ["a"], ["reg"], "seq", [_g(_it("a", 1)), ["call", "foo", [_it("a", 0)]]]]],
         [_g(["id", "q"]), ["call", "foo", [["id", "q"]]], ["call", "foo", [_it("r", "a")]], ["call", "bar", [["id", "r"]]]], {"a": 0})
    prog([["n", 2, "cnt"]], ["r", 3], [["a", "qubit", "r", 0]],
         [["foo", ["n", "a"], ["qubit", "cnt"], "seq", [["loop", ["id", "a"], "seq", [_g(["id", "n"])]]]]],
         [["loop", ["id", "n"], "seq", [_g(["id", "a"])]], ["call", "foo", [["id", "a"], ["id", "n"]]]], {"n": 3})
    return P


# ---------------------------------------------------------------------------------------------------------------
# main entry points

ORACLES = ("C07_stage_semantics", "C07_stage_accepts", "C07_unrelated_statement", "C07_emulator_lexical")


def _bump(res, key, by=1):
    res["distribution"][key] = res["distribution"].get(key, 0) + by


def _fail(res, oracle, case, detail):
    lst = res["oracle"][oracle]["failures"]
    if len(lst) < 20:
        lst.append({"case": case, "detail": detail})


def _case(oracle, prog, ov, flags=None, passes=None, **more):
    c = {"oracle": oracle, "prog": prog, "ov": ov, "text": render(prog)}
    if flags is not None:
        c["flags"], c["passes"] = list(flags), list(passes)
        c["stage"] = stage_name(flags, passes)
    c.update(more)
    return c


def stage_nodes(paths):
    """every prefix of every path, once, in an order that lets prefixes be shared"""
    seen, out = set(), []
    for flags, seq in paths:
        for k in range(len(seq) + 1):
            key = (tuple(flags), tuple(seq[:k]))
            if key not in seen:
                seen.add(key)
                out.append(key)
    return out


def features(prog, hscope_names):
    """what kinds of collision a program holds (for `distribution`)"""
    f = set()
    lets = {l[0] for l in prog["lets"]}
    regs = {prog["reg"][0]}
    als = {m[0] for m in prog["maps"]}
    pnames = {}
    for m in prog["macros"]:
        for p, s in zip(m[1], m[2]):
            if p in lets:
                f.add(f"collision: {s} parameter named like a let")
            if p in regs:
                f.add(f"collision: {s} parameter named like the register")
            if p in als:
                f.add(f"collision: {s} parameter named like an alias")
            if p in pnames and pnames[p] != m[0]:
                f.add("collision: two macros share a parameter name")
            pnames[p] = m[0]

    def calls(stmts, params):
        for s in stmts:
            if s[0] == "call":
                callee = next(m for m in prog["macros"] if m[0] == s[1])
                for p, a in zip(callee[1], s[2]):
                    if a[0] in ("id", "item") and a[1] == p:
                        f.add("argument named like the callee's parameter" + (" (forwarded parameter)" if p in params else ""))
            elif s[0] == "loop":
                calls(s[3], params)
            elif s[0] in ("seq", "par"):
                calls(s[1], params)
            elif s[0] == "sub":
                calls(s[2], params)

    for m in prog["macros"]:
        calls(m[4], m[1])
    calls(prog["main"], [])
    texts = {}

    def simple(stmts, scope):
        for s in stmts:
            if s[0] in ("gate", "call"):
                texts.setdefault(r_stmt(s), set()).add(scope)
            elif s[0] == "loop":
                simple(s[3], scope)
            elif s[0] in ("seq", "par"):
                simple(s[1], scope)
            elif s[0] == "sub":
                simple(s[2], scope)

    for m in prog["macros"]:
        simple(m[4], m[0])
    simple(prog["main"], "")
    if any(len(v) > 1 for v in texts.values()):
        f.add("same statement text in several scopes")
    if any(len(v) > 1 and "" in v for v in texts.values()):
        f.add("same statement text in a macro and in the main body")
    return f


def run_program(res, rng, prog, ov, paths, copy_info=None, emu=False):
    """all oracles on one program (and on its with-copy variant when given)"""
    text = render(prog)
    gateset = prog["gateset"]
    try:
        lex_program(prog, None)
        lex_program(prog, ov)
    except LexError as e:  # the generator promised a lexically valid program
        _bump(res, f"generator: invalid program ({e})")
        return
    runner = StageRunner(text, gateset, ov)
    runner2 = None
    if copy_info is not None:
        prog2, ins = copy_info
        runner2 = StageRunner(render(prog2), gateset, ov)
        _bump(res, f"copy of a statement text placed in: {ins['kind']}")
    for flags, passes in stage_nodes(paths):
        flags, passes = list(flags), list(passes)
        out = runner.outcome(flags, passes)
        name = stage_name(flags, passes)
        if out[0] == "prefix":
            continue
        if out[0] != "ok":
            judged, detail, tag = judge_rejection(prog, ov, flags, passes, out)
            _bump(res, tag)
            if judged:
                res["oracle"]["C07_stage_accepts"]["cases"] += 1
            if detail:
                _fail(res, "C07_stage_accepts", _case("C07_stage_accepts", prog, ov, flags, passes), detail)
            continue
        _bump(res, f"stage accepted: {name}")
        res["oracle"]["C07_stage_semantics"]["cases"] += 1
        for d in judge_semantics(prog, ov, flags, passes, out[1])[:2]:
            _fail(res, "C07_stage_semantics", _case("C07_stage_semantics", prog, ov, flags, passes), f"after {name}: {d}")
        if runner2 is not None:
            out2 = runner2.outcome(flags, passes)
            if out2[0] == "ok":
                res["oracle"]["C07_unrelated_statement"]["cases"] += 1
                for d in compare_with_copy(prog, prog2, ins, flags, passes, out[1], out2[1], ov)[:2]:
                    _fail(res, "C07_unrelated_statement",
                          _case("C07_unrelated_statement", prog, ov, flags, passes, prog2=prog2, ins=ins, text2=render(prog2)),
                          f"after {name}: {d}")
    if emu:
        for mode in EMU_MODES:
            judged, detail, tag = check_emulator(prog, ov, mode)
            _bump(res, tag)
            if judged:
                res["oracle"]["C07_emulator_lexical"]["cases"] += 1
            if detail:
                _fail(res, "C07_emulator_lexical", _case("C07_emulator_lexical", prog, ov, mode=mode), detail)


def run(seed: int, n: int, driver: str = DEFAULT_DRIVER, thorough: bool = False) -> dict:
    lib()
    rng = random.Random(seed)
    res = {"corr": {}, "oracle": {o: {"cases": 0, "failures": []} for o in ORACLES},
           "distribution": {}, "samples": [], "nontrivial": 0}
    if thorough:
        n = max(n, 500)
    all_paths = all_stage_paths()
    distinct = set()
    for prog, ov in fixed_programs():
        run_program(res, rng, prog, ov, all_paths)
        distinct.add(render(prog))
    for k in range(n):
        r = rng.random()
        emu = r < 0.25
        gateset = "native" if r < 0.45 else "anon"
        gen = Gen(rng, gateset, emu)
        prog, ov, hscope = gen.program()
        if emu:  # prefer programs whose lexical reference the emulator runs (no gate given one qubit twice)
            for _try in range(8):
                if all(emulate(reference_text(prog, o), "plain", None)[0] == "ok" for o in (None, ov)):
                    break
                _bump(res, "emu: program regenerated (the emulator rejects its reference)")
                prog, ov, hscope = gen.program()
        paths = all_paths if thorough else rng.sample(all_paths, 12)
        text = render(prog)
        distinct.add(text)
        _bump(res, f"programs: {gateset} gates" + (", emulated" if emu else ""))
        _bump(res, f"macros per program: {len(prog['macros'])}")
        _bump(res, "statement texts re-used from the pool", gen.reused)
        for f in features(prog, list(hscope)):
            _bump(res, f)
        cp = gen.with_copy(prog, hscope)
        run_program(res, rng, prog, ov, paths, copy_info=cp, emu=emu)
        if cp is not None:
            # the variant is a program in its own right
            distinct.add(render(cp[0]))
            run_program(res, rng, cp[0], ov, paths if thorough else rng.sample(all_paths, 4), emu=False)
        if k < 6:
            res["samples"].append({"text": text, "ov": ov, "with_copy": None if cp is None else cp[1]})
    res["nontrivial"] = len(distinct)
    return res


def replay(case: dict, driver: str = DEFAULT_DRIVER) -> dict:
    lib()
    prog, ov = case["prog"], case.get("ov") or {}
    oracle = case.get("oracle", "C07_stage_semantics")
    flags, passes = case.get("flags", []), case.get("passes", [])
    details = []
    if oracle == "C07_emulator_lexical":
        _j, detail, tag = check_emulator(prog, ov, case.get("mode", "plain"))
        return {"oracle_ok": detail is None, "detail": detail or tag}
    out = fresh_outcome(render(prog), prog["gateset"], ov, flags, passes)
    impl = {"outcome": out[0] if out[0] != "ok" else "accepted", "message": " ".join(map(str, out[1:]))[:300] if out[0] != "ok" else ""}
    if oracle == "C07_stage_accepts":
        if out[0] in ("ok", "prefix"):
            return {"oracle_ok": True, "detail": "the stage accepts the program", "stage_outcome": impl}
        _j, detail, tag = judge_rejection(prog, ov, flags, passes, out)
        return {"oracle_ok": detail is None, "detail": detail or tag, "stage_outcome": impl}
    if out[0] != "ok":
        return {"oracle_ok": None, "detail": f"the stage does not return a circuit: {impl}", "stage_outcome": impl}
    if oracle == "C07_unrelated_statement":
        out2 = fresh_outcome(render(case["prog2"]), prog["gateset"], ov, flags, passes)
        if out2[0] != "ok":
            return {"oracle_ok": None, "detail": "the program with the copy is not accepted at this stage", "stage_outcome": impl}
        details = compare_with_copy(prog, case["prog2"], case["ins"], flags, passes, out[1], out2[1], ov)
    else:
        details = judge_semantics(prog, ov, flags, passes, out[1])
    return {"oracle_ok": not details, "detail": "; ".join(details), "stage_outcome": impl}


def main():
    ap = argparse.ArgumentParser()
    ap.add_argument("--driver", default=DEFAULT_DRIVER)
    ap.add_argument("--seed", type=int, default=0)
    ap.add_argument("--n", type=int, default=100)
    ap.add_argument("--thorough", action="store_true")
    ap.add_argument("--json", action="store_true")
    a = ap.parse_args()
    res = run(a.seed, a.n, a.driver, a.thorough)
    if a.json:
        print(json.dumps(res, indent=1))
    bad = 0
    for name, r in res["oracle"].items():
        print(f"oracle {name}: {r['cases']} cases, {len(r['failures'])} failures (first 20 kept)")
        for d in r["failures"][:4]:
            print("  FAIL", d["detail"])
            print("       stage", d["case"].get("stage", d["case"].get("mode")), "ov", d["case"]["ov"])
            print("       " + d["case"]["text"].replace("\n", "\n       "))
        bad += len(r["failures"])
    print("distinct programs:", res["nontrivial"])
    for k in sorted(res["distribution"]):
        print(f"  {res['distribution'][k]:7d}  {k}")
    sys.exit(1 if bad else 0)


if __name__ == "__main__":
    main()
