#!/venv/bin/python
"""Differential test of the Lean models of `expand_macros` / `expand_subcircuits` (JaqalModel/Model/ExpandMacros.lean,
ExpandSubcircuits.lean, ops in PassOps1.lean) and of the meaning specification (JaqalModel/Spec/Sem.lean, op `meaning`)
against the real passes of jaqalpaq.

    PYTHONPATH=/verif /venv/bin/python /verif/harness/agents/pass1_diff.py [--driver PATH] [--seed 0] [--n 2000] [--thorough]

corr   (model vs implementation)
  expand_macros       dump.circuit(c) -> model == dump.circuit(expand_macros(c, preserve)) (whole dump) / error class
  expand_subcircuits  same for expand_subcircuits(c, prepare, measure)
  meaning             SPEC validation: model `meaning` of the ORIGINAL circuit under the overrides ==
                      implementation meaning read off expand_macros(fill_in_let(c, overrides)) (every qubit through
                      .resolve_qubit(), same-kind non-subcircuit nested blocks spliced), on programs both accept
oracle (the properties on the real code alone, no Lean involved)
  C04_total_class, C09_total_class (every rejection is a JaqalError), C04_no_calls, C04_header, C04_shape,
  C04_idempotent, C04_arity, C04_meaning_ref (a reference interpreter written here,
  call-by-value on the unexpanded circuit, vs the expanded circuit), C09_spell (expand_subcircuits == the tree map
  `spell`), C09_none_left, C09_flat, C09_header, C09_idempotent, C09_macro_clash, C09_rejects_only_clash_or_parametrised_bounds

Exit status 0 iff no disagreement and no oracle failure.
"""
import argparse
import copy
import json
import random
import subprocess
import sys
from collections import Counter

DEFAULT_DRIVER = "/verif/lean/.lake/build/bin/jaqal-model"


def _imports():
    global dump, GATES, SIG, parse_jaqal_string, expand_macros, expand_subcircuits, fill_in_let
    global GateStatement, BlockStatement, LoopStatement, GateDefinition, BusyGateDefinition, Parameter, ParamType
    global Constant, NamedQubit, Register, JaqalError, Macro
    from harness import dump
    from harness.gates import GATES, SIG
    from jaqalpaq.parser import parse_jaqal_string
    from jaqalpaq.core.algorithm import expand_macros, expand_subcircuits, fill_in_let
    from jaqalpaq.core.gate import GateStatement
    from jaqalpaq.core.block import BlockStatement, LoopStatement
    from jaqalpaq.core.gatedef import GateDefinition, BusyGateDefinition
    from jaqalpaq.core.parameter import Parameter, ParamType
    from jaqalpaq.core.constant import Constant
    from jaqalpaq.core.register import NamedQubit, Register
    from jaqalpaq.core.macro import Macro
    from jaqalpaq.error import JaqalError


# ------------------------------------------------------------------------------------------------
# program generator (text)

LETS = ["n", "k", "m", "t"]
PARAM_POOL = ["x", "y", "z", "i", "j", "n", "k", "r", "a", "b", "q", "w"]  # n k r a b shadow lets / registers / aliases


class Gen:
    def __init__(self, rng, mode, wild):
        self.rng = rng
        self.mode = mode  # "gates" | "nogates"
        self.wild = wild  # probability of a deliberately ill-typed / out-of-range choice
        self.lets = {}
        self.regs = {}  # name -> size
        self.qalias = []
        self.ralias = {}  # name -> size
        self.macros = []  # (name, [(param, role)], contains a subcircuit block (transitively))
        self._cur_has_sub = False
        self.anon = {}  # nogates: gate name -> signature
        # macros named like the bounding gates (only where no native gate has that name)
        self.special = []
        if mode != "gates" and rng.random() < 0.35:
            self.special = rng.sample(["prepare_all", "measure_all"], rng.randrange(1, 3))

    def header(self):
        r = self.rng
        out = []
        for name in LETS[: r.randrange(0, 4)]:
            v = r.choice([0, 1, 1, 2, 2, 3]) if r.random() < 0.85 else r.choice([1.5, 2.0, -1, 0.25, 3.0])
            self.lets[name] = v
            out.append(f"let {name} {v}")
        size = r.randrange(3, 6)
        intlets = [l for l, v in self.lets.items() if isinstance(v, int) and v >= 3]
        if intlets and r.random() < 0.3:
            l = r.choice(intlets)
            out.append(f"register r[{l}]")
            size = self.lets[l]
        else:
            out.append(f"register r[{size}]")
        self.regs["r"] = size
        if r.random() < 0.7:
            kind = r.randrange(4)
            if kind == 0:
                out.append("map a r")
                self.ralias["a"] = size
            elif kind == 1:
                out.append("map a r[1:3]")
                self.ralias["a"] = 2
            elif kind == 2:
                out.append(f"map a r[0:{size}:2]")
                self.ralias["a"] = len(range(0, size, 2))
            else:
                ls = [l for l, v in self.lets.items() if isinstance(v, int) and 1 <= v <= size]
                if ls:
                    l = r.choice(ls)
                    out.append(f"map a r[0:{l}]")
                    self.ralias["a"] = self.lets[l]
                else:
                    out.append("map a r[::-1]" if r.random() < 0.3 else "map a r[1:]")
                    self.ralias["a"] = size if out[-1].endswith("-1]") else size - 1
            if out[-1] == "map a r[::-1]":
                # a negative step with an empty start is rejected by the front end; keep the generator simple
                out[-1] = "map a r[1:]"
                self.ralias["a"] = size - 1
        if r.random() < 0.5:
            out.append(f"map b r[{r.randrange(size)}]")
            self.qalias.append("b")
        if self.ralias and r.random() < 0.3:
            out.append("map c a[0]")
            self.qalias.append("c")
        return out

    # --- arguments
    def index(self, params, size):
        r = self.rng
        ips = [p for p, role in params if role == "i"]
        c = r.random()
        if ips and c < 0.4:
            return r.choice(ips)
        ls = [l for l, v in self.lets.items() if isinstance(v, int) and 0 <= v < size and l not in dict(params)]
        if ls and c < 0.55:
            return r.choice(ls)
        if r.random() < self.wild:
            return str(r.choice([size, size + 2, 9]))
        return str(r.randrange(max(size, 1)))

    def qubit(self, params):
        r = self.rng
        shadow = dict(params)
        qps = [p for p, role in params if role == "q"]
        rps = [p for p, role in params if role == "reg"]
        c = r.random()
        if qps and c < 0.4:
            return r.choice(qps)
        if rps and c < 0.6:
            return f"{r.choice(rps)}[{self.index(params, 2)}]"
        if params and r.random() < self.wild:
            return r.choice(params)[0]
        cands = []
        for name, size in list(self.regs.items()) + list(self.ralias.items()):
            if name not in shadow:
                cands.append((name, size))
        qa = [q for q in self.qalias if q not in shadow]
        if qa and r.random() < 0.2:
            return r.choice(qa)
        if not cands:
            return r.choice(qps) if qps else "r[0]"
        name, size = r.choice(cands)
        return f"{name}[{self.index(params, size)}]"

    def number(self, params, allow_float=True):
        r = self.rng
        ips = [p for p, role in params if role == "i"]
        c = r.random()
        if ips and c < 0.4:
            return r.choice(ips)
        ls = [l for l in self.lets if l not in dict(params)]
        if ls and c < 0.55:
            return r.choice(ls)
        if allow_float and r.random() < 0.15:
            return r.choice(["1.5", "2.0", "0.25", "-3.0", "100.0"])
        return str(r.choice([0, 1, 1, 2, 2, 3]))

    def count(self, params):
        r = self.rng
        ips = [p for p, role in params if role == "i"]
        if ips and r.random() < 0.4:
            return r.choice(ips)
        ls = [l for l in self.lets if l not in dict(params)]
        if ls and r.random() < 0.25:
            return r.choice(ls)
        return str(r.choice([0, 1, 2, 2, 3]))

    def whole_reg(self, params):
        r = self.rng
        rps = [p for p, role in params if role == "reg"]
        if rps and r.random() < 0.5:
            return r.choice(rps)
        names = [n for n in list(self.regs) + list(self.ralias) if n not in dict(params)]
        return r.choice(names) if names else "r"

    def arg_for(self, role, params):
        r = self.rng
        if r.random() < self.wild:
            role = r.choice(["q", "i", "reg"])
        if role == "q":
            return self.qubit(params)
        if role == "i":
            return self.number(params)
        return self.whole_reg(params)

    # --- statements
    def gate(self, params, nosub=False):
        r = self.rng
        # the builder refuses a call of a subcircuit-containing macro inside a parallel or subcircuit block
        cands = [m for m in self.macros if not (nosub and m[2] and r.random() < 0.97)]
        if cands and r.random() < 0.45:
            name, mps, hs = r.choice(cands)
            if hs:
                self._cur_has_sub = True
            return name + "".join(" " + self.arg_for(role, params) for _, role in mps)
        if self.mode != "nogates":
            name = r.choice(list(SIG))
            sig = SIG[name]
        else:
            name = r.choice([g for g in ["G0", "G1", "G2", "G3", "prepare_all", "measure_all"] if g not in self.special])
            if name not in self.anon:
                self.anon[name] = "" if name.endswith("_all") else "".join(r.choice("qqi") for _ in range(r.randrange(0, 4)))
            sig = self.anon[name]
        return name + "".join(" " + self.arg_for(ch, params) for ch in sig)

    def seq_items(self, params, depth, in_sub, in_macro):
        r = self.rng
        items = []
        for _ in range(r.randrange(1, 4 if depth else 5)):
            c = r.random()
            if depth >= 3 or c < 0.5:
                items.append(self.gate(params, in_sub))
            elif c < 0.65:
                items.append(f"loop {self.count(params)} " + self.block(params, depth + 1, in_sub, in_macro))
            elif c < 0.8:
                items.append(self.par(params, depth + 1, in_sub, in_macro))
            elif c < 0.95 and not in_sub:
                self._cur_has_sub = True
                cnt = (self.count(params) + " ") if r.random() < 0.6 else ""
                items.append(f"subcircuit {cnt}" + self.seq(params, depth + 1, True, in_macro))
            else:
                items.append(self.gate(params, in_sub))
        return items

    def seq(self, params, depth, in_sub, in_macro):
        return "{ " + "; ".join(self.seq_items(params, depth, in_sub, in_macro)) + " }"

    def par(self, params, depth, in_sub, in_macro):
        r = self.rng
        items = []
        for _ in range(r.randrange(1, 4)):
            if depth < 3 and r.random() < 0.3:
                items.append(self.seq(params, depth + 1, True, in_macro))  # no subcircuit inside a parallel block
            else:
                items.append(self.gate(params, True))
        return "< " + " | ".join(items) + " >"

    def block(self, params, depth, in_sub, in_macro):
        return self.par(params, depth, in_sub, in_macro) if self.rng.random() < 0.25 else self.seq(params, depth, in_sub, in_macro)

    def macro(self, idx):
        r = self.rng
        names = r.sample(PARAM_POOL, r.randrange(0, 4))
        params = [(p, r.choice(["q", "q", "i", "i", "reg"])) for p in names]
        self._cur_has_sub = False
        body = self.block(params, 1, False, True)
        name = self.special.pop() if self.special and r.random() < 0.6 else f"M{idx}"
        text = f"macro {name} " + " ".join(names) + (" " if names else "") + body
        self.macros.append((name, params, self._cur_has_sub))
        return text

    def program(self):
        r = self.rng
        lines = self.header()
        for i in range(r.choice([0, 1, 1, 2, 2, 3, 4])):
            lines.append(self.macro(i))
        for it in self.seq_items([], 0, False, False):
            lines.append(it)
        return "\n".join(lines) + "\n"


def gen_case(rng, idx, thorough):
    c0 = rng.random()
    # "gates_nopm": the injected gate set WITHOUT prepare_all / measure_all
    mode = "gates" if c0 < 0.6 else "nogates" if c0 < 0.85 else "gates_nopm"
    wild = rng.choice([0.0, 0.0, 0.0, 0.01, 0.03])
    g = Gen(rng, mode, wild)
    text = g.program()
    case = {"id": idx, "text": text, "mode": mode, "preserve": rng.random() < 0.4, "overrides": {}, "mutate": None,
            "prepare": None, "measure": None}
    if g.lets and rng.random() < 0.4:
        for l in g.lets:
            if rng.random() < 0.5:
                case["overrides"][l] = rng.choice([0, 1, 2, 3, 2.0, 1.5]) if rng.random() < 0.9 else rng.choice([-1, 7])
    if rng.random() < 0.12:
        # (which gate statement, "drop" | "add"): wrong arity can only be made on the objects
        case["mutate"] = [rng.randrange(0, 6), rng.choice(["drop", "add"])]
    c = rng.random()
    if c < 0.15:
        case["prepare"] = rng.choice(["prepare_all", "X", "P", "nosuch", "G0", "M0", "measure_all"])
    elif c < 0.3:
        case["prepare"] = {"name": rng.choice(["prep", "prepare_all"]), "busy": rng.random() < 0.5,
                           "params": rng.choice([[], [], [], [["q", "QUBIT"]]])}
    c = rng.random()
    if c < 0.15:
        case["measure"] = rng.choice(["measure_all", "Y", "PF", "nosuch", "G1", "M1", "prepare_all"])
    elif c < 0.3:
        case["measure"] = {"name": rng.choice(["meas", "measure_all"]), "busy": rng.random() < 0.5,
                           "params": rng.choice([[], [], [], [["k", "INT"]]])}
    return case


def gen_cases(seed, n, thorough):
    rng = random.Random(seed)
    return [gen_case(rng, i, thorough) for i in range(n)]


# ------------------------------------------------------------------------------------------------
# real side

def build_circuit(case):
    kw = {"autoload_pulses": False}
    if case["mode"] == "gates":
        kw["inject_pulses"] = GATES
    elif case["mode"] == "gates_nopm":
        kw["inject_pulses"] = {k: v for k, v in GATES.items() if k not in ("prepare_all", "measure_all")}
    c = parse_jaqal_string(case["text"], **kw)
    if case.get("mutate"):
        which, how = case["mutate"]
        calls = []

        def walk(s):
            if isinstance(s, GateStatement):
                if isinstance(s.gate_def, Macro):
                    calls.append(s)
            elif isinstance(s, LoopStatement):
                walk(s.statements)
            else:
                for x in s.statements:
                    walk(x)

        walk(c.body)
        if calls:
            g = calls[which % len(calls)]
            if how == "drop" and g._parameters:
                g._parameters.pop(next(reversed(g._parameters)))
            else:
                g._parameters["extra__"] = 1
    return c


def make_def(spec):
    if spec is None or isinstance(spec, str):
        return spec
    params = [Parameter(n, getattr(ParamType, k)) for n, k in spec["params"]]
    cls = BusyGateDefinition if spec["busy"] else GateDefinition
    return cls(spec["name"], params)


def outcome(f):
    try:
        return {"ok": f()}
    except RecursionError:
        return {"err": "RecursionError"}
    except Exception as e:  # noqa
        return {"err": type(e).__name__}


def strip(d):
    """The model's circuit JSON has no "keys" entry and keeps no name lists of usepulses."""
    d = dict(d)
    keys = d.pop("keys", None)
    d["usepulses"] = [[m, n if isinstance(n, str) else "[…]"] for m, n in d["usepulses"]]
    return d, keys


def canon(j):
    """normalise a circuit JSON for comparison (gate definitions: a missing "unitary" is False)"""
    if isinstance(j, dict):
        out = {k: canon(v) for k, v in j.items()}
        if "tag" in out and "params" in out and "unitary" not in out:
            out["unitary"] = False
        return out
    if isinstance(j, list):
        return [canon(x) for x in j]
    return j


# --- implementation meaning, read off an expanded circuit

def _fq(reg, idx):
    return [reg.name, str(int(idx))]


def impl_arg(v):
    if isinstance(v, Constant):
        v = v.value
        while isinstance(v, Constant):
            v = v.value
    if isinstance(v, (int, float)):
        return {"n": dump.num(v)}
    if isinstance(v, NamedQubit):
        reg, idx = v.resolve_qubit()
        return {"q": _fq(reg, idx)}
    if isinstance(v, Register):
        size = v.size
        while isinstance(size, Constant):
            size = size.value
        return {"r": [_fq(*v.resolve_qubit(i)) for i in range(int(size))]}
    raise ValueError(f"unresolved argument {v!r}")


def _intval(v):
    while isinstance(v, Constant):
        v = v.value
    if isinstance(v, float):
        if v != int(v):
            raise ValueError("non-integral count")
        v = int(v)
    if not isinstance(v, int):
        raise ValueError(f"unresolved count {v!r}")
    return str(v)


def impl_sem(s):
    if isinstance(s, GateStatement):
        if isinstance(s.gate_def, Macro):
            raise ValueError("macro call left")
        return {"g": s.name, "args": [impl_arg(v) for v in s.parameters.values()]}
    if isinstance(s, LoopStatement):
        return {"l": _intval(s.iterations), "body": impl_sem(s.statements)}
    return {"b": [impl_sem(x) for x in s.statements], "par": s.parallel, "sub": s.subcircuit, "it": _intval(s.iterations)}


def norm(s):
    if "g" in s:
        return s
    if "l" in s:
        return {"l": s["l"], "body": norm(s["body"])}
    return {"b": norm_list(s["par"], s["b"]), "par": s["par"], "sub": s["sub"], "it": s["it"]}


def norm_list(par, l):
    out = []
    for s in l:
        if "b" in s and not s["sub"]:
            if s["par"] == par:
                out.extend(norm_list(par, s["b"]))
            else:
                out.append({"b": norm_list(s["par"], s["b"]), "par": s["par"], "sub": False, "it": "1"})
        else:
            out.append(norm(s))
    return out


def numeric(j):
    """identify an integral float with the int of the same value"""
    if isinstance(j, dict):
        if set(j) == {"f"}:
            neg, mant, exp = j["f"]
            if int(exp) >= 0:
                return {"i": str((-1 if neg else 1) * int(mant) * 10 ** int(exp))}
            return j
        return {k: numeric(v) for k, v in j.items()}
    if isinstance(j, list):
        return [numeric(x) for x in j]
    return j


# --- reference interpreter (call-by-value on the UNEXPANDED circuit; independent of the Lean side)

class RefError(Exception):
    pass


def ref_num(v, env, ov):
    if isinstance(v, Constant):
        if v.name in ov:
            return ov[v.name]
        return ref_num(v.value, env, ov)
    if isinstance(v, Parameter):
        x = env.get(v.name)
        if not (isinstance(x, tuple) and x[0] == "n"):
            raise RefError("param not a number")
        return x[1]
    if isinstance(v, (int, float)) and not isinstance(v, bool):
        return v
    raise RefError("not a number")


def ref_int(v, env, ov):
    x = ref_num(v, env, ov)
    if isinstance(x, float):
        if x != int(x):
            raise RefError("not integral")
        x = int(x)
    return x


def ref_reg(v, env, ov):
    if isinstance(v, Parameter):
        x = env.get(v.name)
        if not (isinstance(x, tuple) and x[0] == "r"):
            raise RefError("param not a register")
        return x[1]
    if not isinstance(v, Register):
        raise RefError("not a register")
    if v.fundamental:
        k = ref_int(v._size, env, ov)
        if k < 1:
            raise RefError("size")
        return [(v.name, i) for i in range(k)]
    src = ref_reg(v.alias_from, env, ov)
    sl = v.alias_slice
    if sl is None:
        return src
    a = 0 if sl.start is None else ref_int(sl.start, env, ov)
    st = 1 if sl.step is None else ref_int(sl.step, env, ov)
    e = len(src) if sl.stop is None else ref_int(sl.stop, env, ov)
    if st == 0:
        raise RefError("zero step")
    out = []
    for i in range(a, e, st):
        if i < 0 or i >= len(src):
            raise RefError("slice leaves source")
        out.append(src[i])
    return out


def ref_qubit(v, env, ov):
    if isinstance(v, Parameter):
        x = env.get(v.name)
        if not (isinstance(x, tuple) and x[0] == "q"):
            raise RefError("param not a qubit")
        return x[1]
    if not isinstance(v, NamedQubit):
        raise RefError("not a qubit")
    i = ref_int(v.alias_index, env, ov)
    l = ref_reg(v.alias_from, env, ov)
    if i < 0 or i >= len(l):
        raise RefError("index out of range")
    return l[i]


def ref_arg(v, env, ov):
    if isinstance(v, Parameter):
        if v.name not in env:
            raise RefError("unbound")
        return env[v.name]
    if isinstance(v, NamedQubit):
        return ("q", ref_qubit(v, env, ov))
    if isinstance(v, Register):
        return ("r", ref_reg(v, env, ov))
    return ("n", ref_num(v, env, ov))


def ref_arg_json(a):
    if a[0] == "n":
        return {"n": dump.num(a[1])}
    if a[0] == "q":
        return {"q": [a[1][0], str(a[1][1])]}
    return {"r": [[q[0], str(q[1])] for q in a[1]]}


def ref_stmt(s, env, ov, macros):
    if isinstance(s, GateStatement):
        vs = [ref_arg(v, env, ov) for v in s.parameters.values()]
        if s.name in macros:
            m = macros[s.name]
            if len(vs) != len(m.parameters):
                raise RefError("arity")
            return ref_stmt(m.body, {p.name: a for p, a in zip(m.parameters, vs)}, ov, macros)
        return {"g": s.name, "args": [ref_arg_json(a) for a in vs]}
    if isinstance(s, LoopStatement):
        return {"l": str(ref_int(s.iterations, env, ov)), "body": ref_stmt(s.statements, env, ov, macros)}
    return {"b": [ref_stmt(x, env, ov, macros) for x in s.statements], "par": s.parallel, "sub": s.subcircuit,
            "it": str(ref_int(s.iterations, env, ov))}


# --- C09 helpers on dumps

def spell(s, prep, meas):
    if "g" in s:
        return s
    if "l" in s:
        return {"l": s["l"], "body": spell(s["body"], prep, meas)}
    inner = [spell(x, prep, meas) for x in s["b"]]
    if s["sub"]:
        inner = [prep] + inner + [meas]
    return {"b": inner, "par": s["par"], "sub": False, "it": {"i": "1"}}


def has_sub(s):
    if "g" in s:
        return False
    if "l" in s:
        return has_sub(s["body"])
    return s["sub"] or any(has_sub(x) for x in s["b"])


def flat(s):
    if "g" in s:
        return [(s["g"], json.dumps(s["args"], sort_keys=True))]
    if "l" in s:
        return flat(s["body"])
    return [g for x in s["b"] for g in flat(x)]


def flat_bracketed(s, p, m):
    if "g" in s:
        return [(s["g"], json.dumps(s["args"], sort_keys=True))]
    if "l" in s:
        return flat_bracketed(s["body"], p, m)
    inner = [g for x in s["b"] for g in flat_bracketed(x, p, m)]
    return [p] + inner + [m] if s["sub"] else inner


def shape(s):
    """loop counts, block kinds, subcircuit flags, iteration counts; gates dropped, same-kind non-subcircuit blocks spliced"""
    if "g" in s:
        return None
    if "l" in s:
        return ["loop", s["l"], shape(s["body"])]
    return ["blk", s["par"], s["sub"], s["it"], shape_list(s["par"], s["b"])]


def shape_list(par, l):
    out = []
    for x in l:
        if "g" in x:
            continue
        if "b" in x and not x["sub"] and x["par"] == par:
            out.extend(shape_list(par, x["b"]))
        else:
            out.append(shape(x))
    return out


def gate_names(s, acc):
    if "g" in s:
        acc.append((s["g"], s["def"]["tag"]))
    elif "l" in s:
        gate_names(s["body"], acc)
    else:
        for x in s["b"]:
            gate_names(x, acc)
    return acc


def real_side(case):
    """everything computed on the real code for one case"""
    res = {"parse": None}
    try:
        c = build_circuit(case)
    except Exception as e:  # noqa
        res["parse"] = type(e).__name__
        return res
    try:
        res["dump"] = dump.circuit(c)
    except dump.Undumpable as e:
        res["parse"] = "Undumpable"
        return res
    res["circuit"] = c
    res["em"] = outcome(lambda: dump.circuit(expand_macros(c, preserve_definitions=case["preserve"])))
    res["es"] = outcome(lambda: dump.circuit(expand_subcircuits(c, make_def(case["prepare"]), make_def(case["measure"]))))
    ov = case["overrides"]

    def impl_meaning():
        e = expand_macros(fill_in_let(c, dict(ov)))
        return norm(impl_sem(e.body))

    res["im"] = outcome(impl_meaning)
    return res


def choice_json(spec):
    if spec is None or isinstance(spec, str):
        return spec
    return {"name": spec["name"], "tag": "busy" if spec["busy"] else "native", "params": spec["params"], "unitary": False}


def run_driver(driver, reqs):
    if not reqs:
        return []
    p = subprocess.run([driver], input="\n".join(json.dumps(r) for r in reqs) + "\n", capture_output=True, text=True)
    lines = [l for l in p.stdout.split("\n") if l.strip()]
    if len(lines) != len(reqs):
        raise RuntimeError(f"driver answered {len(lines)} lines for {len(reqs)} requests: {p.stderr[:500]}")
    out = []
    for l in lines:
        j = json.loads(l)
        if "out" not in j:
            raise RuntimeError(f"driver error: {j}")
        out.append(j["out"])
    return out


def cmp_pass(model, impl_outcome):
    """model {"ok": circuit}|{"err": cls} vs implementation outcome (dump with keys)"""
    if "err" in impl_outcome:
        return model == impl_outcome, impl_outcome
    d, _ = strip(impl_outcome["ok"])
    ij = {"ok": canon(d)}
    mj = {"ok": canon(model["ok"])} if "ok" in model else model
    return mj == ij, ij


def oracles(case, res, out):
    """the properties on the real code alone"""
    c = res["circuit"]
    d0 = res["dump"]
    macro_names = set(d0["keys"]["macros"])

    def rec(name, ok, detail=""):
        o = out.setdefault(name, {"cases": 0, "failures": []})
        o["cases"] += 1
        if not ok:
            o["failures"].append({"case": case, "detail": detail})

    em = res["em"]
    # every rejection is a JaqalError (no TypeError / AttributeError / RecursionError escapes)
    rec("C04_total_class", "ok" in em or em["err"] == "JaqalError", f"got {json.dumps(em)[:200]}")
    rec("C09_total_class", "ok" in res["es"] or res["es"]["err"] == "JaqalError", f"got {json.dumps(res['es'])[:200]}")
    if "ok" in em:
        d1 = em["ok"]
        names = gate_names(d1["body"], [])
        bad = [n for n, tag in names if n in macro_names or tag == "macro"]
        rec("C04_no_calls", not bad, f"macro calls left: {bad[:3]}")
        hdr_ok = all(d1[k] == d0[k] for k in ("constants", "registers", "natives", "usepulses")) and \
            all(d1["keys"][k] == d0["keys"][k] for k in ("constants", "registers", "natives")) and \
            (d1["macros"] == (d0["macros"] if case["preserve"] else []))
        rec("C04_header", hdr_ok, "header changed")
        # shape: compare with the shape of the reference expansion is circular; the direct statement is about the
        # statements that are not macro calls: outside macro bodies nothing but calls may change
        if not any(tag == "macro" for _, tag in gate_names(d0["body"], [])):
            rec("C04_shape(no calls: body unchanged up to splicing)", shape(d1["body"]) == shape(d0["body"]) and
                flat(d1["body"]) == flat(d0["body"]), "a circuit without calls changed")
        again = outcome(lambda: dump.circuit(expand_macros(expand_macros(c, preserve_definitions=case["preserve"]),
                                                           preserve_definitions=case["preserve"])))
        rec("C04_idempotent", again == em, "second expansion differs")
        # meaning: reference interpretation of the unexpanded circuit (declared values) vs the expanded circuit
        try:
            ref = norm(ref_stmt(c.body, {}, {}, c.macros))
        except RefError:
            ref = None
        if ref is not None:
            try:
                e = expand_macros(c)
                got = norm(impl_sem(e.body))
            except Exception as ex:  # noqa
                got = f"{type(ex).__name__}: {ex}"
            rec("C04_meaning_ref", got == ref, f"reference {json.dumps(ref)[:300]} / expanded {json.dumps(got)[:300]}")
    if case.get("mutate"):
        # a reachable call with the wrong number of arguments
        def reach(s):
            if isinstance(s, GateStatement):
                return isinstance(s.gate_def, Macro) and len(s.parameters) != len(s.gate_def.parameters)
            if isinstance(s, LoopStatement):
                return reach(s.statements)
            return any(reach(x) for x in s.statements)

        if reach(c.body):
            # rejected; the class is JaqalError unless a statement expanded earlier fails first with its own error
            rec("C04_arity", "err" in em, f"got {json.dumps(em)[:200]}")
            if "err" in em and em["err"] != "JaqalError":
                rec("C04_arity(info: an ill-typed call expanded earlier escaped as " + em["err"] + ")", True)
    es = res["es"]
    if "ok" in es:
        d2 = es["ok"]
        bodies = [d2["body"]] + [m["body"] for m in d2["macros"]]
        rec("C09_none_left", not any(has_sub(b) for b in bodies), "subcircuit block left")
        gates_used = [g for b in bodies for g in gate_names(b, [])]
        p = make_def(case["prepare"])
        m = make_def(case["measure"])

        def chosen(user, dflt):
            if user is not None and not isinstance(user, str):
                return dump.gatedef(user)
            name = user if isinstance(user, str) else dflt
            if name in c.native_gates:
                return dump.gatedef(c.native_gates[name])
            return {"name": name, "tag": "native", "params": [], "unitary": False}

        pd, md = chosen(p, "prepare_all"), chosen(m, "measure_all")
        pj = {"g": pd["name"], "def": pd, "args": []}
        mj = {"g": md["name"], "def": md, "args": []}
        want_body = spell(d0["body"], pj, mj)
        want_macros = [{"m": mm["m"], "params": mm["params"], "body": spell(mm["body"], pj, mj)} for mm in d0["macros"]]
        rec("C09_spell", d2["body"] == want_body and d2["macros"] == want_macros, "not the tree map")
        rec("C09_header", all(d2[k] == d0[k] for k in ("constants", "registers", "natives", "usepulses")) and
            d2["keys"] == d0["keys"], "header changed")
        pf, mf = (pd["name"], "[]"), (md["name"], "[]")
        rec("C09_flat", flat(d2["body"]) == flat_bracketed(d0["body"], pf, mf), "flat sequence")
        again = outcome(lambda: dump.circuit(expand_subcircuits(expand_subcircuits(c, p, m), p, m)))
        rec("C09_idempotent", again == es, "second expansion differs")
    # a bounding NAME (the caller's string or the default) that is a macro of the circuit: always rejected
    def bname(user, dflt):
        return None if isinstance(user, dict) else (user if isinstance(user, str) else dflt)

    clash = [n for n in (bname(case["prepare"], "prepare_all"), bname(case["measure"], "measure_all"))
             if n is not None and n in c.macros]
    if clash:
        rec("C09_macro_clash(rejected with JaqalError)", es == {"err": "JaqalError"}, f"got {json.dumps(es)[:200]}")
    if "err" in es:
        parametrised = any(isinstance(x, dict) and x["params"] for x in (case["prepare"], case["measure"])) or \
            any(isinstance(x, str) and x in c.native_gates and c.native_gates[x].parameters
                for x in (case["prepare"], case["measure"]))
        subs = has_sub(d0["body"]) or any(has_sub(m["body"]) for m in d0["macros"])
        rec("C09_rejects_only_clash_or_parametrised_bounds", es == {"err": "JaqalError"} and
            (bool(clash) or (parametrised and subs)), f"got {es}")


def _trunc(l, k=20):
    return l[:k]


def run(seed: int, n: int, driver: str = DEFAULT_DRIVER, thorough: bool = False) -> dict:
    _imports()
    if thorough:
        n = n * 5
    cases = gen_cases(seed, n, thorough)
    corr = {k: {"cases": 0, "disagreements": []} for k in ("expand_macros", "expand_subcircuits", "meaning")}
    oracle = {}
    dist = Counter()
    nontrivial = set()
    sys.setrecursionlimit(3000)
    reals = []
    reqs = []
    for case in cases:
        res = real_side(case)
        reals.append(res)
        if res["parse"] is not None:
            dist[f"front end rejects: {res['parse']}"] += 1
            continue
        d, _ = strip(res["dump"])
        reqs.append({"op": "expand_macros", "circuit": d, "preserve": case["preserve"]})
        reqs.append({"op": "expand_subcircuits", "circuit": d, "prepare": choice_json(case["prepare"]),
                     "measure": choice_json(case["measure"])})
        reqs.append({"op": "meaning", "circuit": d, "env": [[k, dump.num(v)] for k, v in case["overrides"].items()]})
    outs = run_driver(driver, reqs)
    k = 0
    for case, res in zip(cases, reals):
        if res["parse"] is not None:
            continue
        m_em, m_es, m_me = outs[k], outs[k + 1], outs[k + 2]
        k += 3
        slim = {kk: case[kk] for kk in case}
        dist[f"mode={case['mode']}"] += 1
        ok, ij = cmp_pass(m_em, res["em"])
        corr["expand_macros"]["cases"] += 1
        if not ok:
            corr["expand_macros"]["disagreements"].append({"case": slim, "model": m_em, "impl": ij})
        dist["expand_macros: " + ("ok" if "ok" in res["em"] else res["em"]["err"])] += 1
        ok, ij = cmp_pass(m_es, res["es"])
        corr["expand_subcircuits"]["cases"] += 1
        if not ok:
            corr["expand_subcircuits"]["disagreements"].append({"case": slim, "model": m_es, "impl": ij})
        dist["expand_subcircuits: " + ("ok" if "ok" in res["es"] else res["es"]["err"])] += 1
        # spec validation
        im = res["im"]
        if "ok" in im and "ok" in m_me:
            corr["meaning"]["cases"] += 1
            if im["ok"] != m_me["ok"]:
                if numeric(im["ok"]) == numeric(m_me["ok"]):
                    # fill_in_let rebuilds the circuit through the builder, whose gate memo identifies `G 2.0` with an
                    # earlier `G 2` (equal keys): the argument comes back as the int.  Same number, other Python type.
                    dist["meaning: equal up to int/float type of a number (builder gate memo)"] += 1
                else:
                    corr["meaning"]["disagreements"].append({"case": slim, "model": m_me, "impl": im})
            dist["meaning: both defined"] += 1
        elif "ok" in im:
            dist["meaning: implementation accepts, spec undefined (" + m_me["err"] + ")"] += 1
            corr["meaning"]["cases"] += 1
            corr["meaning"]["disagreements"].append({"case": slim, "model": m_me, "impl": im})
        elif "ok" in m_me:
            dist["meaning: spec defined, implementation rejects (" + im["err"] + ")"] += 1
        else:
            dist["meaning: both reject"] += 1
        d0 = res["dump"]
        ncalls = sum(1 for _, tag in gate_names(d0["body"], []) if tag == "macro")
        nested = sum(1 for m in d0["macros"] for _, tag in gate_names(m["body"], []) if tag == "macro")
        dist["top-level calls: " + ("0" if ncalls == 0 else "1-2" if ncalls <= 2 else "3+")] += 1
        dist["macros calling macros" if nested else "no nested calls"] += 1
        if has_sub(d0["body"]):
            dist["subcircuit in body"] += 1
        if any(has_sub(m["body"]) for m in d0["macros"]):
            dist["subcircuit in a macro"] += 1
        if case["overrides"]:
            dist["with overrides"] += 1
        if case.get("mutate"):
            dist["mutated call"] += 1
        if ncalls or has_sub(d0["body"]):
            nontrivial.add(case["text"])
        oracles(slim, res, oracle)
    for v in corr.values():
        v["disagreements"] = _trunc(v["disagreements"])
    for v in oracle.values():
        v["failures"] = _trunc(v["failures"])
    samples = [c for c, r in zip(cases, reals) if r["parse"] is None][:4]
    return {"corr": corr, "oracle": oracle, "distribution": dict(sorted(dist.items())), "samples": samples,
            "nontrivial": len(nontrivial)}


def replay(case: dict, driver: str = DEFAULT_DRIVER) -> dict:
    _imports()
    res = real_side(case)
    if res["parse"] is not None:
        return {"model": None, "impl": {"parse": res["parse"]}, "oracle_ok": None, "detail": "front end rejects the program"}
    d, _ = strip(res["dump"])
    outs = run_driver(driver, [
        {"op": "expand_macros", "circuit": d, "preserve": case["preserve"]},
        {"op": "expand_subcircuits", "circuit": d, "prepare": choice_json(case["prepare"]), "measure": choice_json(case["measure"])},
        {"op": "meaning", "circuit": d, "env": [[k, dump.num(v)] for k, v in case["overrides"].items()]}])
    orc = {}
    oracles(case, res, orc)
    fails = {k: v["failures"][0]["detail"] for k, v in orc.items() if v["failures"]}
    ok1, i1 = cmp_pass(outs[0], res["em"])
    ok2, i2 = cmp_pass(outs[1], res["es"])
    return {"model": {"expand_macros": outs[0], "expand_subcircuits": outs[1], "meaning": outs[2]},
            "impl": {"expand_macros": i1, "expand_subcircuits": i2, "meaning": res["im"]},
            "oracle_ok": not fails,
            "detail": f"expand_macros agree={ok1}, expand_subcircuits agree={ok2}, oracle failures={fails}"}


def main():
    ap = argparse.ArgumentParser()
    ap.add_argument("--driver", default=DEFAULT_DRIVER)
    ap.add_argument("--seed", type=int, default=0)
    ap.add_argument("--n", type=int, default=2000)
    ap.add_argument("--thorough", action="store_true")
    a = ap.parse_args()
    r = run(a.seed, a.n, a.driver, a.thorough)
    bad = 0
    for k, v in r["corr"].items():
        print(f"corr {k}: {v['cases']} cases, {len(v['disagreements'])} disagreements (first 20 kept)")
        bad += len(v["disagreements"])
        for d in v["disagreements"][:3]:
            print("  DISAGREE", json.dumps(d)[:1500])
    for k, v in r["oracle"].items():
        print(f"oracle {k}: {v['cases']} cases, {len(v['failures'])} failures")
        bad += len(v["failures"])
        for d in v["failures"][:3]:
            print("  FAIL", json.dumps(d)[:1500])
    for k, v in r["distribution"].items():
        print(f"  {k}: {v}")
    print("nontrivial:", r["nontrivial"])
    sys.exit(1 if bad else 0)


if __name__ == "__main__":
    main()
