#!/venv/bin/python
"""C17, sixth round: COOPERATING SITES, PYTHON LANGUAGE TRAPS, EXCEPTION PATHS, RE-ENTRANCY, NUMERIC FORM, ACCESS ORDER.

The property (properties.jsonl, C17): Jaqal text, the CircuitBuilder / S-expression API and the Python Q-syntax
produce equal circuits for the same program; Q-syntax wraps the body in prepare_all / measure_all exactly when
the body does not already begin with a prepare or a subcircuit; anonymous registers and constants get fresh
names that never collide with user-chosen names.  Quantifier: programs expressible in all three front ends -
any lets, ONE register, gates with numeric and qubit arguments, nested sequential / parallel blocks, loops and
subcircuits with literal or let-valued counts, any user-chosen names including ones of the auto-namer's form.

Run:    PYTHONPATH=/verif /venv/bin/python /verif/harness/agents/c17_traps.py [--n N] [--seed S] [--thorough]
Import: harness.agents.c17_traps.run(seed, n, driver, thorough) / replay(case, driver)

The earlier streams (qsyn_diff, c17_scale) state every program ONCE, on fresh objects, with the strings of the
generator's own source text, and never let a call fail.  This script keeps their Prog format and reference
renderers (imported from c17_scale: render / sexpr_of / begins_prep_or_sub / circuits_equal ...) and varies HOW a
program is stated.  A case is `{"stream", "tag", "prog": Prog, "how": How}`; the whole program is in the case.

How (every key optional; absent = the plain way):
  str       "fresh" | "interned" | "asis": every name handed to the library (gate names through getattr(Q, name) and
            b.gate(name), let / register names, the command words and names inside hand-written S-expressions, the
            decorator's autoload_pulses="ignore") is a str object created at RUN TIME (never the object of a literal
            of the library: `is` would fail) / the interned object / whatever the case holds
  share     the SAME Python object in several positions: one QGate per gate name called repeatedly, one QNamedQubit
            per qubit; one argument tuple / NamedQubit, one SequentialBlockBuilder as body of every loop with that
            body, one block builder's expression appended in every scope with that block (builder API); equal
            sub-expressions of the S-expression aliased (hash-consed)
  order     the order in which text / OO / SX are run after Q-syntax; q_again: Q-syntax is run once more at the end
            and THAT circuit is compared (Q after the other entry points)
  history   calls that are REJECTED with a JaqalError (text with two defects, a Q function failing at build / half
            way inside nested blocks, a builder whose build() fails, a broken S-expression) made in the same process
            before the program is stated: the valid calls must behave as in a fresh process
  q         fail: [[k, kind]] before the k-th statement (pre-order, any depth) a Q call that is rejected with a
            JaqalError (Q.register(2.5), Q.let("x"), Q.let(None), r[0.5], Q.let([1], name), Q.usepulses(m, [..]))
            caught inside the block being written; peek: Q.lets / Q.registers read in either order half way;
            deco / calls / name_kw / anon_none / sub_absent as in c17_scale
  oo        mode uneval (names) | objects (evaluated header, returned Constant / Register objects as arguments) |
            eager (objects + loops built EAGERLY from a filled block builder: a LoopStatement made by one `build`
            goes into another); loop_first (the loop is stated before its body builder is filled);
            fail: [[k, kind]] before the k-th statement a builder call with eager evaluation that is rejected with a
            JaqalError (loop by let NAME, loop 2.5, loop over a body naming the register, register sized by a name,
            register 2.5 / 0, let "abc" / None, map by name (index, whole, slice), macro whose body is a gate,
            usepulses with a name list) - the caller catches it and goes on;
            build_mid: cb.build() is also called after the k-th top-level statement (result dropped), build_calls 2
  sx        mix: per-node choice of list / tuple; absent "" | None; prebuilt: closed sub-expressions (gates with
            numeric arguments, blocks and literal loops of them - also EMPTY ones, whose BlockStatement /
            LoopStatement is falsy - lets, literal registers) are replaced by the core objects `build` returns for them
  text      api / sep / comments as in c17_scale

Program families (streams): first statement shapes around prepare_all and its look-alikes (`first`), empty blocks /
loops / subcircuits / bodies everywhere (`falsy`), user names of the namer's form in descending / shuffled order
with anonymous objects between and names that are substrings of one another (`names`), repeated equal statements
in several scopes (`shared`), rejected calls between accepted ones (`atomic`), core objects and several builds
(`reentry`), one value as int / integral float / negative zero / let (`numform`), random small programs (`small`).
Every stream draws the other dimensions at a lower rate as well.

Oracles (real code only; the expectation is computed here from the program, never from the library):
  <stream>_equal   the four ways of writing the program (Q-syntax on the body as written; CircuitBuilder, hand-built
        S-expression and text on the body wrapped iff `begins_prep_or_sub(body)` is false) all reject with a
        JaqalError, or all accept and the circuits are pairwise `==` (both orders, `!=` false) with equal by-value
        dumps.  THE PROGRAM written through a builder / Q object is the sequence of calls that were ACCEPTED: a call
        that raised JaqalError states nothing (reading of "the same program" used for the `fail` dimensions; an
        injected call that does NOT raise JaqalError makes the case inapplicable, not a failure).
  wrap_iff / fresh_names   as in c17_scale, on the S-expression Q-syntax hands to `build`.
Numbers are Python ints / floats only (what Jaqal text can spell); numpy scalars and bools are not "the same program
in three front ends" (Q.let refuses numpy integers, the text has no spelling) and are left out on purpose.
"""
import argparse
import copy
import json
import random
import sys
from collections import Counter

from harness.agents import c17_scale as S

DEFAULT_DRIVER = S.DEFAULT_DRIVER
I, F, G, QB, PREP, MEAS = S.I, S.F, S.G, S.QB, S.PREP, S.MEAS

STREAMS = ("first", "falsy", "names", "shared", "atomic", "reentry", "numform", "small")
ORACLES = tuple(f"{s}_equal" for s in STREAMS) + ("wrap_iff", "fresh_names")


def lib():
    L = S.lib()
    if "Constant" not in L:
        from jaqalpaq.core.circuitbuilder import ParallelBlockBuilder
        L["ParallelBlockBuilder"] = ParallelBlockBuilder
        L["Constant"] = True
    return L


# ------------------------------------------------------------------------------------------ strings made at run time
def fresh(s):
    """An equal str that is a NEW object (for len >= 2): `x is "literal"` is False for it."""
    return (s + "\0")[:-1]


def namer_of(mode):
    if mode == "fresh":
        return fresh
    if mode == "interned":
        return sys.intern
    return lambda s: s


def count_stmts(body):
    n = 0
    for s in body:
        n += 1
        for k in ("seq", "par", "body"):
            if k in s:
                n += count_stmts(s[k])
    return n


class NotRejected(Exception):
    """An injected call that had to be rejected with a JaqalError was not."""


# ------------------------------------------------------------------------------------------ Q-syntax
Q_FAILS = ("reg_float", "let_str", "let_none", "index_float", "let_named_bad", "usepulses_names")


def q_fail_call(Q, regs, kind):
    if kind == "reg_float":
        Q.register(2.5)
    elif kind == "let_str":
        Q.let("x")
    elif kind == "let_none":
        Q.let(None)
    elif kind == "index_float" and regs:
        regs[0][0.5]
    elif kind == "let_named_bad":
        Q.let([1], "zz_inj")
    else:
        Q.usepulses("zz.inj", names=["a"])


def run_q(p, how):
    """-> (S-expression handed to build | None, circuit | None, error class | None, message)"""
    L = lib()
    qs = L["qs"]
    gates = S.gates_of(how)
    qv = how.get("q", {})
    nm = namer_of(how.get("str", "asis"))
    share = how.get("share", False)
    fails = {}
    for k, kind in qv.get("fail", []):
        fails.setdefault(k, []).append(kind)
    peek, peek_at = qv.get("peek", "none"), qv.get("peek_at", 0)
    captured = []
    orig = qs.build

    def spy(sexpr, **kw):
        captured.append(copy.deepcopy(sexpr))
        return orig(sexpr, **kw)

    name_kw, anon_none, sub_absent = qv.get("name_kw", False), qv.get("anon_none", False), qv.get("sub_absent", "omit")

    def declare(fn, value, name):
        if name is None:
            return fn(value, None) if anon_none else fn(value)
        return fn(value, name=nm(name)) if name_kw else fn(value, nm(name))

    def func(Q):
        lets = [declare(Q.let, S.pynum(l["value"]), l["name"]) for l in p["lets"]]

        def cnt(c):
            return int(c["i"]) if "i" in c else lets[c["ref"]]

        regs = [declare(Q.register, cnt(r["size"]), r["name"]) for r in p["regs"]]
        qgates, qubits = {}, {}

        def arg(a):
            if "ref" in a:
                return lets[a["ref"]]
            if "r" in a:
                return regs[a["r"]]
            if "q" in a:
                if not share:
                    return regs[a["q"]][cnt(a["idx"])]
                key = json.dumps(a, sort_keys=True)
                if key not in qubits:
                    qubits[key] = regs[a["q"]][cnt(a["idx"])]
                return qubits[key]
            return S.pynum(a)

        counter = [0]

        def before():
            k = counter[0]
            counter[0] += 1
            for kind in fails.get(k, ()):
                try:
                    q_fail_call(Q, regs, kind)
                except L["JaqalError"]:
                    continue
                raise NotRejected(f"Q call {kind} was not rejected")
            if peek != "none" and k == peek_at:
                a, b = (Q.lets, Q.registers) if peek == "lets_first" else (Q.registers, Q.lets)
                del a, b

        def emit(stmts):
            for s in stmts:
                before()
                if "g" in s:
                    if share:
                        if s["g"] not in qgates:
                            qgates[s["g"]] = getattr(Q, nm(s["g"]))
                        qgates[s["g"]](*[arg(a) for a in s["args"]])
                    else:
                        getattr(Q, nm(s["g"]))(*[arg(a) for a in s["args"]])
                elif "seq" in s:
                    with Q.sequential():
                        emit(s["seq"])
                elif "par" in s:
                    with Q.parallel():
                        emit(s["par"])
                elif "loop" in s:
                    with Q.loop(cnt(s["loop"])):
                        emit(s["body"])
                elif s["sub"] is None:
                    cm = Q.subcircuit() if sub_absent == "omit" else Q.subcircuit(None) if sub_absent == "none" else Q.subcircuit(argument=None)
                    with cm:
                        emit(s["body"])
                else:
                    with Q.subcircuit(cnt(s["sub"])):
                        emit(s["body"])

        emit(p["body"])
        before()        # k == number of statements: at the very end

    deco = qv.get("deco", "kw")
    if deco in ("bare", "call") and gates is not None:
        deco = "kw"

    def target(Q):
        return func(Q)

    def go():
        if deco == "bare":
            f = L["circuit"](target)
        elif deco == "call":
            f = L["circuit"]()(target)
        elif deco == "noauto":
            f = L["circuit"](inject_pulses=gates, autoload_pulses=False)(target)
        elif deco == "ignore_fresh":
            f = L["circuit"](inject_pulses=gates, autoload_pulses=fresh("ignore"))(target)
        else:
            f = L["circuit"](inject_pulses=gates, autoload_pulses="ignore")(target)
        res = None
        for _ in range(qv.get("calls", 1)):
            res = f()
        return res

    qs.build = spy
    try:
        circ, err, msg = S.guarded(go)
    finally:
        qs.build = orig
    return (captured[-1] if captured else None), circ, err, msg


# ------------------------------------------------------------------------------------------ CircuitBuilder
OO_FAILS_ANY = ("loop_name", "loop_float", "loop_regbody", "loop_badarg")
OO_FAILS_TOP = ("register_name", "register_float", "register_zero", "let_str", "let_none", "map_index", "map_whole", "map_slice",
                "macro_gatebody", "usepulses_names")


def oo_fail_call(L, cb, b, kind, ln, rn, k):
    SBB = L["SequentialBlockBuilder"]
    body = SBB()
    body.gate("Foo", 1)
    some_let = ln[0] if ln else "zz_undefined"
    some_reg = rn[0] if rn else "zz_undefined"
    new = f"zz_inj{k}"
    if kind == "loop_name":
        b.loop(some_let, body)
    elif kind == "loop_float":
        b.loop(2.5, body)
    elif kind == "loop_regbody":
        rb = SBB()
        rb.gate("Foo", ("array_item", some_reg, 0))
        b.loop(2, rb)
    elif kind == "loop_badarg":
        b.loop(2, ("sequential_block", ("gate", "Foo", some_let)))
    elif kind == "register_name":
        cb.register(new, some_let)
    elif kind == "register_float":
        cb.register(new, 2.5)
    elif kind == "register_zero":
        cb.register(new, 0)
    elif kind == "let_str":
        cb.let(new, "abc")
    elif kind == "let_none":
        cb.let(new, None)
    elif kind == "map_index":
        cb.map(new, some_reg, 0)
    elif kind == "map_whole":
        cb.map(new, some_reg)
    elif kind == "map_slice":
        cb.map(new, some_reg, slice(0, 1, 1))
    elif kind == "macro_gatebody":
        cb.macro(new, ["a"], ("gate", "Foo", "a"))
    else:
        cb.usepulses("zz.inj", names=["a"])


def run_oo(p, ln, rn, how):
    L = lib()
    CB, SBB = L["CircuitBuilder"], L["SequentialBlockBuilder"]
    gates = S.gates_of(how)
    ov = how.get("oo", {})
    nm = namer_of(how.get("str", "asis"))
    share = how.get("share", False)
    mode = ov.get("mode", "uneval")
    objects = mode in ("objects", "eager")
    eager = mode == "eager" and gates is None
    loop_first = ov.get("loop_first", False) and not eager
    sub_absent = ov.get("sub_absent", "omit")
    fails = {}
    for k, kind in ov.get("fail", []):
        fails.setdefault(k, []).append(kind)
    build_mid = ov.get("build_mid")

    def go():
        cb = CB(native_gates=gates) if ov.get("ctor", "kw") == "kw" else CB(gates)
        lets, regs = [], []

        def cnt(c):
            return int(c["i"]) if "i" in c else lets[c["ref"]]

        for n, l in zip(ln, p["lets"]):
            if objects:
                lets.append(cb.let(nm(n), S.pynum(l["value"])))
            else:
                cb.let(nm(n), S.pynum(l["value"]), unevaluated=True)
                lets.append(nm(n))
        for n, r in zip(rn, p["regs"]):
            if objects:
                regs.append(cb.register(nm(n), cnt(r["size"])))
            else:
                cb.register(nm(n), cnt(r["size"]), unevaluated=True)
                regs.append(nm(n))
        memo_args, memo_blocks = {}, {}

        def arg(a):
            if "ref" in a:
                return lets[a["ref"]]
            if "r" in a:
                return regs[a["r"]]
            if "q" in a:
                key = json.dumps(a, sort_keys=True)
                if share and key in memo_args:
                    return memo_args[key]
                v = regs[a["q"]][cnt(a["idx"])] if objects else (nm("array_item"), regs[a["q"]], cnt(a["idx"]))
                memo_args[key] = v
                return v
            return S.pynum(a)

        counter = [0]

        def before(b):
            k = counter[0]
            counter[0] += 1
            for kind in fails.get(k, ()):
                try:
                    oo_fail_call(L, cb, b, kind, ln, rn, k)
                except L["JaqalError"]:
                    continue
                raise NotRejected(f"builder call {kind} was not rejected")

        def fill(b, stmts, top=False):
            for pos, s in enumerate(stmts):
                before(b)
                if "g" in s:
                    b.gate(nm(s["g"]), *[arg(a) for a in s["args"]])
                else:
                    key = json.dumps(s, sort_keys=True)
                    if share and key in memo_blocks and "loop" not in s:
                        # the same block builder's expression once more, in this scope
                        counter[0] += count_stmts([s]) - 1
                        b.expression.append(memo_blocks[key].expression)
                    elif "loop" in s:
                        bkey = json.dumps(s["body"], sort_keys=True)
                        if share and bkey in memo_blocks:
                            counter[0] += count_stmts(s["body"])
                            nb = memo_blocks[bkey]
                            b.loop(cnt(s["loop"]), nb, unevaluated=not eager)
                        else:
                            nb = SBB()
                            if loop_first:
                                b.loop(cnt(s["loop"]), nb, unevaluated=True)
                                fill(nb, s["body"])
                            else:
                                fill(nb, s["body"])
                                b.loop(cnt(s["loop"]), nb, unevaluated=not eager)
                            memo_blocks[bkey] = nb
                    else:
                        if "seq" in s:
                            nb, items = b.block(), s["seq"]
                        elif "par" in s:
                            nb, items = b.block(parallel=True), s["par"]
                        elif s["sub"] is None:
                            nb = b.subcircuit() if sub_absent == "omit" else b.subcircuit(None) if sub_absent == "none" else b.subcircuit(iterations=None)
                            items = s["body"]
                        else:
                            nb, items = b.subcircuit(cnt(s["sub"])), s["body"]
                        fill(nb, items)
                        memo_blocks[key] = nb
                if top and build_mid is not None and pos == build_mid:
                    try:
                        cb.build()
                    except L["JaqalError"]:
                        pass

        fill(cb, p["body"], top=True)
        before(cb)
        res = None
        for _ in range(ov.get("build_calls", 1)):
            res = cb.build()
        return res

    return S.guarded(go)


# ------------------------------------------------------------------------------------------ S-expression
CLOSED_HEADS = ("gate", "sequential_block", "parallel_block", "loop")


def is_closed(node):
    """No identifier inside (only command words, numbers): `build` needs no context for it."""
    if isinstance(node, str):
        return False
    if not isinstance(node, (list, tuple)):
        return True
    if not node or node[0] not in CLOSED_HEADS:
        return False
    rest = node[2:] if node[0] == "gate" else node[1:]
    return all(is_closed(x) for x in rest)


def sx_transform(sx, how, rng):
    """The reference S-expression restated: run-time strings, list / tuple per node, aliased equal parts, core objects."""
    L = lib()
    sv = how.get("sx", {})
    nm = namer_of(how.get("str", "asis"))
    share = how.get("share", False)
    mix = sv.get("mix") is not None
    prebuilt = sv.get("prebuilt", False) and S.gates_of(how) is None
    memo = {}

    def conv(node, top=False):
        if isinstance(node, str):
            return nm(node)
        if not isinstance(node, (list, tuple)):
            return node
        key = repr(node)
        if share and key in memo:
            return memo[key]
        if prebuilt and not top and node and (
                (is_closed(node) and rng.random() < 0.5)
                or (node[0] == "let" and rng.random() < 0.4)
                or (node[0] == "register" and isinstance(node[2], int) and rng.random() < 0.4)):
            out = L["build"](conv_plain(node))
        else:
            items = [conv(x) for x in node]
            out = (tuple(items) if rng.random() < 0.5 else items) if mix else (tuple(items) if isinstance(node, tuple) else items)
        memo[key] = out
        return out

    def conv_plain(node):
        if isinstance(node, str):
            return nm(node)
        if isinstance(node, (list, tuple)):
            return [conv_plain(x) for x in node]
        return node

    return conv(sx, top=True)


def run_sx(p, ln, rn, how):
    L = lib()
    gates = S.gates_of(how)
    sv = how.get("sx", {})
    absent = "" if sv.get("absent", "") == "" else None

    def go():
        ref = S.sexpr_of(p, ln, rn, absent, False)
        sx = sx_transform(ref, how, random.Random(sv.get("mix") or 0))
        res = None
        for _ in range(sv.get("build_calls", 1)):
            res = L["build"](sx, inject_pulses=gates, autoload_pulses=False)
        return res

    return S.guarded(go)


# ------------------------------------------------------------------------------------------ history: rejected calls made before
NOISE = ("text_two_defects", "text_dup", "text_range", "q_dup", "q_midway", "q_nested_sub", "oo_undefined", "sx_loop_float", "sx_dup")


def noise(kind):
    """One call that the library must reject with a JaqalError. -> "rejected" | description of anything else"""
    L = lib()
    P, circuit, CB, build = L["parse_jaqal_string"], L["circuit"], L["CircuitBuilder"], L["build"]

    def go():
        if kind == "text_two_defects":
            P("let __c0 1\nlet __c0 2\nregister r[2]\n{ prepare_all ; Foo ( }", autoload_pulses=False)
        elif kind == "text_dup":
            P("let __c0 1; let __c0 2; register __r0[__c0]; prepare_all; Foo __r0[0]", autoload_pulses=False)
        elif kind == "text_range":
            P("register __r0[2]; loop 2 { < prepare_all | Foo __r0[5] > }", autoload_pulses=False)
        elif kind == "q_dup":
            @circuit
            def f(Q):
                Q.let(1, "__c0")
                Q.let(2, "__c0")
                a = Q.let(3)
                r = Q.register(2)
                Q.prepare_all()
                Q.Foo(r[0], a)
            f()
        elif kind == "q_midway":
            @circuit
            def f(Q):
                a = Q.let(3)
                r = Q.register(a)
                with Q.loop(a):
                    with Q.parallel():
                        Q.prepare_all()
                        Q.Foo(r[0.5])
            f()
        elif kind == "q_nested_sub":
            @circuit
            def f(Q):
                r = Q.register(2)
                with Q.subcircuit():
                    Q.Foo(r[0])
                    with Q.subcircuit(2):
                        Q.Foo(r[1])
            f()
        elif kind == "oo_undefined":
            cb = CB()
            cb.let("__c0", 2, unevaluated=True)
            cb.gate("prepare_all")
            cb.gate("Foo", ("array_item", "__r0", 0), "__c0")
            cb.build()
        elif kind == "sx_loop_float":
            build(["circuit", ["let", "__c0", 2], ["gate", "prepare_all"], ["loop", 2.5, ["sequential_block", ["gate", "Foo", "__c0"]]]])
        else:
            build(["circuit", ["register", "__r0", 2], ["register", "__r0", 3], ["gate", "Foo", ["array_item", "__r0", 0]]])

    _v, err, msg = S.guarded(go)
    return "rejected" if err == "JaqalError" else f"{kind}: {msg or 'accepted'}"


# ------------------------------------------------------------------------------------------ program families
GATE_POOL = ["Foo", "Bar", "G_1", "X", "Fo", "Foo_", "a", "q", "prepare", "measure_all", "prepare_all"]
LOOKALIKES = ["prepare", "prepare_al", "prepare_all_", "repare_all", "Prepare_all", "prepare_all.x", "x.prepare_all", "measure_all",
              "prepare_allprepare_all", "p", "all", "_all", "prepare_all0"]


def small_prog(rng, typed=False, names=None, reg=None, gate_names=None, first=None):
    if names is None:
        pool = ["a", "b", "n", "k", "ab", "q0", "__c0", "__c1", "__r0", "nn"]
        names = S.distinct_names(rng, pool, rng.choice([0, 1, 2, 3]), 0.4)
    if reg is None:
        reg = False if rng.random() < 0.1 else None if rng.random() < 0.4 else next(n for n in ["q", "r", "__r0", "__c5", "reg"] if n not in names)
    return S.Small(rng, typed, names, reg, gate_names or ["Foo", "Bar", "G_1", "prepare_all", "measure_all", "X"], first).prog()


def tail(rng, k=None):
    return [G(rng.choice(["Foo", "Bar"]), I(rng.randrange(4))) for _ in range(rng.choice([0, 1, 2]) if k is None else k)]


def fam_first(rng):
    """The first statement: prepare_all / a look-alike / measure_all / a plain gate / a subcircuit / nothing, directly or as
    the first statement of nested blocks and loops, or in SECOND position."""
    what = rng.choice(["prep", "prep", "prep", "look", "look", "meas", "gate", "sub", "empty"])
    g = dict(PREP) if what == "prep" else G(rng.choice([n for n in LOOKALIKES if S.gate_name_ok(n)])) if what == "look" else \
        dict(MEAS) if what == "meas" else G("Foo", I(1)) if what == "gate" else {"sub": rng.choice([None, I(3)]), "body": [G("Foo", I(1))]}
    inner = [] if what == "empty" else [g]
    shape = rng.choice(["direct", "direct", "seq", "par", "loop", "loop0", "seq_par", "par_seq", "loop_par", "loop_loop", "seq_par_seq", "second",
                        "second_in_seq", "after_empty"])
    if what == "sub" and shape in ("par", "seq_par", "par_seq", "loop_par", "seq_par_seq"):
        shape = "seq"
    more = tail(rng)
    if shape == "direct":
        first = inner
    elif shape == "seq":
        first = [{"seq": inner + more}]
    elif shape == "par":
        first = [{"par": inner + more}]
    elif shape == "loop":
        first = [{"loop": I(rng.choice([1, 2, 5])), "body": inner + more}]
    elif shape == "loop0":
        first = [{"loop": I(0), "body": inner}]
    elif shape == "seq_par":
        first = [{"seq": [{"par": inner + more}] + tail(rng)}]
    elif shape == "par_seq":
        first = [{"par": [{"seq": inner + more}] + tail(rng)}]
    elif shape == "loop_par":
        first = [{"loop": I(2), "body": [{"par": inner}] + more}]
    elif shape == "loop_loop":
        first = [{"loop": I(2), "body": [{"loop": I(3), "body": inner}]}]
    elif shape == "seq_par_seq":
        first = [{"seq": [{"par": [{"seq": inner}]}]}]
    elif shape == "second":
        first = [G("Foo", I(0))] + inner
    elif shape == "second_in_seq":
        first = [{"seq": [G("Foo", I(0))] + inner}]
    else:
        first = [{"seq": []}] + inner
    body = first + tail(rng)
    if what == "prep" and rng.random() < 0.5:
        body.append(dict(MEAS))
    lets = [{"name": rng.choice([None, "n"]), "value": I(2)}] if rng.random() < 0.4 else []
    regs = [{"name": rng.choice([None, "q"]), "size": I(2)}] if rng.random() < 0.5 else []
    if regs:
        body.append(G("Bar", QB(1)))
    return {"lets": lets, "regs": regs, "body": body}, f"{what}/{shape}"


def fam_falsy(rng):
    """Empty blocks, loops, subcircuits, bodies: first / between / last, alone, nested in one another."""
    lets = [{"name": rng.choice([None, "n", "__c0"]), "value": I(rng.choice([0, 1, 2]))}] if rng.random() < 0.6 else []
    regs = [{"name": rng.choice([None, "q"]), "size": I(2)}] if rng.random() < 0.5 else []
    cnt = lambda lits: {"ref": 0} if lets and rng.random() < 0.4 else I(rng.choice(lits))
    pieces = {
        "seq": lambda: {"seq": []}, "par": lambda: {"par": []},
        "loop": lambda: {"loop": cnt([0, 1, 2]), "body": []},
        "sub": lambda: {"sub": rng.choice([None, I(1), I(4)]), "body": []},
        "seq_par": lambda: {"seq": [{"par": []}]}, "par_seq": lambda: {"par": [{"seq": []}]},
        "loop_par": lambda: {"loop": cnt([0, 2]), "body": [{"par": []}]},
        "loop_loop": lambda: {"loop": cnt([0, 2]), "body": [{"loop": I(0), "body": []}]},
        "sub_loop": lambda: {"sub": None, "body": [{"loop": I(2), "body": []}]},
        "par_two": lambda: {"par": [{"seq": []}, {"seq": []}]},
        "gate": lambda: G("Foo", I(rng.randrange(3))), "prep": lambda: dict(PREP), "meas": lambda: dict(MEAS),
        "qgate": lambda: G("Bar", QB(0)) if regs else G("Bar"),
        "full_seq": lambda: {"seq": [G("Foo", I(7))]},
    }
    empties = ["seq", "par", "loop", "sub", "seq_par", "par_seq", "loop_par", "loop_loop", "sub_loop", "par_two"]
    layout = rng.choice(["nothing", "only", "first", "first_prep", "middle", "last", "two", "all"])
    e = lambda: rng.choice(empties)
    kinds = {"nothing": [], "only": [e()], "first": [e(), "gate", "qgate"], "first_prep": [e(), "prep", "gate", "meas"],
             "middle": [rng.choice(["gate", "prep"]), e(), "gate"], "last": ["prep", "gate", e()], "two": [e(), e(), "gate"],
             "all": [e(), "full_seq", e(), "qgate", e()]}[layout]
    body = [pieces[k]() for k in kinds]
    # a subcircuit may not be followed by ... anything goes at top level; keep at most the generated ones
    return {"lets": lets, "regs": regs, "body": body}, f"{layout}/{'+'.join(kinds)}"


SUBSTR_FAMILIES = [["q", "q0", "q00", "qq"], ["a", "ab", "abc", "b"], ["__c", "__c0", "__c00", "__c1", "__c10"], ["r", "r0", "__r", "__r0", "__r1"],
                   ["n", "nn", "n_", "_n"], ["x", "x.x", "x.y", "y.x"], ["c0", "__c0", "_c0", "__c0_"], ["__r0", "__c0", "__r1", "__c1"]]


def fam_names(rng):
    """User names of the namer's form in descending / shuffled order with anonymous objects between; names that are
    substrings of one another; the register named like a constant and the other way round."""
    style = rng.choice(["namer_perm", "namer_perm", "namer_perm", "substr", "substr", "cross"])
    anon_reg = rng.random() < 0.5
    if style == "substr":
        fam = rng.choice(SUBSTR_FAMILIES)
        names = rng.sample(fam, rng.randrange(2, len(fam) + 1))
        reg_name = None if anon_reg else names.pop()
        seq = names + [None] * rng.choice([0, 1, 2])
        rng.shuffle(seq)
    else:
        ks = rng.sample(range(5), rng.choice([2, 2, 3, 4]))       # indices used by the user, in THIS (shuffled) order
        if rng.random() < 0.4:
            ks = sorted(ks, reverse=True)
        tm = "__c{}" if style == "namer_perm" or not anon_reg else "__r{}"
        if style == "cross":
            tm = "__r{}" if anon_reg else "__c{}"
        names = [tm.format(k) for k in ks]
        if rng.random() < 0.3:
            names.insert(rng.randrange(len(names) + 1), rng.choice(["__c07", "__c1_", "__C1", "a", "__r1", "__c10"]))
        reg_name = None
        if not anon_reg:
            reg_name = names.pop(rng.randrange(len(names))) if rng.random() < 0.6 else "q"
        seq = list(names)
        for _ in range(rng.choice([1, 1, 2, 3])):
            seq.insert(rng.randrange(len(seq) + 1), None)
    vals = [1, 2, 3, 1, 2, 2, 3, 1, 2]
    lets = [{"name": n, "value": I(vals[k % len(vals)])} for k, n in enumerate(seq)]
    size = {"ref": rng.randrange(len(lets))} if lets and rng.random() < 0.3 else I(3)
    regs = [{"name": reg_name, "size": size}]
    body = [G("Foo", *[{"ref": k} for k in range(len(lets))])] if lets else []
    body += [G("Bar", QB(0), {"r": 0})]
    if lets:
        k = rng.randrange(len(lets))
        body.append({"loop": {"ref": k}, "body": [G("Baz", {"ref": len(lets) - 1}, QB(0))]})
    if rng.random() < 0.3:
        body = [dict(PREP)] + body
    return {"lets": lets, "regs": regs, "body": body}, f"{style}/{'anon_reg' if anon_reg else 'named_reg'}"


def fam_shared(rng):
    """A few distinct statements repeated in several scopes."""
    lets = [{"name": rng.choice([None, "n"]), "value": I(2)}]
    regs = [{"name": rng.choice([None, "q"]), "size": I(3)}]
    atoms = [G("Foo", QB(0), I(1)), G("Foo", QB(0), F(1.0)), G("Bar", {"ref": 0}), G("Foo", QB({"ref": 0}), I(1)), G("Bar", I(2)), dict(PREP), dict(MEAS)]
    pick = rng.sample(atoms, 3)
    blocks = [{"seq": [pick[0], pick[1]]}, {"par": [pick[0], pick[2]]}, {"loop": rng.choice([I(2), {"ref": 0}]), "body": [pick[0], pick[1]]},
              {"loop": I(3), "body": [pick[0], pick[1]]}, {"loop": I(2), "body": []}, {"seq": []}]
    body = []
    for _ in range(rng.choice([3, 4, 5, 6])):
        r = rng.random()
        if r < 0.35:
            body.append(rng.choice(pick))
        elif r < 0.8:
            body.append(rng.choice(blocks))
        else:
            inner = [rng.choice(pick), rng.choice([b for b in blocks if "seq" not in b]), rng.choice(pick)]
            body.append({"sub": rng.choice([None, I(2), {"ref": 0}]), "body": inner} if rng.random() < 0.5 else {"seq": inner})
    if rng.random() < 0.5:
        body = body + body[:2]
    return {"lets": lets, "regs": regs, "body": copy.deepcopy(body)}, "repeat"


NUM_VALUES = [I(2), F(2.0), I(0), F(0.0), F(-0.0), I(1), F(1.0), I(3), F(3.0), I(-3), F(-3.0), F(0.5), F(1e16), I(10**16), F(1e22), I(2**53 + 1),
              F(1e-7), F(-2.5), I(2**64), F(4.0)]


def fam_numform(rng):
    """One value as int / integral float / negative zero / through a let, where it is printed, hashed, compared, used as
    a size, a count or an index."""
    lets = [{"name": rng.choice([None, f"v{k}"]), "value": rng.choice(NUM_VALUES)} for k in range(rng.choice([1, 2, 3, 4]))]
    vals = [S.pynum(l["value"]) for l in lets]
    integral = lambda lo, hi: [k for k, v in enumerate(vals) if v == int(v) and lo <= v < hi]
    size_refs = integral(1, 6)
    if size_refs and rng.random() < 0.6:
        k = rng.choice(size_refs)
        size, nq = {"ref": k}, int(vals[k])
    else:
        nq = rng.choice([1, 2, 4])
        size = I(nq)
    regs = [{"name": rng.choice([None, "q"]), "size": size}]
    idx_refs = integral(0, nq)
    cnt_refs = integral(1, 10)
    idx = lambda: {"ref": rng.choice(idx_refs)} if idx_refs and rng.random() < 0.5 else I(rng.randrange(nq))
    cnt = lambda: {"ref": rng.choice(cnt_refs)} if cnt_refs and rng.random() < 0.6 else I(rng.choice([1, 2, 3]))
    pair = rng.choice([(I(1), F(1.0)), (I(0), F(-0.0)), (F(0.0), F(-0.0)), (I(2), F(2.0)), (I(10**16), F(1e16)), (I(-3), F(-3.0))])
    body = [G("Foo", pair[0]), G("Foo", pair[1]), G("Foo", pair[0]), G("Two", pair[1], pair[0]), G("Two", pair[0], pair[1]),
            G("Bar", QB(idx()), {"ref": rng.randrange(len(lets))}), {"loop": cnt(), "body": [G("Foo", pair[1]), G("Bar", QB(idx()), rng.choice(NUM_VALUES))]}]
    rng.shuffle(body)
    body = body[:rng.choice([3, 5, 7])]
    if rng.random() < 0.5:
        body.append({"sub": cnt(), "body": [G("Foo", pair[0]), G("Foo", pair[1])]})
    return {"lets": lets, "regs": regs, "body": body}, "values"


def fam_small(rng, typed):
    if rng.random() < 0.3:
        fam = rng.choice(SUBSTR_FAMILIES)
        names = S.distinct_names(rng, fam, rng.choice([1, 2, 3]), 0.3)
        return small_prog(rng, typed, names=names, gate_names=GATE_POOL if not typed else None), "substr_names"
    return small_prog(rng, typed, gate_names=GATE_POOL if not typed and rng.random() < 0.5 else None), "random"


DEFECTS = ("dup_let", "dup_let_reg", "index_range", "float_count", "float_size", "float_index", "sub_in_sub", "sub_in_par")
# (one gate name at two arities is NOT among them: a prebuilt / eagerly built gate statement carries its own definition, so the
#  S-expression with core objects in it is not the same program as the text there)


def add_defects(rng, prog, k):
    """One or two defects every front end has to refuse (JaqalError); -> tags.  The program keeps its shape otherwise."""
    tags = []
    for _ in range(k):
        kind = rng.choice(DEFECTS)
        lets, regs, body = prog["lets"], prog["regs"], prog["body"]
        if kind == "dup_let":
            lets += [{"name": "dd", "value": I(1)}, {"name": "dd", "value": I(2)}]
        elif kind == "dup_let_reg" and regs and regs[0]["name"] is not None:
            lets.append({"name": regs[0]["name"], "value": I(1)})
        elif kind == "index_range" and regs and "i" in regs[0]["size"]:
            body.insert(rng.randrange(len(body) + 1), G("Foo", QB(int(regs[0]["size"]["i"])), I(1)))
        elif kind == "float_count":
            lets.append({"name": "half", "value": F(0.5)})
            body.insert(rng.randrange(len(body) + 1), {"loop": {"ref": len(lets) - 1}, "body": [G("Bar", I(1))]})
        elif kind == "float_size" and regs:
            lets.append({"name": "half", "value": F(2.5)})
            regs[0]["size"] = {"ref": len(lets) - 1}
        elif kind == "float_index" and regs:
            lets.append({"name": "half", "value": F(0.5)})
            body.append(G("Foo", QB({"ref": len(lets) - 1}), I(1)))
        elif kind == "sub_in_sub":
            body.append({"sub": None, "body": [G("Bar", I(1)), {"sub": I(2), "body": [G("Bar", I(1))]}]})
        elif kind == "sub_in_par":
            body.append({"par": [G("Bar", I(1)), {"seq": [{"sub": None, "body": [G("Bar", I(1))]}]}]})
        else:
            continue
        tags.append(kind)
    return tags


# ------------------------------------------------------------------------------------------ how a program is stated
def draw_fails(rng, n_stmts, kinds, k):
    return [[rng.randrange(n_stmts + 1), rng.choice(kinds)] for _ in range(k)]


def draw_how(rng, stream, prog, gates):
    hi = lambda s: 0.85 if stream == s else 0.15       # the stream's own dimension is drawn often, the others sometimes
    n = count_stmts(prog["body"])
    how = {"gates": gates}
    r = rng.random()
    how["str"] = "fresh" if r < (0.75 if stream in ("first", "names") else 0.45) else "interned" if r < 0.9 else "asis"
    how["share"] = rng.random() < hi("shared")
    order = ["text", "OO", "SX"]
    rng.shuffle(order)
    how["order"] = order
    how["q_again"] = rng.random() < (0.4 if stream in ("reentry", "atomic") else 0.1)
    if rng.random() < (0.6 if stream in ("atomic", "reentry") else 0.1):
        how["history"] = [rng.choice(NOISE) for _ in range(rng.choice([1, 1, 2, 3]))]
    alt = lambda opts, p=0.3: rng.choice(opts[1:]) if rng.random() < p else opts[0]
    q = {"deco": alt(["kw", "bare", "call", "noauto", "ignore_fresh"], 0.4), "name_kw": rng.random() < 0.15, "anon_none": rng.random() < 0.15,
         "sub_absent": alt(["omit", "none", "kw_none"]), "calls": 2 if rng.random() < hi("reentry") / 2 else 1}
    if rng.random() < hi("atomic"):
        kinds = [k for k in Q_FAILS if k != "index_float" or prog["regs"]]
        q["fail"] = draw_fails(rng, n, kinds, rng.choice([1, 1, 2, 3]))
    if rng.random() < 0.2:
        q["peek"] = rng.choice(["lets_first", "regs_first"])
        q["peek_at"] = rng.randrange(n + 1)
    how["q"] = q
    oo = {"ctor": alt(["kw", "pos"]), "mode": alt(["uneval", "objects", "eager"], 0.7 if stream in ("reentry", "falsy", "shared") else 0.35),
          "loop_first": rng.random() < 0.4, "sub_absent": alt(["omit", "none", "kw_none"])}
    if rng.random() < hi("atomic"):
        top_only = rng.random() < 0.3
        oo["fail"] = draw_fails(rng, n, OO_FAILS_TOP if top_only else OO_FAILS_ANY + OO_FAILS_TOP, rng.choice([1, 1, 2, 3]))
    if rng.random() < hi("reentry") / 2 and prog["body"]:
        oo["build_mid"] = rng.randrange(len(prog["body"]))
    if rng.random() < hi("reentry") / 2:
        oo["build_calls"] = 2
    how["oo"] = oo
    sx = {"absent": alt(["", "None"]), "mix": rng.randrange(10**6) if rng.random() < 0.5 else None,
          "prebuilt": rng.random() < (0.6 if stream in ("reentry", "falsy") else 0.15)}
    if rng.random() < hi("reentry") / 2:
        sx["build_calls"] = 2
    how["sx"] = sx
    how["text"] = {"api": alt(["anchor", "defaults", "ret_usepulses", "override_none", "override_empty", "file"], 0.2), "sep": alt(["nl", "semi", "mixed"]),
                   "comments": rng.random() < 0.1}
    return how


def gen_case(rng, stream):
    typed = False
    if stream == "first":
        prog, tag = fam_first(rng)
    elif stream == "falsy":
        prog, tag = fam_falsy(rng)
    elif stream == "names":
        prog, tag = fam_names(rng)
    elif stream == "shared":
        prog, tag = fam_shared(rng)
    elif stream == "numform":
        prog, tag = fam_numform(rng)
    elif stream in ("atomic", "reentry"):
        r = rng.random()
        prog, tag = fam_first(rng) if r < 0.2 else fam_falsy(rng) if r < 0.35 else fam_names(rng) if r < 0.5 else fam_shared(rng) if r < 0.6 else fam_small(rng, False)
    else:
        typed = rng.random() < 0.3
        prog, tag = fam_small(rng, typed)
    case = {"stream": stream, "tag": tag, "prog": prog}
    if stream in ("atomic", "reentry", "small") and not typed and rng.random() < 0.15:
        prog = case["prog"] = copy.deepcopy(prog)
        case["defects"] = add_defects(rng, prog, rng.choice([1, 2, 2]))
    case["how"] = draw_how(rng, stream, prog, "typed" if typed else "anon")
    return case


def fixed_cases():
    """Hand-written cases: one per dimension at its simplest, so that every run meets them whatever the seed."""
    out = []
    body = [dict(PREP), G("Foo", I(1), F(0.5)), G("Bar", I(2)), dict(MEAS)]
    for mode in ("fresh", "interned", "asis"):
        for first in (body, [{"seq": [{"par": [dict(PREP)]}]}] + body[1:], [{"loop": I(2), "body": [dict(PREP), G("Foo", I(1))]}], body[1:3]):
            out.append({"stream": "first", "tag": "fixed", "prog": {"lets": [], "regs": [], "body": copy.deepcopy(first)}, "how": {"gates": "anon", "str": mode}})
    for names in (["__c1", "__c0", None], [None, "__c2", "__c1", None], ["__c2", None, "__c0", None, "__c1", None], ["__r1", "__r0"], ["__c0", "__c1", None]):
        for reg in (None, "__c4", "q"):
            lets = [{"name": n, "value": I(k + 1)} for k, n in enumerate(names)]
            prog = {"lets": lets, "regs": [{"name": reg, "size": I(3)}], "body": [G("Foo", QB(0), *[{"ref": k} for k in range(len(lets))])]}
            out.append({"stream": "names", "tag": "fixed", "prog": prog, "how": {"gates": "anon", "str": "fresh"}})
    base = {"lets": [{"name": "n", "value": I(3)}], "regs": [{"name": "r", "size": I(2)}],
            "body": [dict(PREP), {"loop": {"ref": 0}, "body": [G("Foo", QB(0), F(0.25))]}, {"sub": {"ref": 0}, "body": [G("Foo", QB(1), I(1))]}, dict(MEAS)]}
    n = count_stmts(base["body"])
    for kind in OO_FAILS_ANY + OO_FAILS_TOP:
        for at in (0, 1, 2, n):
            for mode in ("uneval", "objects"):
                out.append({"stream": "atomic", "tag": "fixed", "prog": copy.deepcopy(base), "how": {"gates": "anon", "oo": {"mode": mode, "fail": [[at, kind]]}}})
    for kind in Q_FAILS:
        for at in (0, 2, n):
            out.append({"stream": "atomic", "tag": "fixed", "prog": copy.deepcopy(base), "how": {"gates": "anon", "q": {"fail": [[at, kind]]}}})
    for kind in NOISE:
        out.append({"stream": "reentry", "tag": "fixed", "prog": copy.deepcopy(base), "how": {"gates": "anon", "history": [kind], "q_again": True}})
    return out


def namer_orders(sizes):
    """EVERY order of every subset (of the given sizes) of __c0..__c3 as user names, one anonymous let at every
    position, the register anonymous (lets named __r<k> instead) or named."""
    import itertools
    out = []
    for size in sizes:
        for ks in itertools.permutations(range(4), size):
            for at in range(size + 1):
                for tm, reg in (("__c{}", "q"), ("__r{}", None), ("__c{}", None)):
                    seq = [tm.format(k) for k in ks]
                    seq.insert(at, None)
                    if tm == "__c{}" and reg is None:
                        seq.append(None)
                    lets = [{"name": nme, "value": I(k + 1)} for k, nme in enumerate(seq)]
                    prog = {"lets": lets, "regs": [{"name": reg, "size": I(2)}], "body": [G("Foo", QB(1), *[{"ref": k} for k in range(len(lets))])]}
                    out.append({"stream": "names", "tag": "orders", "prog": prog, "how": {"gates": "anon", "str": "fresh" if at % 2 else "asis"}})
    return out


def gen_cases(seed, n, thorough):
    rng = random.Random(f"c17_traps/{seed}")
    cases = fixed_cases() + namer_orders((2, 3) if thorough else (2,))
    for k in range(n):
        cases.append(gen_case(rng, STREAMS[k % len(STREAMS)]))
    return cases


# ------------------------------------------------------------------------------------------ evaluation of one case
def evaluate(case):
    """-> {"oracles": {name: None | "" | detail}, "features": [..], "text": str}"""
    L = lib()
    p, how, stream = case["prog"], case["how"], case["stream"]
    begins = S.begins_prep_or_sub(p["body"])
    pw = p if begins else S.wrapped(p)
    res = {}
    feats = [f"stream={stream}", f"tag:{stream}:{case.get('tag', '').split('/')[0]}", f"gates={how.get('gates')}", "begins_prep_or_sub" if begins else "wrapped",
             f"str={how.get('str', 'asis')}", f"share={how.get('share', False)}", f"q_again={how.get('q_again', False)}",
             f"history={len(how.get('history', []))}", f"order={''.join(x[0] for x in how.get('order', ['text', 'OO', 'SX']))}"]
    for part in ("q", "oo", "sx"):
        for k, val in how.get(part, {}).items():
            if k == "fail":
                feats += [f"{part}.fail:{kind}" for _k, kind in val]
            elif k in ("mix", "peek_at", "build_mid"):
                feats.append(f"{part}.{k}={'set' if val is not None else 'none'}")
            else:
                feats.append(f"{part}.{k}={val}")
    feats += [f"defect:{d}" for d in case.get("defects", [])]
    for kind in how.get("history", []):
        out = noise(kind)
        feats.append(f"noise:{kind}:{'rejected' if out == 'rejected' else 'NOT_REJECTED'}")

    q_sx, q_c, q_err, q_msg = run_q(p, how)

    def names_from(q_sx):
        if q_sx is None:
            return None, None, None
        lets, regs, sbody = S.header_of(q_sx)
        return lets, regs, sbody

    def q_oracles(q_sx, q_c):
        """fresh_names / wrap_iff on what Q-syntax handed to build -> names to use for the other front ends"""
        lets, regs, sbody = names_from(q_sx)
        if q_sx is None:
            res.setdefault("fresh_names", None)
            res.setdefault("wrap_iff", None)
            return S.ref_names(p), "reference"
        d = S.fresh_detail(p, lets, regs)
        res["fresh_names"] = d if not res.get("fresh_names") else res["fresh_names"]
        n = len(p["body"])
        is_wrapped = len(sbody) == n + 2 and S.is_gate(sbody[0], "prepare_all") and S.is_gate(sbody[-1], "measure_all")
        ok = len(sbody) == n if begins else is_wrapped
        w = "" if ok else (f"begins_prep_or_sub={begins} but Q-syntax handed build {len(sbody)} statements for {n} written"
                           f" (first {str(sbody[0])[:60] if sbody else None}, last {str(sbody[-1])[:60] if sbody else None})")
        if ok and q_c is not None:
            st = q_c.body.statements
            if len(st) != len(pw["body"]):
                w = f"the circuit has {len(st)} top-level statements, expected {len(pw['body'])}"
            elif not begins and not (getattr(st[0], "name", None) == "prepare_all" and getattr(st[-1], "name", None) == "measure_all"):
                w = "the circuit is not wrapped in prepare_all .. measure_all"
        res["wrap_iff"] = w if not res.get("wrap_iff") else res["wrap_iff"]
        if not d:
            return (list(lets), list(regs)), "from_Q"
        return S.ref_names(p), "reference"

    (ln, rn), src = q_oracles(q_sx, q_c)
    feats.append(f"names:{src}")
    text = S.render(pw, ln, rn, how.get("text", {}))

    def others(ln, rn, text):
        out = {}
        for which in how.get("order", ["text", "OO", "SX"]):
            if which == "text":
                out["text"] = S.run_text(text, {"gates": how.get("gates"), "text": how.get("text", {})})
            elif which == "OO":
                out["OO"] = run_oo(pw, ln, rn, how)
            else:
                out["SX"] = run_sx(pw, ln, rn, how)
        return out

    rest = others(ln, rn, text)
    if how.get("q_again", False):
        q_sx2, q_c, q_err, q_msg = run_q(p, how)
        (ln2, rn2), src2 = q_oracles(q_sx2, q_c)
        if (ln2, rn2) != (ln, rn):
            # the property fixes no names: state the program again with the names of this run
            feats.append("names:changed_between_calls")
            ln, rn = ln2, rn2
            text = S.render(pw, ln, rn, how.get("text", {}))
            rest = others(ln, rn, text)
    fronts = [("Q", q_c, q_err, q_msg)] + [(k,) + tuple(rest[k]) for k in ("OO", "SX", "text")]
    for nm_, _c, e, _m in fronts:
        feats.append(f"{nm_}:{e or 'ok'}")
    errs = [e for _n, _c, e, _m in fronts]
    name = f"{stream}_equal"
    summary = " ".join(f"{n_}={m or 'ok'}" for n_, _c, _e, m in fronts)
    if "RecursionError" in errs:
        res[name] = None
        feats.append("skipped:recursion")
    elif "NotRejected" in errs:
        res[name] = None        # an injected call was accepted: the program stated is another one; the property is silent
        feats.append("skipped:inject_not_rejected")
    elif any(e is not None and e != "JaqalError" for e in errs):
        res[name] = "non-Jaqal exception: " + summary
    elif any(errs) and not all(errs):
        res[name] = "accept/reject differs: " + summary
    elif all(errs):
        res[name] = ""
        feats.append("all_reject")
    else:
        cs = {n_: c for n_, c, _e, _m in fronts}
        pr = []
        for a, b in (("Q", "OO"), ("Q", "SX"), ("Q", "text"), ("OO", "text"), ("SX", "text")):
            pr += [f"{a} vs {b}: {x}" for x in S.circuits_equal(cs[a], cs[b])]
        res[name] = "; ".join(pr)
        feats.append("all_accept")
    return {"oracles": res, "features": feats, "text": text}


def run(seed: int, n: int, driver: str = DEFAULT_DRIVER, thorough: bool = False) -> dict:
    """The fixed cases, then `n` generated ones (the eight streams in turn)."""
    lib()
    cases = gen_cases(seed, n, thorough)
    oracle = {k: {"cases": 0, "failures": []} for k in ORACLES}
    dist = Counter()
    distinct = set()
    samples = []
    for c in cases:
        ev = evaluate(c)
        for f in ev["features"]:
            dist[f] += 1
        if c["prog"]["body"]:
            distinct.add(json.dumps(c, sort_keys=True))
        for name, detail in ev["oracles"].items():
            if detail is None:
                continue
            oracle[name]["cases"] += 1
            if detail:
                dist["FAIL:" + name] += 1
                if len(oracle[name]["failures"]) < 20:
                    oracle[name]["failures"].append({"case": c, "detail": detail + " | text expected: " + S.clip(ev["text"])})
        if c.get("tag") != "fixed" and len(samples) < 4:
            samples.append(c)
    return {"corr": {}, "oracle": oracle, "distribution": dict(sorted(dist.items())), "samples": samples, "nontrivial": len(distinct)}


def replay(case: dict, driver: str = DEFAULT_DRIVER) -> dict:
    lib()
    ev = evaluate(case)
    bad = {k: v for k, v in ev["oracles"].items() if v}
    applicable = any(v is not None for v in ev["oracles"].values())
    return {"oracle_ok": (not bad) if applicable else None,
            "detail": json.dumps({"oracles": ev["oracles"], "text_expected": S.clip(ev["text"], 2000),
                                  "fronts": [f for f in ev["features"] if f.split(":")[0] in ("Q", "OO", "SX", "text")]})}


def main():
    ap = argparse.ArgumentParser()
    ap.add_argument("--driver", default=DEFAULT_DRIVER)
    ap.add_argument("--n", type=int, default=600)
    ap.add_argument("--seed", type=int, default=0)
    ap.add_argument("--thorough", action="store_true")
    ap.add_argument("--json", action="store_true")
    a = ap.parse_args()
    r = run(a.seed, a.n, a.driver, a.thorough)
    if a.json:
        print(json.dumps(r, indent=1))
    bad = 0
    for op, v in r["oracle"].items():
        print(f"oracle {op:15s} cases={v['cases']:6d} failures={len(v['failures'])}")
        bad += len(v["failures"])
        for d in v["failures"][:3]:
            print("   ", json.dumps(d)[:1800])
    print("distribution:", json.dumps(r["distribution"]))
    print("nontrivial distinct cases:", r["nontrivial"])
    sys.exit(1 if bad else 0)


if __name__ == "__main__":
    main()
