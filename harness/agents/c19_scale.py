#!/venv/bin/python
"""C19 at SCALE and on unusual IDENTIFIERS  (oracles only, no Lean driver).

    PYTHONPATH=/verif /venv/bin/python -W ignore /verif/harness/agents/c19_scale.py [--seed 0] [--n 1200] [--thorough]   (thorough: n 4000)

time_diff and c19_edge generate programs whose blocks have at most 4 children, nesting depth <= 5, a handful of header
names and gate names `g<k>`.  A regression of the pass that only shows beyond a size (a chunk table that is grown by
doubling, a cache of 64 entries, a depth counter, a chunk size) is invisible to them.  This stream generates programs in
which ONE dimension crosses each of the thresholds 8 / 16 / 32 / 64 / 128 / 256 (sizes t-1, t, t+1, t+2, and the sizes
20, 33, 34, 40, 49, 65, 100, 129, 200; 1000 for the cheap dimensions) while everything else stays small:

  branch     <a | { g1; ...; gN }>      a parallel block one of whose branches has N steps; the other branches are a gate,
             branches of N-1 / N+1 / N+3 / N/2 / 2N steps, nothing; (variant composite) the steps of the long branch are
             themselves small parallel blocks <x|{y;z}>, <>, and the branch ends in another parallel block with a long
             branch (2-3 levels)
  width      <b1 | b2 | ... | bN>       N branches (gates, short sequential blocks, one longer one)
  seqlen     N statements in one sequential block (top level / block / subcircuit / loop body), small parallel blocks sprinkled in
  depth      alternating <..{..<..>..}..> nesting of depth N (<= 257) with gates at every level (sexp / builder / obj also
             same-kind nesting)
  pars       N consecutive parallel blocks with unequal short branches
  subs       N subcircuit blocks (counts default / 0 / 1 / small / let-valued), parallel blocks inside
  loops      N loops outside any parallel block, parallel blocks in their bodies
  header     N lets / N qubit aliases / an alias chain of N (<= 100) / N macros / a chain of N (<= 130) macros each calling
             the previous one / N usepulses statements, and a small body with a parallel block that uses some of them
  names      identifiers of N characters (gate, let, register, alias, macro, macro parameter)
  idents     a small program every name of which has an unusual but legal spelling (see NAME STYLES)
  rej_step / rej_branch / rej_depth
             a loop inside a parallel block planted at step N of a branch / in branch N of a wide block / at nesting
             depth N: JaqalError expected

Every wrapped shape is placed at top level, between other gates, inside a sequential block, inside a subcircuit, inside
a loop body, or inside a sequential branch of an outer parallel block (the steps of the inner block are then zipped
again).  Programs go through the four front ends of c19_edge (text / sexp / builder / obj).

NAME STYLES (gate names; `idents` also uses them for lets, registers, aliases, macros and macro parameters; the lexer's
IDENTIFIER is [a-zA-Z_](\\.?[a-zA-Z0-9_])*, so dotted names are legal everywhere):
  plain g7 | args (three names, identity carried by an integer argument) | same (every gate is `g`: only the multiset of
  time steps tells them apart) | dotted cal.g7, g7.v1.x | pairs g7 / cal.g7 / g7.cal in the same block | dunder __g7
  __c7 __r7 __macro__ __g7__ | kw: prefixes / extensions of keywords and of prepare_all / measure_all (loo, loops, le,
  subcircui, fro, asx, prepare_al, measure_all_, prepare_all.x, prepare_all and measure_all themselves, I_g7) | long
  (260+ characters) | native (the injected gate set of harness.gates on a register)

The reference is the one of c19_edge (computed in that script on canonical dumps of the circuit before and after the
call: gate = 1 step, sequential = sum, parallel = common start / max, loop = count copies back to back, loops opaque);
the case generators here are new.  Oracles (each a clause of C19, nothing more):
  C19s_accept       no loop inside a parallel block -> the call returns (no exception of any class)
  C19s_reject       a loop inside a parallel block -> JaqalError
  C19s_gates        multiset of gate statements unchanged           ("none is lost or duplicated")
  C19s_schedule     every gate statement keeps its execution times and its enclosing subcircuit block
  C19s_subcircuits  subcircuit blocks keep count as written, start, duration
  C19s_flat         the body is a flat sequence of gates / loops / parallel groups of gates / subcircuit blocks (flat inside)
  C19s_header       usepulses, constants, registers, aliases, macros, native gates of the result == those of the input
normalize_blocks_with_unitary_timing has one parameter (the circuit) and no defaults, so there is no option matrix here.

case = {"gen": {"dim", "size", "route", "gseed"}, "text": the program as Jaqal text (for the reader; the input of route
`text`), "fmt", "expect"}; replay regenerates the program from "gen" (a case may instead carry a full "prog" in the
c19_edge AST).
"""
import argparse
import json
import os
import random
import signal
import sys
import time
from collections import Counter

DEFAULT_DRIVER = "/verif/lean/.lake/build/bin/jaqal-model"

ORACLES = ["C19s_accept", "C19s_reject", "C19s_gates", "C19s_schedule", "C19s_subcircuits", "C19s_flat", "C19s_header"]

E = None


def _imports():
    global E
    if E is None:
        from harness.agents import c19_edge as _e
        _e._imports()
        E = _e


# ------------------------------------------------------------------------------------------------ sizes

THRESHOLDS = [8, 16, 32, 64, 128, 256]
NAMED_SIZES = [20, 33, 34, 40, 49, 65, 100, 129, 200]
ROUTES = ["text", "text", "sexp", "builder", "obj"]
DIMS = ["branch", "branch", "branch_composite", "width", "seqlen", "depth", "pars", "subs", "loops", "header", "header", "names",
        "idents", "rej_step", "rej_branch", "rej_depth"]
CHEAP_1000 = ["branch", "width", "seqlen", "pars", "rej_step", "rej_branch"]
MAX = {"depth": 257, "rej_depth": 257, "branch_composite": 258, "idents": 64}
STYLES = ["plain", "plain", "args", "same", "dotted", "pairs", "dunder", "kw", "long", "native"]

KW = ["loo", "loops", "loop_", "loop.x", "le", "lets", "let_", "ma", "maps", "mac", "macros", "macro.m", "registe",
      "registers", "subcircui", "subcircuits", "subcircuit_", "fro", "from_", "usepulse", "usepulses_", "a", "as_", "asx",
      "branc", "branchx", "impor", "imports", "prepare_al", "prepare_all_", "prepare_allx", "prepare_all.x", "prepare",
      "measure_al", "measure_all_", "measure_all.x", "measure", "prepare_all", "measure_all", "I_g", "I_", "I", "pi",
      "_", "__", "_.a", "x.prepare_all", "x.loop"]


def size_list(thorough):
    out = []
    for t in THRESHOLDS:
        out += [t - 1, t, t + 1, t + 2]
    return out + NAMED_SIZES


# ------------------------------------------------------------------------------------------------ generation context


class Cx:
    def __init__(self, rng, route, style):
        self.rng, self.route, self.style = rng, route, style
        self.free = route != "text" and rng.random() < 0.4
        self.k = 0
        self.lets = []
        self.reg = None
        self.regsize = 0
        self.maps = []
        self.macros = []
        self.usepulses = []
        self.pair_form = rng.choice(["cal.g{}", "g{}.cal", "x.g{}", "g{}.x.y"])
        self.dot_form = rng.choice(["cal.g{}", "g{}.v1.x", "a.b.c{}", "q.g{}", "g_.{}"])
        self.long_stem = rng.choice(["L", "g", "_", "a."]) * rng.choice([128, 130, 150])
        if style == "native":
            self.regsize = rng.choice([2, 3, 4])
            self.reg = ["r", ["i", self.regsize]]
            if rng.random() < 0.5:
                self.maps.append(["a", "qubit", "r", ["i", 0]])

    def uid(self):
        self.k += 1
        return self.k - 1

    def qubit(self, i):
        if i == 0 and self.maps and self.maps[0][1] == "qubit" and self.rng.random() < 0.3:
            return ["a", self.maps[0][0]]
        return ["q", "r", ["i", i]]

    def gate(self):
        """a fresh gate statement in the name style of the case"""
        rng, k, st = self.rng, self.uid(), self.style
        if st == "plain":
            return ["g", f"g{k}", []]
        if st == "args":
            return ["g", f"g{k % 3}", [["i", k]]]
        if st == "same":
            return ["g", "g", []]
        if st == "dotted":
            return ["g", self.dot_form.format(k), []]
        if st == "pairs":
            return ["g", (f"g{k // 2}" if k % 2 == 0 else self.pair_form.format(k // 2)), []]
        if st == "dunder":
            j = k % 5
            if j == 3:
                return ["g", "__macro__", [["i", k]]]
            return ["g", [f"__g{k}", f"__c{k}", f"__r{k}", "", f"__g{k}__"][j], []]
        if st == "kw":
            return ["g", KW[k % len(KW)], [["i", k]]]
        if st == "long":
            return ["g", self.long_stem + str(k), []]
        # native
        names = [n for n, s in E.SIG.items() if s.count("q") <= self.regsize] + ["prepare_all", "measure_all"]
        name = rng.choice(names)
        sig = E.SIG.get(name, "")
        qs = rng.sample(range(self.regsize), sig.count("q"))
        return ["g", name, [self.qubit(qs.pop()) if ch == "q" else ["i", k] for ch in sig]]

    def gates(self, n):
        return [self.gate() for _ in range(n)]

    def seq(self, n):
        return ["b", "seq", None, self.gates(n)]

    def small_par(self):
        """a parallel block of at most three steps"""
        r = self.rng.randrange(6)
        if r == 0:
            return ["b", "par", None, [self.gate(), self.seq(2)]]
        if r == 1:
            return ["b", "par", None, self.gates(2)]
        if r == 2:
            return ["b", "par", None, []]
        if r == 3:
            return ["b", "par", None, [self.seq(3), self.seq(1), self.gate()]]
        if r == 4:
            return ["b", "par", None, [self.seq(0), self.gate()]]
        return ["b", "par", None, [self.gate(), ["b", "seq", None, [self.gate(), ["b", "par", None, self.gates(2)]]]]]

    def count(self):
        """a small loop / subcircuit count"""
        rng = self.rng
        r = rng.random()
        ints = [n for n, v in self.lets if isinstance(v, int) and 0 <= v <= 3]
        if ints and r < 0.25:
            return ["c", rng.choice(ints)]
        return ["i", rng.choice([0, 1, 1, 2, 3])]


def ensure_lets(cx):
    if not cx.lets and cx.rng.random() < 0.5:
        cx.lets = [["n", 3], ["z", 0], ["one", 1]]


def wrap(cx, stmt, feat, reject=False):
    """place the big statement (a parallel block) somewhere -> list of body statements"""
    rng = cx.rng
    opts = ["top", "between", "block", "sub", "outer_par"]
    if not reject:
        opts.append("loop")
    w = rng.choice(opts)
    feat["wrap"] = w
    if w == "top":
        return [stmt]
    if w == "between":
        return cx.gates(rng.choice([1, 2])) + [stmt] + cx.gates(rng.choice([1, 2]))
    inner = cx.gates(rng.choice([0, 1, 2])) + [stmt] + cx.gates(rng.choice([0, 1]))
    if w == "block":
        if rng.random() < 0.3:
            return [cx.gate(), ["b", "par", None, [["b", "seq", None, inner]]], cx.gate()]
        return [cx.gate(), ["b", "seq", None, inner], cx.gate()]
    if w == "sub":
        cnt = None if rng.random() < 0.2 else cx.count()
        return cx.gates(rng.choice([0, 1])) + [["b", "sub", cnt, inner]] + cx.gates(rng.choice([0, 1]))
    if w == "loop":
        return cx.gates(rng.choice([0, 1])) + [["l", cx.count(), "seq", inner]] + cx.gates(rng.choice([0, 1]))
    # outer_par: the block sits in a sequential branch of an outer parallel block
    others = [cx.gate()] if rng.random() < 0.5 else [cx.gate(), cx.seq(rng.choice([2, 5, 40]))]
    kids = others + [["b", "seq", None, inner]]
    rng.shuffle(kids)
    return [["b", "par", None, kids]]


# ------------------------------------------------------------------------------------------------ dimensions


def branch_items(cx, n, composite, levels):
    rng = cx.rng
    items = []
    for _ in range(n):
        if composite and rng.random() < 0.35:
            items.append(cx.small_par())
        else:
            items.append(cx.gate())
    if composite and levels > 0:
        m = max(2, n // 2)
        items.append(["b", "par", None, [cx.gate(), ["b", "seq", None, branch_items(cx, m, composite, levels - 1)]]])
        items += cx.gates(rng.choice([0, 1, 3]))
    return items


def dim_branch(cx, n, feat, composite=False):
    rng = cx.rng
    long = ["b", "seq", None, branch_items(cx, n, composite, rng.choice([1, 2]) if composite else 0)]
    cfg = rng.choice(["gate", "gate", "gate+longer", "half", "double", "around", "alone", "equal", "many_gates"])
    feat["others"] = cfg
    if cfg == "gate":
        others = [cx.gate()]
    elif cfg == "gate+longer":
        others = [cx.gate(), cx.seq(n + rng.choice([1, 3, 5]))]
    elif cfg == "half":
        others = [cx.seq(n // 2)]
    elif cfg == "double":
        others = [cx.seq(2 * n if n <= 300 else n + 7)]
    elif cfg == "around":
        others = [cx.seq(n - 1), cx.seq(n + 1), cx.gate()]
    elif cfg == "equal":
        others = [cx.seq(n)]
    elif cfg == "many_gates":
        others = cx.gates(rng.choice([3, 9, 33]))
    else:
        others = []
    kids = others + [long]
    rng.shuffle(kids)
    return wrap(cx, ["b", "par", None, kids], feat)


def dim_width(cx, n, feat):
    rng = cx.rng
    kids = []
    longer = rng.randrange(n)
    for i in range(n):
        if i == longer:
            kids.append(cx.seq(rng.choice([2, 5, 9, 34])))
        elif rng.random() < 0.2:
            kids.append(cx.seq(rng.choice([0, 1, 2, 3])))
        else:
            kids.append(cx.gate())
    return wrap(cx, ["b", "par", None, kids], feat)


def dim_seqlen(cx, n, feat):
    rng = cx.rng
    items = [cx.small_par() if rng.random() < 0.1 else cx.gate() for _ in range(n)]
    w = rng.choice(["top", "sub", "loop", "branch"])
    feat["wrap"] = "seq:" + w
    if w == "top":
        return items
    if w == "sub":
        return [cx.gate(), ["b", "sub", cx.count(), items], cx.gate()]
    if w == "loop":
        return [cx.gate(), ["l", cx.count(), "seq", items], cx.gate()]
    return [["b", "par", None, [cx.gate(), ["b", "seq", None, items]]]]


def tower(cx, n, bottom_fn, feat):
    """n nested blocks, outermost parallel; bottom_fn(kind of the innermost block) gives the innermost statement"""
    rng = cx.rng
    same = 0
    kinds = []
    for lvl in range(n):
        if cx.free and kinds and rng.random() < 0.15:
            kinds.append(kinds[-1])
            same += 1
        else:
            kinds.append("par" if (not kinds or kinds[-1] == "seq") else "seq")
    inner = bottom_fn(kinds[-1])
    for kind in reversed(kinds):
        if kind == "par":
            kids = [inner]
            r = rng.random()
            if r < 0.6:
                kids.append(cx.gate())
            if r > 0.85:
                kids.append(cx.seq(rng.choice([0, 2, 3])))
            rng.shuffle(kids)
        else:
            kids = cx.gates(rng.choice([0, 0, 1, 1, 2])) + [inner] + cx.gates(rng.choice([0, 0, 1, 2]))
        inner = ["b", kind, None, kids]
    feat["same_kind_levels"] = same
    return inner


def dim_depth(cx, n, feat):
    rng = cx.rng

    def bottom(kind):
        if kind == "par":  # children of a parallel block: gates and sequential blocks
            return rng.choice([cx.gate, lambda: cx.seq(2), lambda: cx.seq(0)])()
        return rng.choice([cx.gate, cx.small_par])()

    t = tower(cx, n, bottom, feat)
    w = rng.choice(["top", "between", "sub"])
    feat["wrap"] = w
    if w == "top":
        return [t]
    if w == "between":
        return [cx.gate(), t, cx.gate()]
    return [cx.gate(), ["b", "sub", cx.count(), [cx.gate(), t]], cx.gate()]


def dim_pars(cx, n, feat):
    return [cx.small_par() for _ in range(n)]


def dim_subs(cx, n, feat):
    rng = cx.rng
    ensure_lets(cx)
    out = []
    for _ in range(n):
        body = [cx.small_par() if rng.random() < 0.5 else cx.gate() for _ in range(rng.choice([0, 1, 2, 3]))]
        out.append(["b", "sub", None if rng.random() < 0.2 else cx.count(), body])
        if rng.random() < 0.2:
            out.append(cx.gate())
    return out


def dim_loops(cx, n, feat):
    rng = cx.rng
    ensure_lets(cx)
    out = []
    for _ in range(n):
        body = [cx.small_par() if rng.random() < 0.5 else cx.gate() for _ in range(rng.choice([0, 1, 2, 3]))]
        out.append(["l", cx.count(), "seq", body])
        if rng.random() < 0.2:
            out.append(cx.small_par())
    return out


def dim_header(cx, n, feat):
    rng = cx.rng
    what = rng.choice(["lets", "maps", "mapchain", "macros", "macrochain", "usepulses"])
    feat["header"] = what
    if cx.style == "native":
        cx.style = "plain"
        cx.reg, cx.regsize, cx.maps = None, 0, []
    uses = []
    if what == "lets":
        cx.lets = [[f"c{i}", rng.choice([i, -i, i + 0.5, 0, 2**64 + i])] for i in range(n)]
        rng.shuffle(cx.lets)
        uses = [["g", "u", [["c", cx.lets[i][0]]]] for i in sorted(rng.sample(range(n), min(n, 6)))]
    elif what == "maps":
        sz = rng.choice([2, 3, n])
        cx.reg, cx.regsize = ["r", ["i", sz]], sz
        cx.maps = [[f"a{i}", "qubit", "r", ["i", i % sz]] for i in range(n)]
        uses = [["g", "u", [["a", f"a{i}"]]] for i in sorted(rng.sample(range(n), min(n, 6)))]
    elif what == "mapchain":
        n = min(n, 100)  # resolving an alias chain costs cubic time in the library (3.6 s at 129)
        cx.reg, cx.regsize = ["r", ["i", 2]], 2
        cx.maps = [[f"a{i}", "whole", "r" if i == 0 else f"a{i - 1}"] for i in range(n)]
        uses = [["g", "u", [["q", f"a{i}", ["i", i % 2]]]] for i in sorted({0, n // 2, n - 1})]
    elif what in ("macros", "macrochain"):
        if what == "macrochain":
            n = min(n, 130)
        for i in range(n):
            if what == "macrochain" and i > 0:
                body = [["g", f"m{i - 1}", [["p", "x"]]], ["b", "par", None, [["g", "v", [["p", "x"]]], cx.seq(2)]]]
            else:
                body = [["b", "par", None, [["g", "v", [["p", "x"]]], ["b", "seq", None, [["g", "w", [["p", "x"]]], cx.gate()]]]]]
                if rng.random() < 0.5:
                    body.append(["g", "t", []])
            cx.macros.append([f"m{i}", ["x"], body])
        uses = [["g", f"m{i}", [["i", i]]] for i in sorted({0, n // 2, n - 1})]
    else:
        cx.usepulses = [f"p{i}.v{i % 3}" for i in range(n)]
        uses = cx.gates(3)
    feat["size_used"] = n
    body = uses[:2] + [["b", "par", None, [cx.gate(), ["b", "seq", None, uses[2:] + cx.gates(2)]]]] + cx.gates(1)
    return body


def long_name(rng, n, i):
    stems = ["x", "_", "a.", "Z9"]
    s = stems[i % len(stems)]
    name = (s * (n // len(s) + 1))[:n]
    if name.endswith("."):
        name = name[:-1] + "z"
    # make the names of one program differ in the LAST characters only
    tail = f"_{i}"
    return name[: max(1, n - len(tail))] + tail if n > len(tail) + 1 else name + tail


def dim_names(cx, n, feat):
    rng = cx.rng
    cx.style = "plain"
    nm = [long_name(rng, n, i) for i in range(10)]
    cx.lets = [[nm[0], 3], [nm[1], 0.5]]
    cx.reg, cx.regsize = [nm[2], ["i", 2]], 2
    cx.maps = [[nm[3], "qubit", nm[2], ["i", 1]]]
    cx.macros = [[nm[4], [nm[5]], [["b", "par", None, [["g", nm[9], [["p", nm[5]]]], cx.seq(2)]]]]]
    g1 = ["g", nm[6], [["c", nm[0]], ["a", nm[3]]]]
    g2 = ["g", nm[7], [["q", nm[2], ["i", 0]], ["c", nm[1]]]]
    g3 = ["g", nm[4], [["c", nm[0]]]]
    body = [g1, ["b", "par", None, [g2, ["b", "seq", None, [g3, cx.gate(), ["g", nm[8], []]]]]],
            ["b", "sub", ["c", nm[0]], [["b", "par", None, [["g", nm[8], []], ["b", "seq", None, [g2, g1]]]]]],
            ["l", ["c", nm[0]], "seq", [g3, ["b", "par", None, [g1, cx.seq(2)]]]]]
    return body


def odd_name(cx, pool_i):
    rng = cx.rng
    k = cx.uid()
    forms = [f"cal.x{k}", f"x{k}.cal", f"a.b.c{k}", f"__c{k}", f"__r{k}", f"__g{k}__", f"_{k}", f"loo{k}", f"let{k}",
             f"lets.x{k}", f"prepare_all{k}", f"prepare_all.x{k}", f"measure_all_{k}",
             f"subcircuit{k}", f"from.x{k}", f"as{k}", f"I_x{k}", f"macro_{k}", f"map.map{k}", f"register.r{k}", f"pi{k}"]
    return forms[(pool_i + rng.randrange(len(forms))) % len(forms)]


def dim_idents(cx, n, feat):
    """n header names of each kind, all with unusual spellings; pairs differing by a dotted prefix / suffix"""
    rng = cx.rng
    cx.style = rng.choice(["dotted", "pairs", "dunder", "kw"])
    m = max(1, min(n, 64) // 4)
    feat["size_used"] = m
    base = [odd_name(cx, i) for i in range(m)]
    lets = []
    for i, b in enumerate(base):
        lets.append([b, i])
        if rng.random() < 0.5:
            lets.append(["cal." + b, i + 100])       # differs only by a dotted prefix
        if rng.random() < 0.5:
            lets.append([b + ".cal", i + 200])       # ... suffix
    cx.lets = lets
    rname = odd_name(cx, 3)
    cx.reg, cx.regsize = [rname, ["i", 3]], 3
    cx.maps = []
    for i in range(m):
        a = odd_name(cx, i + 7)
        cx.maps.append([a, "qubit", rname, ["i", i % 3]])
        if rng.random() < 0.3:
            cx.maps.append([rname + "." + a, "qubit", rname, ["i", (i + 1) % 3]])
    cx.macros = []
    for i in range(max(1, m // 2)):
        mn, pn = odd_name(cx, i + 11), odd_name(cx, i + 13)
        cx.macros.append([mn, [pn], [["b", "par", None, [["g", mn + ".impl", [["p", pn]]], cx.seq(2)]]]])
    cx.usepulses = rng.sample(["qscout.v1.std", "__p__", "loop_.x", "a.usepulses_"], rng.choice([0, 1, 2]))

    def arg():
        r = rng.random()
        if r < 0.4:
            return ["c", rng.choice(cx.lets)[0]]
        if r < 0.7:
            return ["a", rng.choice(cx.maps)[0]]
        return ["q", rname, ["i", rng.randrange(3)]]

    def gate():
        g = cx.gate()
        if rng.random() < 0.25:
            mac = rng.choice(cx.macros)
            return ["g", mac[0], [arg()]]
        extra = rng.choice([0, 1, 2])  # one arity per gate name: the extra arguments show in the name
        return ["g", g[1] + (f".e{extra}" if extra else ""), g[2] + [arg() for _ in range(extra)]]

    body = []
    for _ in range(rng.choice([2, 3, 5])):
        r = rng.random()
        if r < 0.3:
            body.append(gate())
        elif r < 0.7:
            body.append(["b", "par", None, [gate(), ["b", "seq", None, [gate() for _ in range(rng.choice([1, 2, 4]))]],
                                            ["b", "seq", None, [gate(), ["b", "par", None, [gate(), gate()]]]]]])
        elif r < 0.85:
            body.append(["b", "sub", rng.choice([None, ["i", 2], ["c", cx.lets[0][0]]]),
                         [gate(), ["b", "par", None, [gate(), ["b", "seq", None, [gate(), gate()]]]]]])
        else:
            body.append(["l", ["c", cx.lets[0][0]], "seq", [["b", "par", None, [gate(), ["b", "seq", None, [gate(), gate()]]]]]])
    return body


def planted_loop(cx):
    rng = cx.rng
    return ["l", cx.count(), "seq", cx.gates(rng.choice([0, 1, 2]))]


def dim_rej_step(cx, n, feat):
    rng = cx.rng
    ensure_lets(cx)
    items = cx.gates(n - 1) + [planted_loop(cx)] + cx.gates(rng.choice([0, 0, 1, 5]))
    kids = [["b", "seq", None, items]] + rng.choice([[], [cx.gate()], [cx.gate(), cx.seq(n + 2)], [cx.seq(max(0, n - 3))]])
    rng.shuffle(kids)
    return wrap(cx, ["b", "par", None, kids], feat, reject=True)


def dim_rej_branch(cx, n, feat):
    rng = cx.rng
    ensure_lets(cx)
    kids = [cx.gate() if rng.random() < 0.8 else cx.seq(rng.choice([0, 2, 3])) for _ in range(n - 1)]
    if cx.free and rng.random() < 0.5:
        kids.append(planted_loop(cx))
        feat["loop_direct"] = 1
    else:
        kids.append(["b", "seq", None, cx.gates(rng.choice([0, 1, 2])) + [planted_loop(cx)]])
    kids += cx.gates(rng.choice([0, 0, 1, 3]))
    return wrap(cx, ["b", "par", None, kids], feat, reject=True)


def dim_rej_depth(cx, n, feat):
    rng = cx.rng
    ensure_lets(cx)
    bottom = ["b", "seq", None, cx.gates(rng.choice([0, 1])) + [planted_loop(cx)]]
    # the tower's innermost level must be parallel for the sequential bottom to be legal text: tower() alternates from
    # an outermost parallel block, so an odd number of levels ends in a parallel one
    levels = n if n % 2 == 1 else n + 1
    free, cx.free = cx.free, False
    t = tower(cx, levels, lambda kind: bottom, feat)
    cx.free = free
    w = rng.choice(["top", "between", "sub"])
    feat["wrap"] = w
    if w == "top":
        return [t]
    if w == "between":
        return [cx.gate(), t, cx.gate()]
    return [["b", "sub", cx.count(), [t]], cx.gate()]


DIM_FN = {
    "branch": dim_branch,
    "branch_composite": lambda cx, n, feat: dim_branch(cx, n, feat, composite=True),
    "width": dim_width, "seqlen": dim_seqlen, "depth": dim_depth, "pars": dim_pars, "subs": dim_subs, "loops": dim_loops,
    "header": dim_header, "names": dim_names, "idents": dim_idents,
    "rej_step": dim_rej_step, "rej_branch": dim_rej_branch, "rej_depth": dim_rej_depth,
}


def build_case(gen):
    """gen = {"dim", "size", "route", "gseed"} -> (case for c19_edge.evaluate, features)"""
    _imports()
    dim, n, route = gen["dim"], int(gen["size"]), gen["route"]
    rng = random.Random(f"c19_scale:{gen['gseed']}:{dim}:{n}:{route}")
    style = rng.choice(STYLES)
    if n >= 500 and style == "long":
        style = "plain"
    cx = Cx(rng, route, style)
    feat = {}
    body = DIM_FN[dim](cx, n, feat)
    feat["style"] = cx.style
    prog = {"mode": "native" if cx.style == "native" else "anon", "usepulses": cx.usepulses, "lets": cx.lets,
            "reg": cx.reg, "maps": cx.maps, "macros": cx.macros, "body": body}
    fmt = rng.getrandbits(32)
    expect = "reject" if any(E.loop_in_par(s) for s in body) else "ok"
    case = {"route": route, "prog": prog, "fmt": fmt, "expect": expect, "text": E.prog_text(prog, fmt)}
    return case, feat


def gen_specs(seed, n, thorough):
    rng = random.Random(f"c19_scale:{seed}")
    sizes = size_list(thorough)
    specs = []
    # the cheap dimensions at 1000, and the seed's threshold, always
    big = [("branch", 1000), ("seqlen", 1000), ("width", 1000), ("rej_step", 1000)]
    if thorough:
        big += [(d, s) for d in CHEAP_1000 for s in (999, 1000, 1001, 1024, 1025)]
    for d, s in big:
        specs.append({"dim": d, "size": s, "route": rng.choice(ROUTES), "gseed": rng.getrandbits(32)})
    total = n * (4 if thorough else 1)
    order = list(range(len(DIMS) * len(sizes)))
    rng.shuffle(order)
    i = 0
    while len(specs) < total:
        j = order[i % len(order)]
        i += 1
        dim, size = DIMS[j % len(DIMS)], sizes[j // len(DIMS)]
        size = min(size, MAX.get(dim, 10**9))
        specs.append({"dim": dim, "size": size, "route": rng.choice(ROUTES), "gseed": rng.getrandbits(32)})
    return specs[:max(total, 1)]


def bucket(n):
    for t in (8, 16, 32, 64, 128, 256, 1000):
        if n < t:
            return f"<{t}"
    return ">=1000"


def guarded_short(fn, *a):
    """The pass under an alarm of at most 20 s (it needs < 0.2 s on the biggest program generated here; a regression
    that duplicates statements at every nesting level needs exponential time and memory)."""
    old = signal.signal(signal.SIGALRM, E._alarm)
    signal.alarm(int(min(E.T.limit(), 20)))
    try:
        return fn(*a)
    except E._Timeout:
        E.T.saw_hang()
        raise
    finally:
        signal.alarm(0)
        signal.signal(signal.SIGALRM, old)


def count_gate_statements(block, cap):
    """number of gate statements in a statement tree (objects, iteratively); gives up beyond `cap`"""
    n = 0
    stack = [block]
    while stack:
        x = stack.pop()
        if isinstance(x, E.LoopStatement):
            stack.append(x.statements)
        elif isinstance(x, E.BlockStatement):
            stack.extend(x.statements)
        else:
            n += 1
            if n > cap:
                return n
    return n


def evaluate(case):
    """-> (results {oracle: (ok, detail)}, info): the evaluation of c19_edge (same reference, on canonical dumps) with a
    guard against results that are far bigger than the input (a regression that duplicates gates at scale can return
    hundreds of thousands of statements; those are reported from a plain count instead of being dumped and diffed)."""
    res, info = {}, {}
    prog = case["prog"]
    dump, _short = E.dump, E._short
    try:
        c = E.guarded(E.circuit_of_case, case)
        din = dump.circuit(c)
    except E._Timeout:
        info["frontend"] = "timeout in the front end"
        return res, info
    except Exception as e:
        info["frontend"] = f"front end refused the generated program: {type(e).__name__}: {e}"
        return res, info
    want = [E.shape(s) for s in prog["body"]]
    got = [E.shape_of_dump(k) for k in din["body"]["b"]]
    if want != got:
        info["frontend"] = f"front end built another tree: {_short(got)}"
        return res, info
    expect_reject = any(E.loop_in_par(s) for s in prog["body"])
    assert expect_reject == (case["expect"] == "reject"), "case inconsistent"
    n_in = count_gate_statements(c.body, 10**9)
    ecls = None
    try:
        new = guarded_short(E.normalize, c)
        exc = None
    except E._Timeout:
        exc, new = "timeout", None
    except BaseException as e:  # noqa: the class is what is judged
        if isinstance(e, (KeyboardInterrupt, SystemExit)):
            raise
        exc, ecls, new = f"{type(e).__name__}: {e}", e, None
    info["outcome"] = "ok" if exc is None else ("timeout" if exc == "timeout" else type(ecls).__name__)
    if expect_reject:
        if exc is None:
            res["C19s_reject"] = (False, "a loop sits inside a parallel block but a circuit was returned")
        elif exc == "timeout" or not isinstance(ecls, E.JaqalError):
            res["C19s_reject"] = (False, f"a loop sits inside a parallel block; expected JaqalError, got {_short(exc, 300)}")
        else:
            res["C19s_reject"] = (True, "")
        return res, info
    if exc is not None:
        res["C19s_accept"] = (False, f"no loop inside a parallel block, yet the call raised {_short(exc, 300)}")
        return res, info
    res["C19s_accept"] = (True, "")
    try:
        cap = 2 * n_in + 64
        n_out = count_gate_statements(new.body, cap)
    except Exception as e:
        res["C19s_flat"] = (False, f"result body cannot be walked: {type(e).__name__}: {e}")
        return res, info
    if n_out > cap:
        res["C19s_gates"] = (False, f"the input has {n_in} gate statements, the result has more than {cap}"
                                    " (not dumped; gate statements are duplicated)")
        return res, info
    try:
        dout = dump.circuit(new)
    except Exception as e:
        res["C19s_flat"] = (False, f"result is not a dumpable circuit: {type(e).__name__}: {e}")
        return res, info
    info["changed"] = dout["body"] != din["body"]
    gi, si = E.schedule(din["body"])
    go, so = E.schedule(dout["body"])
    info["nonempty"] = bool(gi)
    ci, co = Counter(g for g, _, _ in gi), Counter(g for g, _, _ in go)
    lost, dup = ci - co, co - ci
    res["C19s_gates"] = (not lost and not dup,
                         f"input {len(gi)} gate statements, result {len(go)}; lost {_short(sorted(lost.elements()), 300)}"
                         f" extra {_short(sorted(dup.elements()), 300)}")
    wi, wo = Counter(gi), Counter(go)
    if wi == wo:
        res["C19s_schedule"] = (True, "")
    else:
        a = sorted((json.loads(g)["g"], w, s) for (g, w, s) in (wi - wo).elements())
        b = sorted((json.loads(g)["g"], w, s) for (g, w, s) in (wo - wi).elements())
        res["C19s_schedule"] = (False, f"(gate, [start, loops], subcircuit#) only in the input: {_short(a, 400)}; only in the result: {_short(b, 400)}")
    res["C19s_subcircuits"] = (si == so, f"(count, [start, loops], duration, parallel) of the subcircuit blocks: in {_short(si, 400)} out {_short(so, 400)}")
    b = dout["body"]
    top_ok = ("b" in b) and not b["par"] and not b["sub"] and E.cval(b["it"]) == 1 and "c" not in b["it"]
    res["C19s_flat"] = (bool(top_ok and E.flat_items(b["b"])), f"result body {_short(b, 800)}")
    hi, ho = E.header_of(din), E.header_of(dout)
    bad = [k for k in hi if hi[k] != ho.get(k)]
    res["C19s_header"] = (not bad, "; ".join(f"{k}: in {_short(hi[k], 250)} out {_short(ho.get(k), 250)}" for k in bad))
    return res, info


def slim(case, gen):
    out = {"gen": gen, "fmt": case["fmt"], "expect": case["expect"], "route": case["route"]}
    t = case["text"]
    out["text"] = t if len(t) <= 20000 else t[:20000] + f"...(+{len(t) - 20000} characters; regenerate from gen)"
    return out


def run(seed: int, n: int, driver: str = DEFAULT_DRIVER, thorough: bool = False) -> dict:
    _imports()
    oracle = {k: {"cases": 0, "failures": []} for k in ORACLES}
    dist = Counter()
    nontrivial = 0
    samples, fe_examples = [], []
    hung = {}  # dim -> smallest size on which the pass timed out
    n_hung = 0
    for gen in gen_specs(seed, n, thorough):
        if n_hung >= 3 and gen["size"] >= hung.get(gen["dim"], 10**9):
            # the tree hangs at this scale (already reported three times): do not spend 20 s on every further case
            dist["skipped_after_3_timeouts"] += 1
            continue
        case, feat = build_case(gen)
        res, info = evaluate(case)
        if info.get("outcome") == "timeout":
            n_hung += 1
            hung[gen["dim"]] = min(hung.get(gen["dim"], 10**9), gen["size"])
        if "frontend" in info:
            dist["frontend_problem"] += 1
            dist[f"frontend_problem:{gen['route']}:{gen['dim']}"] += 1
            if len(fe_examples) < 3:
                fe_examples.append({"case": slim(case, gen), "detail": info["frontend"]})
            continue
        dist[f"dim={gen['dim']}"] += 1
        dist[f"dim={gen['dim']}:size{bucket(gen['size'])}"] += 1
        dist[f"size{bucket(gen['size'])}"] += 1
        dist[f"route={gen['route']}"] += 1
        dist[f"expect={case['expect']}"] += 1
        dist[f"outcome={info.get('outcome')}"] += 1
        for k, v in feat.items():
            if isinstance(v, str):
                dist[f"{k}={v}"] += 1
            elif v:
                dist[f"{k}>0"] += 1
        if info.get("changed"):
            dist["ok_and_changed"] += 1
        if info.get("changed") or case["expect"] == "reject":
            nontrivial += 1
        if len(samples) < 4 and gen["size"] <= 9:
            samples.append(slim(case, gen))
        for name, (ok, detail) in res.items():
            oracle[name]["cases"] += 1
            if not ok and len(oracle[name]["failures"]) < 20:
                oracle[name]["failures"].append({"case": slim(case, gen), "detail": detail})
            elif not ok:
                dist[f"more_failures:{name}"] += 1
    out = {"corr": {}, "oracle": oracle, "distribution": dict(sorted(dist.items())), "samples": samples,
           "nontrivial": nontrivial}
    if fe_examples:
        out["frontend_examples"] = fe_examples
    return out


def replay(case: dict, driver: str = DEFAULT_DRIVER) -> dict:
    _imports()
    if "prog" in case:
        full = dict(case)
        full.setdefault("fmt", 0)
        if full["route"] == "text" and "text" not in full:
            full["text"] = E.prog_text(full["prog"], full["fmt"])
        full.setdefault("expect", "reject" if any(E.loop_in_par(s) for s in full["prog"]["body"]) else "ok")
    else:
        full, _ = build_case(case["gen"])
    res, info = evaluate(full)
    if "frontend" in info:
        return {"oracle_ok": None, "detail": info["frontend"]}
    bad = [f"{k}: {d}" for k, (ok, d) in res.items() if not ok]
    return {"oracle_ok": not bad, "detail": "; ".join(bad) or "all oracles hold", "outcome": info.get("outcome")}


def main():
    ap = argparse.ArgumentParser()
    ap.add_argument("--n", type=int, default=1200)
    ap.add_argument("--seed", type=int, default=0)
    ap.add_argument("--thorough", action="store_true")
    ap.add_argument("--json", action="store_true")
    args = ap.parse_args()
    t0 = time.time()
    r = run(args.seed, args.n, thorough=args.thorough)
    if args.json:
        print(json.dumps(r, indent=1))
    bad = 0
    for k, v in r["oracle"].items():
        print(f"oracle {k}: {v['cases']} cases, {len(v['failures'])} failures")
        for f in v["failures"][:3]:
            print("   FINDING", E._short(json.dumps(f), 1500))
        bad += len(v["failures"])
    for k, v in r["distribution"].items():
        print("  ", k, v)
    for f in r.get("frontend_examples", []):
        print("   FRONTEND", E._short(json.dumps(f), 1500))
    print("nontrivial:", r["nontrivial"], " seconds:", round(time.time() - t0, 1))
    print("RESULT:", "OK" if bad == 0 else f"{bad} PROBLEMS")
    sys.exit(0 if bad == 0 else 1)


if __name__ == "__main__":
    sys.path.insert(0, "/verif")
    os.environ.setdefault("JAQALPAQ_RUN_EMULATOR", "1")
    main()
