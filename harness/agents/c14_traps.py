#!/venv/bin/python
"""C14 oracle stream (sixth round): DERIVED gate definitions, Python-level TRAPS, FAILURE-then-valid histories, RE-ENTRANCY.

    PYTHONPATH=/verif /venv/bin/python /verif/harness/agents/c14_traps.py [--seed 0] [--n 1500] [--thorough]

Recommended: quick n=1500 (2-3 pipelines per program, ~4 400 pipeline runs + ~1 000 direct calls, 5-8 s on an idle machine),
thorough n=4000 (every applicable pipeline, up to 17 per program, ~60 000 runs, 60-70 s on an idle machine).
`n` = number of cases; streams by weight: derived 10, edge 4, shared 3, atomic 3.

Importable: `run(seed, n, driver, thorough) -> dict`, `replay(case, driver) -> dict` (AGENT_CONVENTIONS.md, "Diff-script
protocol").  Oracles only (`"corr": {}`): the Lean driver is not used.

What C14 says: a program is never accepted with a qubit index outside 0..size-1 of the register or alias it indexes, an
alias slice reaching outside its source, an alias / index applied to something that is not a register, an undefined or
doubly defined identifier, a call to a gate that is neither native nor a previously defined macro when a native gate set
is in force, or a call with the wrong number or kind of arguments; such programs are rejected WITH JaqalError AT THE LATEST
WHEN THE OFFENDING VALUE BECOMES KNOWN and never run on a different qubit or gate.  Quantifier: all programs, all override
dictionaries, all gate names and argument lists against ANY injected or imported native gate set.

The earlier C14 streams inject gate sets made of objects that come straight out of the GateDefinition constructor, build
every circuit once from fresh inputs, and hand the builder string constants.  This stream varies exactly that:

  WORLD = a native gate set obtained by a chain of DERIVATIONS from constructor-made definitions (specs as in c14_inject:
  name, parameter names / kinds, unitary = XOR mask on the qubit arguments):
      stretched_gates(set, suffix=<s> | None, update=True | False)   (GateDefinition.copy(name=, parameters=, ideal_unitary=))
      add_idle_gates(set), IdleGateDefinition(g, name=)               (idle of stretched, stretched of idle, idle of idle)
      g.copy(name=) / g.copy(parameters=) / g.copy(ideal_unitary=) / all three      copy.copy(g) / copy.deepcopy(g)
      the gate table of ANOTHER circuit: parse(..., inject_pulses=set).native_gates, CircuitBuilder(native_gates=set).build().native_gates
  handed over as dict / list / tuple / dict view / deque / iterable / generator.  The reference applies the DOCUMENTED
  meaning of each derivation to the specs (stretched: parent's parameters + FLOAT `stretch`, parent's unitary; idle:
  parent's parameters, acts on nothing; copy: what was asked for) and never looks at the objects.

  PROGRAMS (c14_edge's JSON trees, judged by c14_edge's / c14_scale's independent evaluator `Ref2` over the world's
  signatures): per derived gate the call that fits, the PARENT's argument list under the derived name and vice versa,
  arity -1 / +1, a wrong kind at each position (the added one in particular), a name that is a proper SUBSTRING /
  extension of a gate name, an index at size / size+1 / -1 — directly, in { } / < > / loop, in a macro body, through
  macro parameters; names declared in DESCENDING order; also c14_edge's own generators (refs / nonreg / names / calls)
  over the harness gate set.

  PIPELINES.  Entry: parse_jaqal_string, circuitbuilder.build on an S-expression, the same S-expression with every string
  CREATED AT RUN TIME (never interned) and equal sub-expressions being THE SAME Python object, numbers in another numeric
  FORM (integral float, numpy scalars, bool at index / size / bound positions), CircuitBuilder.  Then the passes in either order, also
  RE-ENTRANT: pass output -> generate_jaqal_program -> parse again (with the same set, or with the circuit's own
  `native_gates` table) -> other pass; fill twice; expand twice; run -> transform -> run again; run twice on one backend
  object.  The emulator's result is read by_int before by_str or the other way round (ACCESS ORDER).

  HISTORIES (stream `atomic`): 3-6 programs that differ in one call / one number, at least one of them INVALID and placed
  BEFORE a valid one, run back to back on the SAME gate container, the SAME parsed circuit (members that differ only in the
  override), the SAME emulator backend object; the first step is repeated at the end.  Every step is judged on its own
  against the reference: a failed call must leave nothing behind.  Programs with TWO defects.

  SHARED (stream `shared`): one statement in two scopes that give it different meanings (a macro parameter bearing the name
  of a let, two macros with one body and swapped parameters, ...), so that with the run-time-string entry the equal
  sub-expressions are one Python object placed at two positions.

  DIRECT CALLS (oracle `definition_call_checked`): every derived definition is called as `g(*args)` / `g.call(**kwargs)`
  with the argument lists above (qubits from a Register object): JaqalError iff the reference says the list does not fit.

Oracles
  invalid_reference_rejected        : a program the reference finds invalid is refused at some stage.
  rejected_when_known               : ... by the end of the first stage whose knowledge level determines the defect.
  rejection_is_jaqalerror           : ... and the refusing stage raises JaqalError.
  accepted_runs_on_reference_qubits : a valid program, IF accepted, executes exactly the reference's native calls on the
                                      reference's fundamental qubits, bound to definitions indistinguishable from those in
                                      force, and the emulator ends in the reference's basis state (both views of the result).
                                      (A refusal of a valid program is tabulated, never reported: not a matter of C14.)
  definition_call_checked           : see DIRECT CALLS (wrong lists only: `fits but refused` is tabulated).
  terminates                        : every guarded call returns within `harness.timeouts.limit()` seconds.
"""
import argparse
import collections
import copy as _copy
import json
import os
import random
import sys
import time

sys.path.insert(0, os.path.dirname(os.path.dirname(os.path.dirname(os.path.abspath(__file__)))))

from harness import timeouts as _T  # noqa: E402
from harness.agents import c14_edge as E  # noqa: E402
from harness.agents import c14_scale as S  # noqa: E402
from harness.agents import c14_inject as I  # noqa: E402

DEFAULT_DRIVER = "/verif/lean/.lake/build/bin/jaqal-model"
lit, ident, gate, item, aid, anum = E.lit, E.ident, E.gate, E.item, E.aid, E.anum
guarded = E.guarded
LET, MAC = "let", "macro"

_LIB = None


def lib():
    global _LIB
    if _LIB is None:
        L = dict(E.lib())
        L.update(S.lib2())
        L.update(I.lib())
        from jaqalpaq.core.stretch import stretched_gates
        from jaqalpaq.core.gatedef import IdleGateDefinition, add_idle_gates
        from jaqalpaq.core.register import Register
        from jaqalpaq.generator import generate_jaqal_program

        L.update(stretched_gates=stretched_gates, IdleGateDefinition=IdleGateDefinition, add_idle_gates=add_idle_gates,
                 Register=Register, generate_jaqal_program=generate_jaqal_program)
        _LIB = L
    return _LIB


# ---------------------------------------------------------------------------------------------------------------
# worlds: base specs + derivation ops.  The reference side (`ref_world`) works on specs only.
#
# spec = {"name", "params": [[pname, kind]], "mask": int, "busy"?: True, "idle"?: True}
# ops:  ["stretch", suffix | None, update: bool]            on every non-busy gate of the set so far
#       ["idle_all"]                                        add_idle_gates on the whole set
#       ["idle1", name, newname | None]                     IdleGateDefinition(set[name], name=newname)
#       ["copy", name, newname | None, params | None, mask | None]
#       ["pycopy", name, "copy" | "deepcopy"]
#       ["via_parse"] / ["via_builder"]                     the set becomes the gate table of a circuit built with it

PMSPECS = [{"name": "prepare_all", "busy": True, "params": []}, {"name": "measure_all", "busy": True, "params": []}]


def _has_unitary(s):
    return not s.get("busy") and not s.get("idle") and sum(1 for _p, k in s["params"] if k == "qubit") > 0


class Murky(Exception):
    pass


def ref_world(world):
    """name -> spec of the set in force, by the documented meaning of the derivations (insertion order = library order)"""
    if world.get("harness"):
        return None
    R = collections.OrderedDict((s["name"], dict(s)) for s in world["base"])
    for op in world["ops"]:
        k = op[0]
        if k == "stretch":
            suffix, _update = op[1], op[2]
            new = collections.OrderedDict()
            for s in list(R.values()):
                if s.get("busy"):
                    continue
                if s["name"] in new:
                    continue
                src = s
                if s.get("idle"):
                    src = s["parent"]
                    if src.get("idle"):
                        # stretching the idle gate of an idle gate: what the parent is then is not documented
                        raise Murky()
                base = dict(src)
                base.pop("parent", None)
                st = dict(base, name=src["name"] + (suffix or ""), params=[list(p) for p in src["params"]] + [["stretch", "float"]])
                new[st["name"]] = st
                if s.get("idle"):
                    nm = s["name"] + (suffix or "")
                    new[nm] = {"name": nm, "params": [list(p) for p in st["params"]], "mask": 0, "idle": True, "parent": st}
            R.update(new)
        elif k == "idle_all":
            out = collections.OrderedDict()
            for n, s in R.items():
                out[n] = s
                if s["name"] in ("prepare_all", "measure_all"):
                    continue
                nm = "I_" + s["name"]
                out[nm] = {"name": nm, "params": [list(p) for p in s["params"]], "mask": 0, "idle": True, "parent": s}
            R = out
        elif k == "idle1":
            s = R[op[1]]
            nm = op[2] or "I_" + s["name"]
            R[nm] = {"name": nm, "params": [list(p) for p in s["params"]], "mask": 0, "idle": True, "parent": s}
        elif k == "copy":
            s = dict(R[op[1]])
            if op[2] is not None:
                s["name"] = op[2]
            if op[3] is not None:
                s["params"] = [list(p) for p in op[3]]
            if op[4] is not None:
                s["mask"] = op[4]
            R[s["name"]] = s
        elif k in ("pycopy", "via_parse", "via_builder"):
            pass
        else:
            raise ValueError(op)
    return R


def _unitary(nq, mask):
    np = lib()["numpy"]

    def unitary(*_classical, _nq=nq, _mask=mask):
        d = 2**_nq
        m = np.zeros((d, d), dtype=complex)
        for i in range(d):
            m[i ^ _mask, i] = 1
        return m

    return unitary


def make_world(world):
    """the gate OBJECTS, made with the library's own derivation functions: name -> definition"""
    L = lib()
    if world.get("harness"):
        return dict(L["GATES"])
    PT = L["ParamType"]
    kinds = {"qubit": PT.QUBIT, "int": PT.INT, "float": PT.FLOAT}
    G = {s["name"]: I.make_def(s) for s in world["base"]}
    for op in world["ops"]:
        k = op[0]
        if k == "stretch":
            sub = {n: g for n, g in G.items() if not isinstance(g, L["BusyGateDefinition"])}
            if op[2]:
                new = L["stretched_gates"](sub, suffix=op[1], update=True)
                G.update(new)
            else:
                G.update(L["stretched_gates"](sub, suffix=op[1]))
        elif k == "idle_all":
            G = L["add_idle_gates"](G)
        elif k == "idle1":
            g = L["IdleGateDefinition"](G[op[1]], name=op[2]) if op[2] else L["IdleGateDefinition"](G[op[1]])
            G[g.name] = g
        elif k == "copy":
            kw = {}
            if op[2] is not None:
                kw["name"] = op[2]
            if op[3] is not None:
                kw["parameters"] = [L["Parameter"](pn, kinds[kd]) for pn, kd in op[3]]
            if op[4] is not None:
                params = op[3] if op[3] is not None else [[p.name, None] for p in G[op[1]].parameters if not p.classical]
                nq = sum(1 for _p, kd in params if kd in ("qubit", None))
                kw["ideal_unitary"] = _unitary(nq, op[4])
            g = G[op[1]].copy(**kw)
            G[g.name] = g
        elif k == "pycopy":
            G[op[1]] = _copy.copy(G[op[1]]) if op[2] == "copy" else _copy.deepcopy(G[op[1]])
        elif k == "via_parse":
            c = L["parse_jaqal_string"]("register zz[1]\n", inject_pulses=G, autoload_pulses=False)
            G = dict(c.native_gates)
        elif k == "via_builder":
            cb = L["CircuitBuilder"](native_gates=G)
            cb.register("zz", 1)
            G = dict(cb.build().native_gates)
        else:
            raise ValueError(op)
    return G


def gate_table(R):
    if R is None:
        return E.SIG, S.DEFAULT_SEM
    sig, sem = {}, {}
    for s in R.values():
        if s.get("busy"):
            sig[s["name"]] = ""
            continue
        sig[s["name"]] = "".join({"qubit": "q", "int": "i", "float": "f"}[k] for _p, k in s["params"])
        if _has_unitary(s):
            sem[s["name"]] = ("mask", s["mask"])
    return sig, sem


def judge(prog, R):
    """S.judge with the world's table"""
    sig, sem = gate_table(R)
    refs = {lv: S.Ref2(prog, lv[0], lv[1], sig).run() for lv in S.LEVELS}
    full = refs[(True, True)]
    ambiguous = list(full.ambiguous)
    for lv in S.LEVELS:
        for a in refs[lv].ambiguous:
            if a not in ambiguous:
                ambiguous.append(a)
    for name, ds in full.macro_defects.items():
        if ds and name not in full.expanded and not refs[(False, False)].macro_defects.get(name):
            ambiguous.append(f"let-dependent defect in macro {name[:40]}, which is never called")
    out = {"invalid": {lv: bool(refs[lv].defects) for lv in S.LEVELS}, "defects": [d[:120] for d in full.defects[:6]],
           "ambiguous": ambiguous, "flat": None, "state": None, "nq": None}
    for lv in S.LEVELS:
        if refs[lv].defects and not full.defects:
            raise AssertionError(f"reference not monotone: {lv} {refs[lv].defects}")
    if full.defects or ambiguous:
        return out
    flat, ok = [], [True]

    def walk(items):
        for it in items:
            if not ok[0]:
                return
            if it[0] == "g":
                flat.append([it[1], [E._flatval(v) for v in it[2]]])
                if len(flat) > 3000:
                    ok[0] = False
            else:
                n = S._loop_n(it[1])
                if n is None or n > 64:
                    ok[0] = False
                    return
                for _ in range(n):
                    walk(it[2])

    walk(full.trace)
    out["flat"] = flat if ok[0] else None
    regs = [v for v in full.env.values() if v[0] == "reg" and v[2] == 0 and v[3] == 1]
    fund = {v[1]: v[4] for v in regs if v[1] in full.env and full.env[v[1]] == v}
    if len(fund) == 1:
        out["nq"] = list(fund.values())[0]
        if out["nq"] <= 8 and out["flat"] is not None:
            out["state"] = S.simulate(out["flat"], out["nq"], sig, sem)
    return out


# ---------------------------------------------------------------------------------------------------------------
# S-expressions with run-time strings / shared sub-expression objects / numeric forms


def fresh_str(s):
    """an equal string object created at run time (never interned; one-character strings are cached by CPython)"""
    return "".join([c for c in s])


def trap_sx(sx, share=True):
    memo = {}

    def go(x):
        if isinstance(x, str):
            return fresh_str(x)
        if isinstance(x, (list, tuple)):
            key = repr(x) if share else None
            if key is not None and key in memo:
                return memo[key]
            y = tuple(go(v) for v in x) if share else [go(v) for v in x]
            if key is not None:
                memo[key] = y
            return y
        return x

    return go(sx)


def numform_prog(prog, salt):
    """the same program with its integer LITERALS at index / size / bound / count positions in another numeric form"""
    rng = random.Random(f"numform/{salt}")

    def conv(e, count=False):
        if e is None or "lit" not in e:
            return e
        v = e["lit"]
        if not isinstance(v, int) or isinstance(v, bool) or abs(v) >= 2**31:
            return e
        # (a loop count is nothing C14 speaks about: it keeps a form whose reading as a count is beyond doubt)
        forms = ["int", "float", "npi", "npf"] + (["bool"] if v in (0, 1) and not count else []) + (["negzero"] if v == 0 and not count else [])
        f = rng.choice(forms)
        return {"lit": {"int": v, "float": {"f": repr(float(v))}, "npi": {"npi": v}, "npf": {"npf": repr(float(v))},
                        "bool": {"b": bool(v)}, "negzero": {"f": "-0.0"}}[f]}

    def arg(a):
        if a["t"] == "item":
            return dict(a, idx=conv(a["idx"]))
        return a

    def stmt(s):
        if s["k"] == "gate":
            return dict(s, args=[arg(a) for a in s["args"]])
        if s["k"] == "loop":
            return dict(s, count=conv(s["count"], count=True), body=[stmt(x) for x in s["body"]])
        return dict(s, body=[stmt(x) for x in s["body"]])

    header = []
    for h in prog["header"]:
        h = dict(h)
        for key in ("size", "index", "start", "stop", "step"):
            if key in h:
                h[key] = conv(h[key])
        header.append(h)
    top = [dict(t, body=[stmt(x) for x in t["body"]]) if t["k"] == "macro" else stmt(t) for t in prog["top"]]
    return dict(prog, header=header, top=top)


# ---------------------------------------------------------------------------------------------------------------
# stages and pipelines

ENTRY_STAGES = ["parse", "sx", "sx_trap", "sx_num", "cb"]
STAGE_K = {"parse": (), "sx": (), "sx_trap": (), "sx_num": (), "cb": (),
           "fill": (LET,), "fill2": (LET,), "expand": (MAC,), "expand_keep": (MAC,), "expand2": (MAC,),
           "regen": (), "regen_ng": (), "run": (LET, MAC), "run_b": (LET, MAC), "run0": (LET, MAC)}
PIPES = {
    # plain
    "A": ["parse", "fill", "expand", "run"], "B": ["parse", "expand", "fill", "run"],
    "F": ["sx", "fill", "expand", "run"], "G": ["cb", "expand", "fill", "run"],
    # python traps
    "T1": ["sx_trap", "fill", "expand", "run"], "T2": ["sx_trap", "expand_keep", "fill", "run_b"],
    "N1": ["sx_num", "expand", "fill", "run"], "N2": ["sx_num", "fill", "expand", "run_b"],
    # re-entrancy
    "R1": ["parse", "regen", "fill", "expand", "run"], "R2": ["parse", "fill", "regen_ng", "expand", "run"],
    "R3": ["sx_trap", "expand", "regen", "fill", "run"], "R4": ["parse", "fill", "expand", "regen_ng", "run", "run_b"],
    "R5": ["parse", "fill", "fill2", "expand", "expand2", "run"], "R6": ["cb", "regen_ng", "expand_keep", "expand2", "fill", "run_b", "run_b"],
    "R7": ["parse", "run0", "fill", "expand", "run"],        # only without an override dictionary
    "R8": ["cb", "fill", "expand_keep", "regen", "fill2", "run"],
    "RB": ["parse", "expand", "fill", "run_b"],
}
TEXT_PIPES = ["A", "B", "R1", "R2", "R4", "R5", "R7", "RB"]
OBJ_PIPES = ["F", "G", "T1", "T2", "N1", "N2", "R3", "R6", "R8"]


def applicable(prog, text):
    ps = list(OBJ_PIPES)
    if E.has_huge_int([prog["header"], prog["top"]]):
        ps = []
    if text is not None:
        ps += [p for p in TEXT_PIPES if not (p == "R7" and prog["ov"])]
    return ps


class Ctx:
    """what the steps of one case share: the gate objects, the container handed to the library, one backend, parsed circuits"""

    def __init__(self, world):
        L = lib()
        self.world = world
        self.R = ref_world(world)
        self.G = make_world(world)
        self.form = world.get("form", "dict")
        self._shared = None
        self.backend = L["UnitarySerializedEmulator"]()
        self.parsed = {}

    def inject(self):
        if self.form == "dict":
            if self._shared is None:
                self._shared = dict(self.G)
            return self._shared
        if self.form in I.ONE_SHOT:
            return I.make_form(self.form, list(self.G.values()))
        if self._shared is None:
            self._shared = I.make_form(self.form, list(self.G.values()))
        return self._shared


def do_stage(ctx, stage, prog, text, circ, share_parse, salt):
    L = lib()
    ov = {name: E.dec(v, real=True) for name, v in prog["ov"]} or None
    P = L["parse_jaqal_string"]
    if stage == "parse":
        if share_parse:
            if text not in ctx.parsed:
                ctx.parsed[text] = P(text, inject_pulses=ctx.inject(), autoload_pulses=False)
            return ctx.parsed[text]
        return P(text, inject_pulses=ctx.inject(), autoload_pulses=False)
    if stage == "sx":
        return L["core_build"](E.render_sx(prog), inject_pulses=ctx.inject())
    if stage == "sx_trap":
        return L["core_build"](trap_sx(E.render_sx(prog)), inject_pulses=ctx.inject())
    if stage == "sx_num":
        return L["core_build"](trap_sx(E.render_sx(numform_prog(prog, salt)), share=False), inject_pulses=ctx.inject())
    if stage == "cb":
        return S.build_with_circuitbuilder(prog, ctx.inject())
    if stage == "fill":
        return L["fill_in_let"](circ, ov)
    if stage == "fill2":
        return L["fill_in_let"](circ)
    if stage in ("expand", "expand2"):
        return L["expand_macros"](circ)
    if stage == "expand_keep":
        return L["expand_macros"](circ, preserve_definitions=True)
    if stage == "regen":
        return P(L["generate_jaqal_program"](circ), inject_pulses=ctx.inject(), autoload_pulses=False)
    if stage == "regen_ng":
        return P(L["generate_jaqal_program"](circ), inject_pulses=circ.native_gates, autoload_pulses=False)
    if stage in ("run", "run0"):
        return L["run_jaqal_circuit"](circ)
    if stage == "run_b":
        return L["run_jaqal_circuit"](circ, backend=ctx.backend)
    raise ValueError(stage)


def check_bindings(circ, ctx):
    L = lib()
    bad = []
    stack = [circ.body]
    while stack:
        s = stack.pop()
        if isinstance(s, L["GateStatement"]):
            gd = s.gate_def
            if isinstance(gd, L["Macro"]):
                continue
            want = ctx.G.get(s.name)
            if want is None:
                bad.append(f"statement {s.name[:40]!r}: no such gate in force")
            elif gd is not want and I.fingerprint(gd) != I.fingerprint(want):
                bad.append(f"statement {s.name[:40]!r} is bound to {I.fingerprint(gd)}, in force is {I.fingerprint(want)}")
            if len(bad) > 3:
                break
        elif isinstance(s, L["LoopStatement"]):
            stack.append(s.statements)
        elif isinstance(s, L["BlockStatement"]):
            stack.extend(s.statements)
    return bad


def read_state(res, order):
    """basis state (as an integer, qubit 0 = least significant bit) the run ended in, from both views of the result"""
    sub = res.subcircuits[0]
    views = {}
    for which in (("int", "str") if order == 0 else ("str", "int")):
        if which == "int":
            p = list(sub.probability_by_int)
            hit = [i for i, v in enumerate(p) if abs(v - 1) < 1e-9]
            views["int"] = hit[0] if len(hit) == 1 else None
            views["n"] = len(p)
        else:
            d = sub.probability_by_str
            hit = [k for k, v in d.items() if abs(v - 1) < 1e-9]
            views["str"] = hit[0] if len(hit) == 1 else None
    return views


def check(ctx, prog, pipe, verdict, text, share_parse=False, salt=""):
    """Run one pipeline.  -> (results: [(oracle, ok, detail)], facts: [str])"""
    stages = PIPES[pipe]
    results, facts = [], []
    circ = None
    required = None
    refused = None
    pre_run = None
    finals = []
    known = set()
    for i, st in enumerate(stages):
        known |= set(STAGE_K[st])
        if required is None and verdict["invalid"][(LET in known, MAC in known)]:
            required = i
    known = set()
    for i, st in enumerate(stages):
        known |= set(STAGE_K[st])
        lv = (LET in known, MAC in known)
        r = guarded(lambda st=st, circ=circ: do_stage(ctx, st, prog, text, circ, share_parse, salt))
        if r[0] == "hang":
            results.append(("terminates", False, f"{st}: no answer within {_T.limit()} s"))
            return results, facts
        if r[0] != "ok":
            refused = (i, r)
            break
        if st.startswith("run"):
            finals.append(r[1])
        else:
            circ = r[1]
            if lv == (True, True):
                pre_run = circ
    results.append(("terminates", True, ""))
    if verdict["ambiguous"]:
        facts.append("ambiguous: " + ("accepted" if refused is None else "refused"))
        return results, facts
    if verdict["invalid"][(True, True)]:
        why = "; ".join(verdict["defects"][:3])
        if refused is None:
            results.append(("invalid_reference_rejected", False, f"accepted by every stage of {stages}; the reference says: {why}"))
            facts.append("invalid: ACCEPTED")
            return results, facts
        i, r = refused
        results.append(("invalid_reference_rejected", True, ""))
        results.append(("rejected_when_known", i <= required,
                        f"defect ({why}) is determined after stage {stages[required]!r} but the program passed it and was refused "
                        f"only by {stages[i]!r}: {r[1:]}"))
        results.append(("rejection_is_jaqalerror", r[0] == "jaqal",
                        f"stage {stages[i]!r} raised {r[1]}: {r[2] if len(r) > 2 else ''} instead of JaqalError; the reference says: {why}"))
        facts.append(f"invalid: refused at {stages[i]}" + ("" if i == required else " (earlier than required)"))
        return results, facts
    if refused is not None:
        i, r = refused
        facts.append(f"valid: refused at {stages[i]} ({'JaqalError' if r[0] == 'jaqal' else r[1]})")
        return results, facts
    facts.append("valid: accepted")
    bad = []
    if pre_run is not None and verdict["flat"] is not None:
        g = guarded(lambda: S.observe_flat(pre_run))
        if g[0] != "ok":
            bad.append(f"a qubit of the accepted circuit does not resolve: {g[1:]}")
        elif not E.same_flat(verdict["flat"], g[1]):
            k = next((j for j, (a, b) in enumerate(zip(verdict["flat"], g[1])) if not E.same_flat([a], [b])),
                     min(len(g[1]), len(verdict["flat"])))
            bad.append(f"accepted circuit executes {len(g[1])} native calls, the reference {len(verdict['flat'])}; first difference at call "
                       f"{k}: circuit {json.dumps(g[1][k:k + 2])[:200]}, reference {json.dumps(verdict['flat'][k:k + 2])[:200]}")
        bad += check_bindings(pre_run, ctx)
    if verdict["state"] is not None:
        nq = verdict["nq"]
        want_str = "".join(str((verdict["state"] >> q) & 1) for q in range(nq))
        for j, final in enumerate(finals):
            g = guarded(lambda final=final, j=j: read_state(final, (len(text or "") + j) % 2))
            if g[0] != "ok":
                bad.append(f"run {j}: result not readable: {g[1:]}")
                continue
            v = g[1]
            if v["int"] != verdict["state"] or v["n"] != 2**nq:
                bad.append(f"run {j}: probability_by_int says basis state {v['int']} of {v['n']}, the reference {verdict['state']} of {2**nq}")
            if v["str"] != want_str:
                bad.append(f"run {j}: probability_by_str says {v['str']!r}, the reference {want_str!r}")
    results.append(("accepted_runs_on_reference_qubits", not bad, "; ".join(bad[:4])))
    return results, facts


# ---------------------------------------------------------------------------------------------------------------
# direct calls of the definitions


def direct_calls(ctx, nq, probes):
    """probes: [(name, args as E-format args over register `q` with literal indices / numbers)] -> [(ok, detail, fact)]"""
    L = lib()
    out = []
    reg = L["Register"]("q", nq)
    for name, args, style in probes:
        spec = ctx.R.get(name)
        g = ctx.G.get(name)
        if spec is None or g is None:
            continue
        params = [] if spec.get("busy") else spec["params"]
        fits = len(params) == len(args)
        vals = []
        for a in args:
            if a["t"] == "item":
                vals.append(("q", E.dec(a["idx"]["lit"])))
            else:
                vals.append(("n", E.dec(a["v"])))
        if any(t == "q" and not 0 <= v < nq for t, v in vals):
            continue
        if fits:
            for (_pn, kd), (t, v) in zip(params, vals):
                if kd == "qubit" and t != "q":
                    fits = False
                if kd == "int" and (t != "n" or not E.is_intval(v)):
                    fits = False
                if kd == "float" and t != "n":
                    fits = False
        objs = [reg[v] if t == "q" else v for t, v in vals]
        pnames = [pn for pn, _k in params]
        if style == "pos":
            f = lambda: g(*objs)  # noqa: E731
        elif style == "call":
            f = lambda: g.call(*objs)  # noqa: E731
        else:
            # keyword call: the reference's parameter names, as many as there are arguments (+ invented names beyond)
            names = (pnames + [f"extra{k}" for k in range(len(objs))])[: len(objs)]
            if not objs:
                continue
            f = lambda: g.call(**dict(zip(names, objs)))  # noqa: E731
        r = guarded(f)
        desc = f"{name}({', '.join(('q[%d]' % v) if t == 'q' else repr(v) for t, v in vals)}) [{style}] against {[tuple(p) for p in params]}"
        if r[0] == "hang":
            out.append((False, f"{desc}: no answer", "direct hang"))
        elif r[0] == "other":
            out.append((fits, f"{desc}: raised {r[1]}: {r[2]} instead of JaqalError", "direct other exception"))
        elif r[0] == "jaqal":
            out.append((True, "", "direct refused (wrong list)" if not fits else "direct refused (FITTING list; tabulated)"))
        else:
            if not fits:
                out.append((False, f"{desc}: accepted, statement {r[1]}", "direct ACCEPTED wrong list"))
            else:
                st = r[1]
                keys = list(st.parameters.keys())
                ok = keys == pnames and st.gate_def is g
                out.append((ok, f"{desc}: accepted but the statement binds {keys} (definition {st.gate_def!r})", "direct accepted"))
    return out


# ---------------------------------------------------------------------------------------------------------------
# generation

BASE_POOL = [
    ("X", ["qubit"], 1), ("Rk", ["qubit", "int"], 1), ("Rf", ["qubit", "float"], 1), ("Fq", ["float", "qubit"], 1),
    ("XX", ["qubit", "qubit"], 3), ("Xa", ["qubit", "qubit"], 1), ("Xb", ["qubit", "qubit"], 2), ("Ms", ["qubit", "qubit", "float"], 3),
    ("R", ["qubit"], 1), ("Rkk", ["qubit", "int", "int"], 1),
]
PNAME_SETS = [["q", "t", "u", "v"], ["a", "ab", "abc", "b"], ["self", "args", "kwargs", "name"], ["stretch0", "stretc", "s", "x"]]
SUFFIXES = ["_stretched", "_s", "s", "X", None, None]
FORMS = ["dict", "dict", "dict", "list", "tuple", "values", "deque", "iterable", "gen", "odict"]


def gen_world(rng):
    names = rng.sample(BASE_POOL, rng.choice([2, 3, 4]))
    pn = rng.choice(PNAME_SETS)
    base = [{"name": n, "params": [[pn[i], k] for i, k in enumerate(kinds)], "mask": m} for n, kinds, m in names]
    base += [dict(p) for p in PMSPECS]
    if rng.random() < 0.5:
        rng.shuffle(base)
    if rng.random() < 0.3:
        base.sort(key=lambda s: s["name"], reverse=True)
    world = {"base": base, "ops": [], "form": rng.choice(FORMS)}
    n_ops = rng.choice([1, 1, 2, 2, 3, 4])
    for _ in range(n_ops):
        R = ref_world(world)
        plain = [s for s in R.values() if not s.get("busy")]
        k = rng.choice(["stretch", "stretch", "stretch", "idle_all", "idle1", "copy", "copy", "copy", "pycopy", "via_parse", "via_builder"])
        if k == "stretch":
            op = ["stretch", rng.choice(SUFFIXES), rng.random() < 0.4]
        elif k == "idle_all":
            op = ["idle_all"]
        elif k == "idle1":
            s = rng.choice(plain)
            op = ["idle1", s["name"], rng.choice([None, None, "Idle" + s["name"], s["name"] + "_i"])]
        elif k == "copy":
            s = rng.choice(plain)
            newname = rng.choice([None, s["name"] + "c", s["name"] + "2", "C" + s["name"]])
            params = mask = None
            how = rng.choice(["name", "params+", "params-", "params_kind", "params_q", "mask", "rename_params"])
            if how == "name" and newname is None:
                newname = s["name"] + "c"
            if how == "params+":
                params = [list(p) for p in s["params"]] + [[rng.choice(["extra", "w", "stretch"]), rng.choice(["float", "int"])]]
            elif how == "params-" and s["params"] and s["params"][-1][1] != "qubit":
                params = [list(p) for p in s["params"][:-1]]
            elif how == "params_kind" and any(kd != "qubit" for _p, kd in s["params"]):
                params = [[p, {"int": "float", "float": "int"}.get(kd, kd)] for p, kd in s["params"]]
            elif how == "params_q" and not s.get("idle"):
                params = [list(p) for p in s["params"]] + [["qx", "qubit"]]
                mask = rng.randrange(1, 2 ** sum(1 for _p, kd in params if kd == "qubit"))
            elif how == "mask" and _has_unitary(s):
                mask = rng.randrange(0, 2 ** sum(1 for _p, kd in s["params"] if kd == "qubit"))
            elif how == "rename_params":
                params = [[p + "_", kd] for p, kd in s["params"]]
            if params is not None and len({p for p, _k in params}) != len(params):
                continue
            if newname is None and params is None and mask is None:
                newname = s["name"] + "c"
            op = ["copy", s["name"], newname, params, mask]
        elif k == "pycopy":
            op = ["pycopy", rng.choice(plain)["name"], rng.choice(["copy", "deepcopy"])]
        else:
            op = [k]
        world["ops"].append(op)
        try:
            ref_world(world)
        except Murky:
            world["ops"].pop()
    return world


def fitting(rng, spec, nq, regs):
    """E-format args that fit `spec`, on distinct fundamental qubits.  regs: [(name, offset, count)]"""
    free = list(range(nq))
    rng.shuffle(free)
    args = []
    for _pn, k in ([] if spec.get("busy") else spec["params"]):
        if k == "qubit":
            p = free.pop()
            cands = [(n, p - off) for n, off, cnt in regs if 0 <= p - off < cnt]
            n, i = rng.choice(cands)
            args.append(item(n, lit(i)))
        elif k == "int":
            args.append(rng.choice([anum(rng.randrange(0, 4)), anum(2.0), aid("n1")]))
        else:
            args.append(rng.choice([anum(rng.choice([0.25, 1.5, -0.5])), anum(2), aid("n1"), aid("f1")]))
    return args


MUTATIONS = ["fit", "fit", "drop_last", "drop_last", "drop_first", "add_float", "add_qubit", "kind_last", "kind_last", "kind_pos",
             "parent_args", "parent_args", "parent_name", "substring", "extension", "idx_out", "two_defects"]
WRAPS = ["direct", "direct", "seq", "par", "loop", "macro0", "macro1", "macro_all", "macro_nested"]


def related(R, name):
    """(parent spec | None, [children]) by name relation in the reference table"""
    s = R[name]
    parents = [o for o in R.values() if o is not s and (name.startswith(o["name"]) or name.endswith(o["name"])) and o["name"] != name]
    return parents


def mutate(rng, R, target, nq, regs, how):
    """-> (name, args, tag)"""
    spec = R[target]
    args = fitting(rng, spec, nq, regs)
    name = target
    used = set()
    spare_q = item("q", lit(rng.randrange(nq)))
    if how == "drop_last" and args:
        args = args[:-1]
    elif how == "drop_first" and args:
        args = args[1:]
    elif how == "add_float":
        args = args + [anum(rng.choice([1.0, 2, 0.5, 0]))]
    elif how == "add_qubit":
        args = args + [spare_q]
    elif how == "kind_last" and args:
        last = args[-1]
        args = args[:-1] + [rng.choice([anum(1), anum(0.5), aid("n1")]) if last["t"] == "item" else rng.choice([spare_q, aid("q"), spare_q])]
    elif how == "kind_pos" and args:
        p = rng.randrange(len(args))
        a = args[p]
        kd = spec["params"][p][1]
        if a["t"] == "item":
            args[p] = rng.choice([anum(0), anum(1.0), aid("f1"), aid("q")])
        elif kd == "int":
            args[p] = rng.choice([anum(0.5), aid("f1"), spare_q, aid("q")])
        else:
            args[p] = rng.choice([spare_q, aid("q")])
    elif how == "parent_args":
        ps = related(R, target)
        if ps:
            args = fitting(rng, rng.choice(ps), nq, regs)
    elif how == "parent_name":
        ps = related(R, target)
        if ps:
            name = rng.choice(ps)["name"]
    elif how == "substring":
        name = rng.choice([target[:-1], target[1:], target[: max(1, len(target) // 2)]]) or target
    elif how == "extension":
        name = target + rng.choice(["_", "d", "_stretched", "X"])
    elif how == "idx_out":
        qpos = [i for i, a in enumerate(args) if a["t"] == "item"]
        if qpos:
            i = rng.choice(qpos)
            rn = args[i]["reg"]
            cnt = [c for n, _o, c in regs if n == rn][0]
            args[i] = item(rn, lit(rng.choice([cnt, cnt + 1, -1])))
    del used
    return name, args


def gen_derived(rng, world=None, mutation=None):
    """-> (world, prog, probes for the direct-call oracle, nq)"""
    world = world or gen_world(rng)
    R = ref_world(world)
    nq = rng.choice([3, 4])
    desc = rng.random() < 0.5          # names declared in descending order
    lets = [("n1", rng.choice([1, 2, 3])), ("f1", 0.5)]
    if desc:
        lets.reverse()
    header = [{"k": "let", "name": n, "v": E.enc(v)} for n, v in lets]
    header.append({"k": "reg", "name": "q", "size": lit(nq)})
    regs = [("q", 0, nq)]
    if rng.random() < 0.5:
        header.append({"k": "map", "name": "qa", "src": "q", "form": "slice", "start": lit(1), "stop": lit(nq), "step": None})
        regs.append(("qa", 1, nq - 1))
    plain = [s["name"] for s in R.values() if not s.get("busy")]
    base_names = {s["name"] for s in world["base"]}
    derived = [n for n in plain if n not in base_names] or plain
    touched = [op[1] for op in world["ops"] if op[0] in ("copy", "pycopy", "idle1") and op[1] in R]
    target = rng.choice(derived * 3 + touched * 2 + plain)
    how = mutation or rng.choice(MUTATIONS)
    if how == "two_defects":
        n1, a1 = mutate(rng, R, target, nq, regs, rng.choice(["drop_last", "kind_last", "idx_out"]))
        n2, a2 = mutate(rng, R, rng.choice(plain), nq, regs, rng.choice(["add_float", "extension", "idx_out"]))
        calls = [gate(n1, *a1), gate(n2, *a2)]
    else:
        n1, a1 = mutate(rng, R, target, nq, regs, how)
        calls = [gate(n1, *a1)]
    probes = []
    for c in calls:
        if all(a["t"] != "id" for a in c["args"]) and all(a["t"] != "item" or a["reg"] == "q" for a in c["args"]):
            for style in ("pos", "call", "kw"):
                probes.append((c["name"], c["args"], style))
    top = []
    stmts = []
    mk = 0
    for c in calls:
        w = rng.choice(WRAPS)
        name, args = c["name"], c["args"]
        mk += 1
        mname = ("zm" if desc else "am") + str(mk)
        if w == "seq":
            stmts.append({"k": "seq", "body": [c]})
        elif w == "par":
            stmts.append({"k": "par", "body": [c]})
        elif w == "loop":
            stmts.append({"k": "loop", "count": lit(rng.choice([1, 3])), "body": [c]})
        elif w == "macro0" or (w in ("macro1", "macro_all", "macro_nested") and not args):
            top.append({"k": "macro", "name": mname, "params": [], "body": [c], "par": False})
            stmts.append(gate(mname))
        elif w == "macro1":
            top.append({"k": "macro", "name": mname, "params": ["x"], "body": [gate(name, aid("x"), *args[1:])], "par": False})
            stmts.append(gate(mname, args[0]))
        elif w == "macro_all":
            ps = [f"p{i}" for i in range(len(args))]
            if desc:
                ps = [f"p{len(args) - i}" for i in range(len(args))]
            top.append({"k": "macro", "name": mname, "params": ps, "body": [gate(name, *[aid(p) for p in ps])], "par": False})
            stmts.append(gate(mname, *args))
        elif w == "macro_nested":
            inner = ("zi" if desc else "ai") + str(mk)
            top.append({"k": "macro", "name": inner, "params": ["y"], "body": [gate(name, aid("y"), *args[1:])], "par": False})
            top.append({"k": "macro", "name": mname, "params": ["x"], "body": [{"k": "loop", "count": lit(1), "body": [gate(inner, aid("x"))]}],
                        "par": False})
            stmts.append(gate(mname, args[0]))
        else:
            stmts.append(c)
    # valid neighbours (so that the final state says something)
    for _ in range(rng.choice([0, 1, 2])):
        nb = rng.choice(plain)
        stmts.insert(rng.randrange(len(stmts) + 1), gate(nb, *fitting(rng, R[nb], nq, regs)))
    top += [gate("prepare_all")] + stmts + [gate("measure_all")]
    prog = {"header": header, "top": top, "ov": [], "stream": "derived", "tags": [f"mutation {how}"]}
    if rng.random() < 0.3:
        v = rng.choice([1, 2, {"f": "2.0"}, {"npi": 3}, {"f": "0.5"}])
        prog["ov"] = [["n1", v]]
    return world, prog, probes, nq


def gen_shared(rng):
    """ONE statement text / object in TWO scopes that give it different meanings (harness gate set): a macro parameter that
    bears the name of a let, two macros with the same body and their parameters swapped, a let used as index outside and a
    parameter of the same name inside.  With the `sx_trap` entry the equal sub-expressions are the same Python object."""
    nq = rng.choice([2, 3, 4])
    vals = [0, nq - 1, nq, nq + 1, -1]
    good = [0, nq - 1]
    kv = rng.choice(good * 3 + vals)
    av = rng.choice(good * 2 + vals)
    pb = E.PB(rng)
    pb.let(kv, name="K")
    pb.reg("q", lit(nq))
    pb.map_whole("r", "q")
    shape = rng.choice(["shadow", "shadow", "swapped", "twin_macros", "loopcount"])
    twin = gate("X", item("q", ident("K")))
    if shape == "shadow":
        pb.macro("m", ["K"], [twin])
        body = [twin, gate("m", anum(av))]
    elif shape == "swapped":
        st = gate("X", item("r", ident("K")))
        pb.macro("m1", ["r", "K"], [st])
        pb.macro("m2", ["K", "r"], [st])
        which = rng.choice(["ok", "ok", "swapped_call", "range"])
        a1 = [aid("q"), anum(av if which == "range" else rng.choice(good))]
        a2 = [anum(rng.choice(good)), aid("q")]
        if which == "swapped_call":
            a2.reverse()
        body = [st, gate("m1", *a1), gate("m2", *a2)]
    elif shape == "twin_macros":
        pb.macro("m1", ["K"], [twin])
        pb.macro("m2", ["J"], [twin])      # here K is the let
        body = [gate("m1", anum(av)), gate("m2", anum(rng.choice(vals)))]
    else:
        lp = {"k": "loop", "count": ident("K"), "body": [gate("X", item("q", lit(0)))]}
        pb.macro("m", ["K"], [lp, twin])
        body = [gate("m", anum(av))] + ([lp] if 0 <= kv <= 4 else [])
    if rng.random() < 0.5:
        body.reverse()
    pb.top.extend(body)
    prog = E.finish(pb, "shared")
    prog["tags"] = [f"shared {shape}"]
    if rng.random() < 0.4:
        prog["ov"] = [["K", rng.choice(vals + [{"f": repr(float(nq - 1))}, {"b": True}, {"npi": nq}])]]
    return prog


def gen_edge_prog(rng):
    f = rng.choice([E.gen_refs, E.gen_refs, E.gen_nonreg, E.gen_names, E.gen_calls, E.gen_calls])
    return f(rng)


def choose_pipes(rng, prog, text, thorough, k=3, prefer=None):
    ps = applicable(prog, text)
    if thorough:
        return ps
    rng.shuffle(ps)
    head = [p for p in ps if prefer and p in prefer][:1]
    return head + [p for p in ps if p not in head][: k - len(head)]


def prog_text(prog):
    try:
        return E.render_text(prog)
    except E.NoText:
        return None


def gen_case(rng, stream, thorough):
    """-> a JSON case {"stream", "world", "steps": [{"prog", "pipe"}], "share_parse", "probes", "nq"}"""
    if stream == "derived":
        world, prog, probes, nq = gen_derived(rng)
        text = prog_text(prog)
        pipes = choose_pipes(rng, prog, text, thorough, k=3)
        return {"stream": stream, "world": world, "steps": [{"prog": prog, "pipe": p} for p in pipes], "share_parse": False,
                "probes": [[n, a, s] for n, a, s in probes], "nq": nq}
    if stream in ("edge", "shared"):
        prog = gen_edge_prog(rng) if stream == "edge" else gen_shared(rng)
        text = prog_text(prog)
        pipes = choose_pipes(rng, prog, text, thorough, k=2, prefer=["T1", "T2", "R3"] if stream == "shared" else
                             ["T1", "T2", "N1", "N2", "R1", "R2", "R3", "R4", "R5", "R6", "R8"])
        world = {"harness": True, "form": rng.choice(["dict", "dict", "list", "tuple"])}
        return {"stream": stream, "world": world, "steps": [{"prog": prog, "pipe": p} for p in pipes], "share_parse": False,
                "probes": [], "nq": 0}
    # atomic: a family on one world, failure before success, first step repeated at the end
    if rng.random() < 0.6:
        world = gen_world(rng)
        if world["form"] in I.ONE_SHOT:
            world["form"] = "list"
        members = []
        muts = ["fit", rng.choice(["drop_last", "kind_last", "parent_args", "idx_out", "two_defects"]), "fit",
                rng.choice(MUTATIONS), rng.choice(["add_float", "extension", "substring", "fit"])]
        r0 = rng.random()
        for m in muts[: rng.choice([3, 4, 5])]:
            sub = random.Random(f"{r0}/{len(members)}/{m}")
            _w, prog, _p, _nq = gen_derived(sub, world=world, mutation=m)
            members.append(prog)
        order = list(range(len(members)))
        if rng.random() < 0.5:
            order = [1, 0] + order[2:]
        steps = []
        for k in order + [order[0]]:
            prog = members[k]
            text = prog_text(prog)
            ps = applicable(prog, text)
            steps.append({"prog": prog, "pipe": rng.choice(ps)})
        return {"stream": "atomic", "world": world, "steps": steps, "share_parse": True, "probes": [], "nq": 0}
    # one text, several override dictionaries, the parsed circuit shared
    world = {"harness": True, "form": "dict"}
    nq = rng.choice([3, 4, 5])
    decl = rng.choice([nq, nq - 1, nq + 1])
    pb = E.PB(rng)
    N = pb.let(decl, name="N")
    K = pb.let(rng.randrange(0, nq - 1), name="K")
    style = rng.choice(["size", "slice", "index"])
    if style == "size":
        pb.reg("q", ident(N))
        pb.header.append({"k": "map", "name": "a", "src": "q", "form": "slice", "start": lit(0), "stop": lit(nq - 1), "step": None})
    elif style == "slice":
        pb.reg("q", lit(nq))
        pb.header.append({"k": "map", "name": "a", "src": "q", "form": "slice", "start": ident(K), "stop": ident(N), "step": None})
    else:
        pb.reg("q", lit(nq))
        pb.map_whole("a", "q")
    pb.macro("m", ["r", "i"], [gate("X", item("r", ident("i")))])
    pb.top.append(gate("X", item("a", ident(K))))
    pb.top.append(gate("m", aid("a"), aid("K")))
    if rng.random() < 0.5:
        pb.top.append(gate("CX", item("q", lit(0)), item("a", lit(nq - 2))))
    base = E.finish(pb, "atomic")
    ovs = []
    vals = [0, 1, nq - 2, nq - 1, nq, nq + 1, -1, {"f": repr(float(nq - 1))}, {"f": "1.5"}, {"npi": nq}, {"b": True}]
    for _ in range(rng.choice([3, 4, 5])):
        ov = []
        if rng.random() < 0.7:
            ov.append(["N", rng.choice(vals)])
        if rng.random() < 0.7:
            ov.append(["K", rng.choice(vals)])
        rng.shuffle(ov)
        ovs.append(ov)
    ovs.append(ovs[0])
    steps = [{"prog": dict(base, ov=ov), "pipe": rng.choice(["A", "B", "R2", "R4", "R4", "R5", "RB"])} for ov in ovs]
    return {"stream": "atomic", "world": world, "steps": steps, "share_parse": True, "probes": [], "nq": 0}


# ---------------------------------------------------------------------------------------------------------------
# running a case

ORACLES = ["invalid_reference_rejected", "rejected_when_known", "rejection_is_jaqalerror", "accepted_runs_on_reference_qubits",
           "definition_call_checked", "terminates"]


def run_case(case, report, count):
    """report(oracle, ok, step index, detail); count(fact)"""
    r = guarded(lambda: Ctx(case["world"]))
    if r[0] != "ok":
        # the derivation functions themselves refuse the set: nothing C14 says anything about
        count(f"world not constructible ({r[1] if r[0] != 'hang' else 'hang'})")
        if r[0] == "hang":
            report("terminates", False, 0, "deriving the gate set: no answer")
        return
    ctx = r[1]
    for op in case["world"].get("ops", []):
        count(f"op {op[0]}" + (f" suffix={op[1]!r} update={op[2]}" if op[0] == "stretch" else ""))
    count(f"form {ctx.form}")
    for k, step in enumerate(case["steps"]):
        prog, pipe = step["prog"], step["pipe"]
        verdict = judge(prog, ctx.R)
        text = prog_text(prog)
        if pipe not in applicable(prog, text):
            continue
        results, facts = check(ctx, prog, pipe, verdict, text, share_parse=case.get("share_parse", False), salt=f"{k}/{pipe}")
        for name, ok, detail in results:
            report(name, ok, k, detail)
        for f in facts:
            count(f"{case['stream']}: {f.split(' at ')[0].split(' (')[0]}")
            if len(case["steps"]) > 1 and case["stream"] == "atomic":
                count(f"atomic step {min(k, 5)}: {f.split(':')[0]}")
        count(f"pipeline {pipe}")
        for t in prog.get("tags", [])[:1]:
            if case["stream"] in ("derived", "shared"):
                count(t)
    if case.get("probes"):
        probes = [(n, a, s) for n, a, s in case["probes"]]
        for ok, detail, fact in direct_calls(ctx, case["nq"], probes):
            report("definition_call_checked", ok, -1, detail)
            count(fact)


WEIGHTS = [("derived", 10), ("edge", 4), ("shared", 3), ("atomic", 3)]


def run(seed: int, n: int, driver: str = DEFAULT_DRIVER, thorough: bool = False) -> dict:
    lib()
    rng = random.Random(f"c14_traps/{seed}/{int(bool(thorough))}")
    oracle = {o: {"cases": 0, "failures": []} for o in ORACLES}
    dist = collections.Counter()
    samples = []
    distinct = set()
    bag = [s for s, w in WEIGHTS for _ in range(w)]
    for k in range(n):
        stream = bag[k % len(bag)] if k < len(bag) else rng.choice(bag)
        sub = random.Random(f"c14_traps/{seed}/{int(bool(thorough))}/{k}/{rng.random()}")
        case = gen_case(sub, stream, thorough)
        dist[f"stream {stream}"] += 1

        def report(name, ok, step, detail, case=case):
            o = oracle[name]
            o["cases"] += 1
            if not ok:
                if len(o["failures"]) < 20:
                    c = dict(case, step=step)
                    if 0 <= step < len(case["steps"]):
                        c["pipe"] = case["steps"][step]["pipe"]
                        c["text"] = prog_text(case["steps"][step]["prog"])
                    o["failures"].append({"case": c, "detail": detail})
                else:
                    o["failures_not_listed"] = o.get("failures_not_listed", 0) + 1

        def count(f):
            dist[f] += 1

        run_case(case, report, count)
        for st in case["steps"]:
            distinct.add((json.dumps(st["prog"]["top"], sort_keys=True), json.dumps(case["world"], sort_keys=True), st["pipe"]))
        if len(samples) < 4 and k % 5 == 0:
            samples.append({"stream": stream, "world": case["world"], "pipes": [s["pipe"] for s in case["steps"]],
                            "text": prog_text(case["steps"][0]["prog"])})
    return {"corr": {}, "oracle": oracle, "distribution": dict(dist), "samples": samples, "nontrivial": len(distinct)}


def replay(case: dict, driver: str = DEFAULT_DRIVER) -> dict:
    """Re-run the whole case (all steps, in order, on fresh shared objects); failures of the recorded step come first."""
    lib()
    found = []

    def report(name, ok, step, detail):
        if not ok:
            found.append((0 if step == case.get("step") else 1, name, step, detail))

    run_case(case, report, lambda f: None)
    found.sort(key=lambda t: t[0])
    if not found:
        return {"oracle_ok": True, "detail": "no oracle fails on this case"}
    _, name, step, detail = found[0]
    text = prog_text(case["steps"][step]["prog"]) if 0 <= step < len(case["steps"]) else None
    pipe = case["steps"][step]["pipe"] if 0 <= step < len(case["steps"]) else None
    return {"oracle_ok": False,
            "detail": f"{name}: {detail}\n--- step {step} of {len(case['steps'])}, pipeline {pipe} = {PIPES.get(pipe)}\n"
                      f"world: {json.dumps(case['world'])[:600]}\n{text or ''}(+{len(found) - 1} more failing checks in this case)",
            "impl": {"oracle": name, "step": step, "pipe": pipe, "text": text}}


def main():
    ap = argparse.ArgumentParser()
    ap.add_argument("--seed", type=int, default=0)
    ap.add_argument("--n", type=int, default=1500)
    ap.add_argument("--thorough", action="store_true")
    ap.add_argument("--driver", default=DEFAULT_DRIVER)
    a = ap.parse_args()
    t0 = time.time()
    r = run(a.seed, a.n, a.driver, a.thorough)
    bad = 0
    for name, o in r["oracle"].items():
        print(f"{name:36s} cases {o['cases']:7d}  failures {len(o['failures'])}")
        bad += len(o["failures"])
        for f in o["failures"][:2]:
            c = f["case"]
            print(f"   [{c['stream']} step {c.get('step')} pipe {c.get('pipe')}] {f['detail'][:600]}")
            print(f"   world: {json.dumps(c['world'])[:400]}")
            if c.get("text"):
                print("   " + c["text"].replace("\n", "\n   "))
    print("distribution:", json.dumps(r["distribution"], indent=1, sort_keys=True))
    print("nontrivial:", r["nontrivial"], " seconds:", round(time.time() - t0, 1))
    sys.exit(1 if bad else 0)


if __name__ == "__main__":
    main()
