#!/venv/bin/python
"""C05, third strengthening round: VALUES and PATHS the other C05 generators never produce.

    PYTHONPATH=/verif /venv/bin/python /verif/harness/agents/c05_edge.py [--seed 0] [--n 500] [--thorough]

Oracles only (`corr` is empty).  Every case is a program given as a small syntax tree (`prog`, rendered to Jaqal text by
this script), a list of override dictionaries applied one after the other, and an entry point.  The REFERENCE is computed
here from the syntax tree alone: the environment (override value if given, else declared value), the registers and
aliases as arithmetic progressions over the fundamental register (big sizes never enumerated), every gate argument /
index / count evaluated in that environment, macro parameters left symbolic.  Nothing of the library's let machinery is
used to compute it.

streams
  roles     one fixed program with one constant per POSITION the grammar allows (register size, index in the body, index
            through an alias, the three slice bounds, single-qubit alias index, loop count, subcircuit count, float gate
            argument, INT-typed gate argument, index / loop count / argument inside macro bodies, macro call argument,
            count of an empty loop, constants shadowed by macro parameters) x an override value from the edge pools: zero in all spellings (0, 0.0,
            -0.0), integral floats, floats one ulp off an integer, large floats WITH a fractional part (relative vs
            absolute tolerance), values next to 2**53 / 2**63 / 2**64 / 65535, 4300-digit integers, subnormals, huge and
            tiny magnitudes, nan / inf (gate-argument positions), out-of-range and non-integral values in integer positions
  pairs     the same program with two or three constants overridden consistently (size 65536 with index 65535, …)
  random    generated programs (aliases of aliases with let bounds, macros whose parameters shadow constants / registers,
            empty blocks, zero counts, argument 0 through a macro parameter, nested loops / parallel / subcircuit blocks)
            with override values from the same pools, several override dictionaries applied to ONE parsed circuit
  declared  edge values written into the `let` lines themselves (the declared-value path), with and without overrides
  emu       rotations by declared / overridden angles run through the real emulator against the closed form

entry points: fill_in_let(c, ov) (also ov=None / {} when there is nothing to override) and
parse_jaqal_string(text, expand_let=True, override_dict=ov).

oracle
  no_constant_left        no gate argument, qubit index, register size, alias bound, loop count or subcircuit count of the
                          result (body, macro bodies, registers) is or contains a Constant
  value_exact             every such position holds EXACTLY the value of its constant in the chosen environment (numeric
                          equality, no tolerance: 123456789012.75 is not 123456789013; an integral float may appear as the
                          int of the same value), every qubit resolves to the fundamental index the reference computes within
                          the NEW register size, every alias denotes the progression the reference computes; macro parameters
                          (also those shadowing a constant) are left alone
  frame_preserved         block kinds, subcircuit flags, loop / gate skeleton, macro names and parameter names, native gates,
                          usepulses are those of the original
  meaning_expanded        expand_macros(result), normalised, equals the call-by-value interpretation of the program in the
                          environment (this script's interpreter)
  invalid_env_rejected    an environment in which the program has no meaning (index outside the new size, non-integral or
                          non-finite value in an integer position, size < 1, step 0, non-integral value for an INT-typed gate
                          parameter) is refused, not turned into some circuit
  rejection_is_jaqal_error  … and, when every value of the environment is finite, with JaqalError (as only_jaqal_errors of
                          pass2_diff; with a nan / inf in the environment any exception is accepted and its class recorded in
                          the distribution: the unchanged library answers ValueError / OverflowError for nan / inf as an index)
  valid_env_accepted      an environment in which the reference evaluates every position is not refused
  emulated_rotation       emulator probabilities of the filled-in circuit == closed form of the rotations by the environment's
                          angles (and == those of the program with the numbers written as literals)
  terminates              every library call returns within the alarm

Grey zones the reference does not decide (recorded, never failed): something invalid only inside a macro body (the
macro may never be called), empty slices with a bound outside the source, defaulted stops over aliases (open finding
defaulted-stop-frozen: never generated here).
"""
import argparse
import json
import math
import os
import random
import signal
import sys
import warnings
from collections import Counter

DEFAULT_DRIVER = "/verif/lean/.lake/build/bin/jaqal-model"
INF = float("inf")


def _imports():
    global T, GATES, SIG, parse_jaqal_string, fill_in_let, expand_macros, JaqalError, np
    global GateStatement, BlockStatement, LoopStatement, Parameter, Constant, NamedQubit, Register, Macro, AnnotatedValue
    global GateDefinition, ParamType, BusyGateDefinition
    os.environ["JAQALPAQ_RUN_EMULATOR"] = "1"
    import numpy as np
    from harness import timeouts as T
    from harness.gates import GATES, SIG
    from jaqalpaq.parser import parse_jaqal_string
    from jaqalpaq.core.algorithm import expand_macros, fill_in_let
    from jaqalpaq.core.gate import GateStatement
    from jaqalpaq.core.block import BlockStatement, LoopStatement
    from jaqalpaq.core.parameter import Parameter, AnnotatedValue, ParamType
    from jaqalpaq.core.constant import Constant
    from jaqalpaq.core.register import NamedQubit, Register
    from jaqalpaq.core.macro import Macro
    from jaqalpaq.core import GateDefinition
    from jaqalpaq.core.gatedef import BusyGateDefinition
    from jaqalpaq.error import JaqalError


class Hang(Exception):
    pass


def _alarm(*a):
    raise Hang()


# ------------------------------------------------------------------------------------------------
# values: JSON encoding, literals

def enc(v):
    if isinstance(v, bool):
        raise TypeError("bool")
    if isinstance(v, int):
        return {"int": str(v)}
    if type(v).__name__ == "float64":
        return {"npfloat": repr(float(v))}      # numpy.float64 is a float (subclass): computed overrides often are
    return {"float": repr(float(v))}


def dec(e):
    if "int" in e:
        return int(e["int"])
    if "npfloat" in e:
        return np.float64(float(e["npfloat"]))
    return float(e["float"])


def lit_text(v):
    """a Jaqal literal denoting exactly v (a float literal needs a '.' in its mantissa)"""
    if isinstance(v, int):
        return str(v)
    s = repr(v)
    if "." in s:
        return s
    if "e" in s:
        m, e = s.split("e")
        return f"{m}.0e{e}"
    raise ValueError(f"no literal for {v!r}")


def finite(v):
    return not (isinstance(v, float) and (v != v or v in (INF, -INF)))


def integral(v):
    return finite(v) and v == int(v)


def vclass(v):
    if isinstance(v, int):
        a = abs(v)
        return ("int 0" if v == 0 else "int small" if a < 65535 else "int 65535..2**53" if a <= 2**53 else
                "int 2**53..2**64+" if a <= 2**64 + 1 else "int huge")
    if v != v:
        return "float nan"
    if v in (INF, -INF):
        return "float inf"
    if v == 0:
        return "float -0.0" if math.copysign(1, v) < 0 else "float 0.0"
    if v == int(v):
        return "float integral" + (" >= 2**53" if abs(v) >= 2.0**53 else "")
    a = abs(v)
    near = abs(v - round(v))
    if a >= 1 and near / a < 1e-9:
        return "float fractional, relatively close to an integer (<1e-9)"
    if near < 1e-9:
        return "float fractional, absolutely close to an integer (<1e-9)"
    return "float fractional" + (" tiny" if a < 1e-100 else "")


# ------------------------------------------------------------------------------------------------
# programs: syntax tree -> text
#   expr  ["lit", enc] | ["id", name] | None (defaulted slice bound / absent subcircuit count)
#   arg   ["num", expr] | ["q", source-name, expr] | ["id", name]
#   stmt  ["gate", name, [arg]] | ["loop", expr, block] | ["seq", [stmt]] | ["par", [stmt]] | ["sub", expr|None, [stmt]]
#   map   [name, "whole", src] | [name, "single", src, expr] | [name, "slice", src, expr|None, expr|None, expr|None]
#   prog  {"lets": [[name, enc]], "size": expr, "maps": [map], "macros": [[name, [param], block]], "body": [stmt],
#          "usepulses": bool, "mode": "gates"|"nogates"|"rx"}

def L(v):
    return ["lit", enc(v)]


def I(name):
    return ["id", name]


def r_expr(e):
    if e is None:
        return ""
    if e[0] == "lit":
        return lit_text(dec(e[1]))
    return e[1]


def r_arg(a):
    if a[0] == "num":
        return r_expr(a[1])
    if a[0] == "q":
        return f"{a[1]}[{r_expr(a[2])}]"
    return a[1]


def r_stmt(s):
    k = s[0]
    if k == "gate":
        return s[1] + "".join(" " + r_arg(a) for a in s[2])
    if k == "loop":
        return f"loop {r_expr(s[1])} " + r_stmt(s[2])
    if k == "seq":
        return "{ " + "; ".join(r_stmt(x) for x in s[1]) + " }"
    if k == "par":
        return "< " + " | ".join(r_stmt(x) for x in s[1]) + " >"
    if k == "sub":
        c = r_expr(s[1])
        return "subcircuit " + (c + " " if c else "") + "{ " + "; ".join(r_stmt(x) for x in s[2]) + " }"
    raise ValueError(k)


def render(prog):
    out = []
    if prog.get("usepulses"):
        out.append("from c05edge.pulses usepulses *")
    for name, v in prog["lets"]:
        out.append(f"let {name} {lit_text(dec(v))}")
    out.append(f"register r[{r_expr(prog['size'])}]")
    for m in prog["maps"]:
        if m[1] == "whole":
            out.append(f"map {m[0]} {m[2]}")
        elif m[1] == "single":
            out.append(f"map {m[0]} {m[2]}[{r_expr(m[3])}]")
        else:
            a, e, s = r_expr(m[3]), r_expr(m[4]), r_expr(m[5])
            out.append(f"map {m[0]} {m[2]}[{a}:{e}" + (f":{s}" if m[5] is not None else "") + "]")
    for name, params, body in prog["macros"]:
        out.append(f"macro {name} " + "".join(p + " " for p in params) + r_stmt(body))
    for s in prog["body"]:
        out.append(r_stmt(s))
    return "\n".join(out) + "\n"


# ------------------------------------------------------------------------------------------------
# reference semantics (this script's own; arithmetic on progressions, nothing enumerated)

class Invalid(Exception):
    def __init__(self, why, nonfinite=False):
        super().__init__(why)
        self.nonfinite = nonfinite


class Grey(Exception):
    """the reference does not decide (see the module docstring)"""


def int_pos(v, what):
    if isinstance(v, float):
        if not finite(v):
            raise Invalid(f"{what}: {v!r} is not finite", nonfinite=True)
        if v != int(v):
            raise Invalid(f"{what}: {v!r} is not an integer")
        v = int(v)
    return v


def rlen(a, e, s):
    if s > 0:
        return max(0, -((a - e) // s))
    return max(0, -((e - a) // -s))


class Reg:
    """a register as the progression  i -> base + i*step  over the fundamental register, 0 <= i < size"""

    def __init__(self, name, size, base=0, step=1, fund_size=None):
        self.name, self.size, self.base, self.step, self.fund_size = name, size, base, step, fund_size

    def elem(self, i):
        return self.base + i * self.step

    def denote(self):
        idx = sorted({i for i in (0, 1, 2, self.size - 1, self.size // 2) if 0 <= i < self.size})
        return ["reg", self.fund_size, self.size, [[i, self.elem(i)] for i in idx]]


class Qb:
    def __init__(self, name, fund, fund_size):
        self.name, self.fund, self.fund_size = name, fund, fund_size


class Ref:
    """the program in one environment"""

    def __init__(self, prog, env):
        self.prog, self.env, self.mode = prog, env, prog["mode"]
        self.regs = {}
        self.grey = []
        self.header()

    def val(self, e, params=()):
        if e[0] == "lit":
            return dec(e[1])
        if e[1] in params:
            return ("p", e[1])
        return self.env[e[1]]

    def header(self):
        n = int_pos(self.val(self.prog["size"]), "register size")
        if n < 1:
            raise Invalid(f"register size {n}")
        self.N = n
        self.regs["r"] = Reg("r", n, fund_size=n)
        for m in self.prog["maps"]:
            name, kind, src = m[0], m[1], self.regs[m[2]]
            if kind == "whole":
                self.regs[name] = Reg(name, src.size, src.base, src.step, n)
            elif kind == "single":
                i = int_pos(self.val(m[3]), f"index of map {name}")
                if not 0 <= i < src.size:
                    raise Invalid(f"map {name} {m[2]}[{i}] outside size {src.size}")
                self.regs[name] = Qb(name, src.elem(i), n)
            else:
                a = 0 if m[3] is None else int_pos(self.val(m[3]), f"start of map {name}")
                s = 1 if m[5] is None else int_pos(self.val(m[5]), f"step of map {name}")
                e = src.size if m[4] is None else int_pos(self.val(m[4]), f"stop of map {name}")
                if s == 0:
                    raise Invalid(f"map {name}: step 0")
                k = rlen(a, e, s)
                if k > 0:
                    first, last = a, a + (k - 1) * s
                    if not (0 <= first < src.size and 0 <= last < src.size):
                        raise Invalid(f"map {name} {m[2]}[{a}:{e}:{s}] leaves size {src.size}")
                # range semantics say the selection lies inside the source, but a bound lies outside it: not decided here
                if a < 0 or e > src.size:
                    self.grey.append(f"slice {a}:{e}:{s} with a bound outside size {src.size} selecting inside")
                self.regs[name] = Reg(name, k, src.elem(a) if k else 0, src.step * s, n)

    # --- one argument
    def arg(self, a, params, in_macro):
        k = a[0]
        if k == "num":
            v = self.val(a[1], params)
            return v if isinstance(v, tuple) else ("n", v)
        if k == "id":
            nm = a[1]
            if nm in params:
                return ("p", nm)
            if nm in self.env:
                return ("n", self.env[nm])
            r = self.regs[nm]
            if isinstance(r, Qb):
                return ("q", r.fund_size, r.fund)
            return tuple(r.denote())
        src, iv = a[1], self.val(a[2], params)
        if src in params:
            if isinstance(iv, tuple):
                return ("qp", src, iv)
            if not integral(iv):
                raise Grey(f"non-integral index {iv!r} over parameter {src}")
            return ("qp", src, ("n", int(iv)))
        r = self.regs[src]
        if isinstance(r, Qb):
            raise Invalid(f"{src} is a qubit")
        if isinstance(iv, tuple):
            return ("qi", tuple(r.denote()), iv)
        i = int_pos(iv, f"index of {src}")
        if not 0 <= i < r.size:
            raise Invalid(f"{src}[{i}] outside size {r.size}")
        return ("q", r.fund_size, r.elem(i))

    def gate(self, s, params, in_macro):
        args = [self.arg(a, params, in_macro) for a in s[2]]
        if self.mode in ("gates", "rx") and s[1] in self.sigs():
            for ch, a in zip(self.sigs()[s[1]], args):
                if ch == "i" and a[0] == "n" and not integral(a[1]):
                    raise Invalid(f"{s[1]}: {a[1]!r} for an INT parameter", nonfinite=not finite(a[1]))
        return ("g", s[1], tuple(args))

    def sigs(self):
        d = dict(SIG)
        d["PF"] = "fq"      # FLOAT-typed
        d["P"] = "qi"       # INT-typed
        d["Rx"] = "qf"
        return d

    def count(self, e, params, what):
        if e is None:
            return ("n", 1)
        v = self.val(e, params)
        if isinstance(v, tuple):
            return v
        return ("n", int_pos(v, what))

    def stmt(self, s, params=(), in_macro=False):
        k = s[0]
        if k == "gate":
            return self.gate(s, params, in_macro)
        if k == "loop":
            return ("l", self.count(s[1], params, "loop count"), self.stmt(s[2], params, in_macro))
        if k == "sub":
            return ("b", False, True, self.count(s[1], params, "subcircuit count"),
                    tuple(self.stmt(x, params, in_macro) for x in s[2]))
        return ("b", k == "par", False, ("n", 1), tuple(self.stmt(x, params, in_macro) for x in s[1]))

    def tree(self):
        """(registers, macros, body); Invalid from the body / header propagates, anything wrong in a macro body is Grey"""
        regs = []
        for name, r in self.regs.items():
            regs.append((name, ("q", r.fund_size, r.fund) if isinstance(r, Qb) else tuple(r.denote())))
        body = ("b", False, False, ("n", 1), tuple(self.stmt(s) for s in self.prog["body"]))
        macros = []
        for name, params, blk in self.prog["macros"]:
            try:
                macros.append((name, tuple(params), self.stmt(blk, tuple(params), True)))
            except Invalid as e:
                raise Grey(f"macro {name}: {e}")
        if self.grey:
            raise Grey(self.grey[0])
        return (tuple(regs), tuple(macros), body)

    # --- call-by-value interpretation (macros expanded)
    def run(self):
        macros = {m[0]: m for m in self.prog["macros"]}
        sigs = self.sigs() if self.mode in ("gates", "rx") else {}

        def num_of(e, b):
            if e[0] == "id" and e[1] in b:
                return b[e[1]]
            v = self.val(e)
            if e[0] == "id" and isinstance(v, float) and integral(v):
                v = int(v)          # a constant whose value is an integral float reads as that integer
            return ("n", v)

        def as_int(v, what):
            if isinstance(v, float):
                # a float LITERAL reaching an integer position through a macro parameter (`M 0.0`): not C05's business
                raise Grey(f"{what}: float {v!r} after substitution")
            return v

        def bind(a, b):
            """value of an argument under the bindings b of macro parameters"""
            k = a[0]
            if k == "num":
                return num_of(a[1], b)
            if k == "id":
                nm = a[1]
                if nm in b:
                    return b[nm]
                if nm in self.env:
                    return num_of(a, b)
                r = self.regs[nm]
                if isinstance(r, Qb):
                    return ("q", r.fund_size, r.fund)
                return ("regobj", r)
            src = a[1]
            iv = num_of(a[2], b)
            if iv[0] != "n":
                raise Grey("index bound to a non-number")
            i = as_int(iv[1], "index")
            if src in b:
                rv = b[src]
                if rv[0] != "regobj":
                    raise Grey("source bound to a non-register")
                r = rv[1]
            else:
                r = self.regs[src]
                if isinstance(r, Qb):
                    raise Grey("qubit indexed")
            if not 0 <= i < r.size:
                raise Grey("index outside the register after substitution")
            return ("q", r.fund_size, r.elem(i))

        def cnt(e, b, what):
            if e is None:
                return ("n", 1)
            v = num_of(e, b)
            if v[0] != "n":
                raise Grey("count bound to a non-number")
            return ("n", as_int(v[1], what))

        def st(s, b, depth):
            k = s[0]
            if k == "gate":
                if s[1] in macros:
                    if depth > 20:
                        raise Grey("deep")
                    _, params, blk = macros[s[1]]
                    if len(params) != len(s[2]):
                        raise Grey("arity")
                    return st(blk, dict(zip(params, [bind(a, b) for a in s[2]])), depth + 1)
                out = []
                for j, a in enumerate(s[2]):
                    v = bind(a, b)
                    if v[0] == "regobj":
                        v = tuple(v[1].denote())
                    sig = sigs.get(s[1])
                    if sig is not None and j < len(sig):
                        if (sig[j] == "q") != (v[0] == "q") or (sig[j] == "i" and not integral(v[1])):
                            raise Grey("ill-typed after substitution")
                    out.append(v)
                return ("g", s[1], tuple(out))
            if k == "loop":
                return ("l", cnt(s[1], b, "loop count"), st(s[2], b, depth))
            if k == "sub":
                return ("b", False, True, cnt(s[1], b, "subcircuit count"), tuple(st(x, b, depth) for x in s[2]))
            return ("b", k == "par", False, ("n", 1), tuple(st(x, b, depth) for x in s[1]))

        return norm(("b", False, False, ("n", 1), tuple(st(s, {}, 0) for s in self.prog["body"])))


def norm(t):
    """nested non-subcircuit blocks of the kind of their parent are spliced into it"""
    if t[0] == "g":
        return t
    if t[0] == "l":
        return ("l", t[1], norm(t[2]))
    return ("b", t[1], t[2], t[3], tuple(norm_list(t[1], t[4])))


def norm_list(par, l):
    out = []
    for s in l:
        if s[0] == "b" and not s[2]:
            if s[1] == par:
                out.extend(norm_list(par, s[4]))
            else:
                out.append(("b", s[1], False, ("n", 1), tuple(norm_list(s[1], s[4]))))
        else:
            out.append(norm(s))
    return out


def canon(t):
    """numbers compare by value (2.0 == 2), nan equals nan; everything hashable / comparable with =="""
    if isinstance(t, tuple) or isinstance(t, list):
        if len(t) == 2 and t[0] == "n":
            v = t[1]
            if isinstance(v, float) and v != v:
                return ("n", "nan")
            if isinstance(v, float) and finite(v) and v == int(v):
                return ("n", int(v))
            return ("n", v)
        return tuple(canon(x) for x in t)
    return t


def skeleton(t):
    """what fill_in_let is not responsible for: kinds, flags, gate names, arities"""
    if t[0] == "g":
        return ("g", t[1], len(t[2]))
    if t[0] == "l":
        return ("l", skeleton(t[2]))
    return ("b", t[1], t[2], tuple(skeleton(x) for x in t[4]))


def show(t, limit=700):
    s = repr(t)
    return s if len(s) <= limit else s[:limit] + "…"


# ------------------------------------------------------------------------------------------------
# reading the library's result

def impl_reg(r, consts):
    """denotation of a library Register in the result (sizes and elements through resolve_size / resolve_qubit)"""
    size = r.size
    if isinstance(size, Constant):
        consts.append(f"size of {r.name} is the constant {size.name}")
        size = size.value
    size = int(size)
    idx = sorted({i for i in (0, 1, 2, size - 1, size // 2) if 0 <= i < size})
    el = []
    fs = None
    for i in idx:
        fr, fi = r.resolve_qubit(i)
        fsz = fr.size
        if isinstance(fsz, Constant):
            consts.append(f"size of {fr.name} is the constant {fsz.name}")
            fsz = fsz.value
        fs = int(fsz) if fr.name == "r" else ("not r", fr.name)
        el.append([i, fi])
    if fs is None:
        # empty alias: the fundamental register at the end of the chain
        f = r
        while not f.fundamental:
            f = f.alias_from
        fsz = f.size
        if isinstance(fsz, Constant):
            consts.append(f"size of {f.name} is the constant {fsz.name}")
            fsz = fsz.value
        fs = int(fsz)
    return ("reg", fs, size, tuple(tuple(x) for x in el))


def scan_reg_consts(r, consts, seen=None):
    """Constants anywhere in the definition chain of a register / qubit"""
    if isinstance(r, NamedQubit):
        if isinstance(r.alias_index, Constant):
            consts.append(f"index of {r.name} is the constant {r.alias_index.name}")
        if isinstance(r.alias_from, (Register, NamedQubit)):
            scan_reg_consts(r.alias_from, consts)
        return
    if isinstance(r, Register):
        if r.fundamental:
            if isinstance(r._size, Constant):
                consts.append(f"size of {r.name} is the constant {r._size.name}")
            return
        sl = r.alias_slice
        if sl is not None:
            for nm, b in (("start", sl.start), ("stop", sl.stop), ("step", sl.step)):
                if isinstance(b, Constant):
                    consts.append(f"{nm} of {r.name} is the constant {b.name}")
        if isinstance(r.alias_from, (Register, NamedQubit)):
            scan_reg_consts(r.alias_from, consts)


def impl_num(v, consts, where):
    if isinstance(v, Constant):
        consts.append(f"{where} is the constant {v.name}")
        return ("n", v.value)
    if isinstance(v, Parameter):
        return ("p", v.name)
    if isinstance(v, bool) or not isinstance(v, (int, float)):
        return ("?", type(v).__name__, repr(v)[:60])
    return ("n", v)


def impl_arg(v, consts):
    if isinstance(v, NamedQubit):
        scan_reg_consts(v, consts)
        af, ai = v.alias_from, v.alias_index
        if isinstance(af, Parameter):
            return ("qp", af.name, impl_num(ai, consts, f"index of {v.name}"))
        if isinstance(ai, Parameter):
            return ("qi", impl_reg(af, consts), ("p", ai.name))
        if isinstance(ai, Constant):
            # reported by scan_reg_consts; resolve through the value so that the comparison can go on
            fr, fi = af.resolve_qubit(int(ai.value))
        else:
            fr, fi = v.resolve_qubit()
        fsz = fr.size
        if isinstance(fsz, Constant):
            fsz = fsz.value
        if not fr.fundamental or fr.name != "r":
            return ("?", "resolves to", fr.name)
        return ("q", int(fsz), fi)
    if isinstance(v, Register):
        scan_reg_consts(v, consts)
        return impl_reg(v, consts)
    return impl_num(v, consts, "gate argument")


def impl_stmt(s, consts):
    if isinstance(s, GateStatement):
        return ("g", s.name, tuple(impl_arg(v, consts) for v in s.parameters.values()))
    if isinstance(s, LoopStatement):
        return ("l", impl_num(s.iterations, consts, "loop count"), impl_stmt(s.statements, consts))
    if isinstance(s, BlockStatement):
        it = impl_num(s.iterations, consts, "subcircuit count") if s.subcircuit else ("n", 1)
        return ("b", bool(s.parallel), bool(s.subcircuit), it, tuple(impl_stmt(x, consts) for x in s.statements))
    return ("?", type(s).__name__)


def impl_tree(c):
    consts = []
    regs = []
    for name, r in c.registers.items():
        scan_reg_consts(r, consts)
        if isinstance(r, NamedQubit):
            regs.append((name, impl_arg(r, consts)))
        else:
            regs.append((name, impl_reg(r, consts)))
    macros = []
    for name, m in c.macros.items():
        macros.append((name, tuple(p.name for p in m.parameters), impl_stmt(m.body, consts)))
    body = impl_stmt(c.body, consts)
    return (tuple(regs), tuple(macros), body), consts


def frame_of(c):
    return {"natives": sorted(c.native_gates), "native_defs": dict(c.native_gates),
            "usepulses": [repr(u) for u in c.usepulses], "macros": [(n, tuple(p.name for p in m.parameters)) for n, m in c.macros.items()],
            "registers": list(c.registers)}


# ------------------------------------------------------------------------------------------------
# value pools

def nxt(x, k=1):
    for _ in range(abs(k)):
        x = math.nextafter(x, INF if k > 0 else -INF)
    return x


INT_EDGE = [0, 1, 2, 3, 4, 5, 7, -1, -2, 255, 65535, 65536, 65537, 2**31 - 1, 2**31, 2**32, 2**53 - 1, 2**53, 2**53 + 1,
            2**63 - 1, 2**63, 2**63 + 1, 2**64, 2**64 + 1, 10**30, -(2**63) - 1, -(2**53) - 1, 10**308, 10**400]
FLOAT_INTEGRAL = [0.0, -0.0, 1.0, 2.0, 3.0, 4.0, 5.0, -1.0, 65535.0, 65536.0, 2.0**31, 2.0**53, 2.0**53 + 2, 2.0**63, 2.0**64,
                  1e22, 1e23, 1e300, 1.7976931348623157e308, -1e300, -(2.0**63)]
FLOAT_FRAC = [0.5, 0.75, 0.25, 1.5, 2.5, 3.5, -0.5, 3.141592653589793, 1e-12, -1e-12, 1e-9, 1e-300, 5e-324, -5e-324,
              2.2250738585072014e-308, 1 - 1e-10, 0.9999999999, 0.9999999999999999, 1.0000000000000002, 1 + 1e-10,
              nxt(2.0), nxt(2.0, -1), nxt(3.0), nxt(3.0, -1), nxt(4.0, -1), nxt(65536.0), nxt(65536.0, -1),
              123456789012.75, -4000000000.5, 2.0**40 + 0.25, 2.0**52 - 0.5, 4503599627370495.5, 1e9 + 0.5, 5e8 + 0.25,
              65535.5, 1e15 + 0.5, -(2.0**51 + 0.5), 1e10 + 1e-5, 999999999.9999999, 1e12 + 0.001, 7e8 + 0.125,
              -123456789.00000001, 33554432.000000004]
NONFINITE = [float("nan"), INF, -INF]


def near_integer_floats(rng, k=None):
    """a float with a fractional part next to an integer of random magnitude"""
    if k is None:
        k = rng.choice([1, -1]) * rng.randrange(1, 10 ** rng.randrange(1, 16))
    c = rng.random()
    if c < 0.4:
        x = float(k) + rng.choice([0.5, 0.25, 0.75, 0.125, 2.0**-10])
    elif c < 0.8:
        x = nxt(float(k), rng.choice([1, -1, 2, -2, 3]))
    else:
        x = float(k) * (1 + rng.choice([1e-10, -1e-10, 3e-11, 1e-12]))
    if x == int(x):
        x = float(k) + 0.5 if abs(k) < 2**51 else 0.5
    return x


def any_value(rng):
    c = rng.random()
    if c < 0.22:
        return rng.choice(INT_EDGE)
    if c < 0.4:
        return rng.choice(FLOAT_INTEGRAL)
    if c < 0.68:
        return rng.choice(FLOAT_FRAC)
    if c < 0.9:
        return near_integer_floats(rng)
    if c < 0.94:
        return rng.choice(NONFINITE)
    return rng.uniform(-10, 10)


def int_value(rng, valid_hint):
    """a value for a constant in an integer position; valid_hint: a few ints likely to be valid there"""
    c = rng.random()
    if c < 0.4:
        v = rng.choice(valid_hint)
        return v if rng.random() < 0.55 else float(v)
    if c < 0.5:
        return rng.choice([0, 0.0, -0.0])
    if c < 0.64:
        return near_integer_floats(rng, rng.choice(valid_hint))      # one ulp off a valid value: not an integer
    if c < 0.76:
        return rng.choice(INT_EDGE)
    if c < 0.86:
        return rng.choice(FLOAT_INTEGRAL)
    if c < 0.96:
        return rng.choice(FLOAT_FRAC)
    return rng.choice(NONFINITE)


# ------------------------------------------------------------------------------------------------
# stream "roles": one constant per position

ROLE_LETS = [("n", 4), ("i", 1), ("j", 0), ("a0", 0), ("a1", 3), ("a2", 1), ("si", 2), ("c", 2), ("sc", 3), ("th", 0.5),
             ("ki", 2), ("mi", 1), ("mj", 1), ("mc", 2), ("z", 0), ("w", 0.25), ("e0", 0)]
ROLE_OF = {"n": "register size", "i": "index (body)", "j": "index through an alias", "a0": "slice start", "a1": "slice stop",
           "a2": "slice step", "si": "single-qubit alias index", "c": "loop count", "sc": "subcircuit count",
           "th": "gate argument (FLOAT)", "ki": "gate argument (INT)", "mi": "index over a macro parameter",
           "mj": "index in a macro body", "mc": "loop count in a macro body", "z": "macro call argument / shadowed by a parameter",
           "w": "gate argument in a parallel block / shadowed by a parameter", "e0": "loop count of an empty block (declared 0)"}
NUM_ROLES = ("th", "z", "w")
VALID_HINT = {"n": [4, 5, 6, 65536, 2**63, 3], "i": [0, 1, 2, 3], "j": [0, 1, 2], "a0": [0, 1, 2], "a1": [1, 2, 3, 4],
              "a2": [1, 2, 3], "si": [0, 1, 2, 3], "c": [0, 1, 2, 3, 10**30], "sc": [0, 1, 3, 2**64], "ki": [0, 1, 2, 3, 2**70],
              "mi": [0, 1, 2], "mj": [0, 1, 2, 3], "mc": [0, 1, 2, 5], "e0": [0, 1, 2, 5, 2**63]}


def roles_prog(decl=None):
    lets = [[k, enc(v)] for k, v in ROLE_LETS]
    if decl:
        lets = [[k, enc(decl.get(k, dec(v)))] for k, v in lets]
    g = lambda name, *a: ["gate", name, list(a)]
    q = lambda s, e: ["q", s, e]
    num = lambda e: ["num", e]
    return {
        "mode": "gates", "usepulses": True, "lets": lets, "size": I("n"),
        "maps": [["a", "slice", "r", I("a0"), I("a1"), I("a2")], ["q1", "single", "r", I("si")], ["b", "whole", "a"],
                 ["d", "slice", "r", L(1), None, None]],
        "macros": [
            ["M", ["x", "y", "v"], ["seq", [g("PF", num(I("y")), q("x", I("mi"))),
                                           ["loop", I("mc"), ["seq", [g("PF", num(I("th")), q("r", I("mj"))), g("P", I("v"), num(I("ki")))]]],
                                           g("PF", num(I("z")), I("v"))]]],
            ["K", ["z", "th", "n"], ["par", [g("PF", num(I("th")), q("r", I("z"))), g("P", q("d", L(0)), num(I("n")))]]],
            ["E", [], ["seq", []]],
        ],
        "body": [
            g("PF", num(I("th")), q("r", I("i"))),
            g("P", q("b", I("j")), num(I("ki"))),
            g("X", I("q1")),
            ["loop", I("c"), ["seq", [g("PF", num(I("th")), q("r", L(0)))]]],
            ["sub", I("sc"), [g("X", q("r", I("i"))), ["loop", I("c"), ["par", [g("X", q("d", I("j")))]]]]],
            g("M", I("a"), I("z"), I("q1")),
            g("K", num(L(1)), I("th"), num(L(0))),
            g("E"),
            ["par", [g("X", q("r", L(0))), g("PF", num(I("w")), q("r", L(1)))]],
            ["loop", I("e0"), ["seq", []]],
        ],
    }


def gen_roles(rng, idx, thorough):
    name = rng.choice([k for k, _ in ROLE_LETS])
    if name in NUM_ROLES:
        v = any_value(rng)
    else:
        v = int_value(rng, VALID_HINT[name])
    ov = {name: v}
    return {"stream": "roles", "prog": roles_prog(), "steps": [ov_enc(ov, rng)], "entry": rng.choice(["fill", "parse"]),
            "note": ROLE_OF[name]}


PAIRS = [
    {"n": 65536, "i": 65535}, {"n": 65536.0, "i": 65535.0, "mj": 65535}, {"n": 2**63, "i": 2**63 - 1}, {"n": 2**64 + 1, "i": 2**64},
    {"n": 2.0**63, "i": 2**62, "a1": 2**63, "a2": 2**61}, {"n": 10**30, "a0": 10**29, "a1": 10**30, "a2": 10**28, "j": 5},
    {"n": 65536, "i": 65536}, {"n": 2**63, "i": 2**63}, {"n": 5, "a1": 5, "j": 4, "mi": 4}, {"n": 5, "a1": 5, "j": 5},
    {"a0": 3, "a1": -1, "a2": -1, "j": 3}, {"a0": 3.0, "a1": -1.0, "a2": -1.0, "j": 3.0, "mi": 3},
    {"a0": 0, "a1": 0, "j": 0}, {"a0": 0, "a1": 4, "a2": 2, "j": 1, "mi": 1}, {"a0": 0, "a1": 4, "a2": 2, "j": 2},
    {"c": 0, "sc": 0, "mc": 0, "z": 0, "th": 0, "ki": 0, "w": 0}, {"c": 0.0, "sc": -0.0, "mc": 0.0, "z": -0.0, "th": -0.0, "w": 0.0},
    {"i": 0, "j": 0, "si": 0, "mi": 0, "mj": 0, "a0": 0}, {"i": 0.0, "j": -0.0, "si": 0.0, "mi": -0.0, "mj": 0.0},
    {"th": 123456789012.75, "w": -4000000000.5, "z": 2.0**40 + 0.25}, {"th": 1 - 1e-10, "w": 0.9999999999999999, "z": 1.0000000000000002},
    {"th": nxt(1e9), "w": nxt(1e9, -1), "z": 1e9}, {"th": 2**53 + 1, "w": 2.0**53, "z": 2**53 - 1},
    {"th": 10**4299, "c": 10**4299, "ki": 10**4299}, {"th": 5e-324, "w": -5e-324, "z": 1e-300},
    {"th": float("nan")}, {"w": INF, "z": -INF}, {"c": 2**63, "sc": 2**64, "mc": 10**30}, {"c": -1, "sc": -1, "mc": -3},
    {"ki": 2.0**70, "z": 1e300}, {"ki": 1.5}, {"ki": nxt(2.0)}, {"n": 4.0, "i": 3.0, "si": 3.0},
    {"n": 3, "a1": 3, "si": 2, "i": 2, "mj": 2}, {"n": 3, "si": 3}, {"n": 1, "a0": 0, "a1": 1, "si": 0, "i": 0, "mj": 0, "j": 0, "mi": 0},
]


def gen_pairs(rng, idx, thorough):
    ov = dict(rng.choice(PAIRS))
    if rng.random() < 0.3:
        k = rng.choice(NUM_ROLES)
        ov[k] = any_value(rng)
    return {"stream": "pairs", "prog": roles_prog(), "steps": [ov_enc(ov)], "entry": rng.choice(["fill", "parse"]), "note": "pairs"}


def ov_enc(ov, rng=None):
    if rng is not None:
        ov = {k: (np.float64(v) if isinstance(v, float) and rng.random() < 0.05 else v) for k, v in ov.items()}
    return [[k, enc(v)] for k, v in ov.items()]


def ov_dec(l):
    return {k: dec(v) for k, v in l}


# ------------------------------------------------------------------------------------------------
# stream "declared": edge values in the let lines

def gen_declared(rng, idx, thorough):
    decl = {}
    for k in rng.sample(NUM_ROLES, rng.randrange(1, 4)):
        v = any_value(rng)
        while not finite(v) or (isinstance(v, int) and len(str(abs(v))) > 4000 and not thorough):
            v = any_value(rng)
        decl[k] = v
    if rng.random() < 0.5:
        p = rng.choice([{"n": 65536, "i": 65535}, {"c": 0, "mc": 0, "sc": 0}, {"n": 4.0, "i": 3.0, "c": 2.0, "ki": 3.0, "a1": 3.0},
                        {"n": 2**63, "i": 2**63 - 1, "c": 2**64}, {"i": 0, "j": 0, "si": 0, "mi": 0, "mj": 0}, {"ki": 2**70, "c": 10**30},
                        {"a0": 3, "a1": -1, "a2": -1, "j": 3}, {"sc": 0.0, "c": -0.0}])
        decl.update(p)
    steps = [[]]
    if rng.random() < 0.6:
        ov = {}
        for k in rng.sample([k for k, _ in ROLE_LETS], rng.randrange(1, 3)):
            ov[k] = any_value(rng) if k in NUM_ROLES else int_value(rng, VALID_HINT[k])
        steps.append(ov_enc(ov))
        if rng.random() < 0.5:
            steps.append([])
    return {"stream": "declared", "prog": roles_prog(decl), "steps": steps, "entry": rng.choice(["fill", "fill", "parse"]),
            "note": "declared"}


# ------------------------------------------------------------------------------------------------
# stream "random": generated programs

LET_NAMES = ["n", "k", "m", "t", "s", "z", "th"]
ALIAS_NAMES = ["a", "b", "c", "d"]
PARAM_POOL = ["x", "y", "u", "v", "n", "k", "z", "th", "r", "a", "b", "q0"]


class Gen:
    def __init__(self, rng, mode):
        self.rng, self.mode = rng, mode
        self.lets = {}
        self.sizes = {}      # register / alias name -> size under the DECLARED values
        self.qnames = []     # single-qubit aliases
        self.macros = []     # (name, [(param, role)])
        self.int_hint = {}   # let -> ints likely valid where it is used
        self.features = Counter()
        self.anon = {}

    def hint(self, let, vals):
        self.int_hint.setdefault(let, []).extend(vals)

    def int_lets(self, pred, excl=()):
        return [l for l, v in self.lets.items() if l not in excl and isinstance(v, int) and pred(v)]

    def as_expr(self, v, excl=(), p=0.5, hint=None):
        ls = self.int_lets(lambda x: x == v, excl)
        if ls and self.rng.random() < p:
            l = self.rng.choice(ls)
            self.hint(l, hint if hint is not None else [v])
            return I(l)
        return L(v)

    def header(self):
        r = self.rng
        names = [n for n in LET_NAMES if r.random() < 0.7] or ["n"]
        for nm in names:
            c = r.random()
            if nm == "z":
                v = r.choice([0, 0, 0, 0.0, -0.0, 1])
            elif nm == "th":
                v = r.choice([0.5, 0.25, -1.5, 3.141592653589793, 0.0, 1e-12, 2.0])
            elif c < 0.8:
                v = r.choice([0, 1, 1, 2, 2, 3, 3, 4, 5])
            elif c < 0.9:
                v = r.choice([2.0, 3.0, 1.0, 0.0])      # declared integral floats are ints
            else:
                v = r.choice([6, 7, -1, 65536])
            self.lets[nm] = v
        # a declared integral float IS an int for the purposes of generation
        self.decl_int = {k: (int(v) if isinstance(v, float) and v == int(v) else v) for k, v in self.lets.items()}
        size = r.randrange(2, 8)
        ls = [l for l, v in self.decl_int.items() if isinstance(v, int) and 2 <= v <= 8]
        if ls and r.random() < 0.5:
            l = r.choice(ls)
            size = self.decl_int[l]
            self.hint(l, [size, size + 1, size - 1, 65536])
            self.size_expr = I(l)
            self.features["let register size"] += 1
        else:
            self.size_expr = L(size)
        self.sizes["r"] = size
        maps = []
        prev = "r"
        for name in ALIAS_NAMES[: r.choice([0, 1, 1, 2, 2, 3, 4])]:
            srcs = [s for s, n in self.sizes.items() if n > 0]
            src = prev if (prev in srcs and r.random() < 0.7) else r.choice(srcs)
            n = self.sizes[src]
            kind = r.random()
            if kind < 0.15:
                maps.append([name, "whole", src])
                self.sizes[name] = n
                prev = name
            elif kind < 0.35:
                i = r.randrange(n)
                maps.append([name, "single", src, self.as_expr(i, hint=[i, 0, n - 1, n])])
                self.qnames.append(name)
            else:
                step = r.choice([1, 1, 1, 2, 2, 3, -1, -1, -2])
                if step > 0:
                    a = r.randrange(0, n)
                    e = r.randrange(a, n + 1)
                else:
                    a = r.randrange(0, n)
                    e = r.randrange(-1, a + 1)
                k = rlen(a, e, step)
                ea = self.as_expr(a, hint=[a, 0, 1])
                ee = self.as_expr(e, hint=[e, n, n + 1, e - 1])
                es = self.as_expr(step, hint=[step, 1, 2, -1, 0])
                if step > 0 and a == 0 and r.random() < 0.3:
                    ea = None
                if step > 0 and e == n and src == "r" and r.random() < 0.35:
                    ee = None                       # defaulted stop: over the fundamental register only (open finding otherwise)
                    self.features["defaulted stop over r"] += 1
                if step == 1 and r.random() < 0.5:
                    es = None
                if ee is None and ea is None and es is not None:
                    pass
                maps.append([name, "slice", src, ea, ee, es])
                self.sizes[name] = k
                if k == 0:
                    self.features["empty alias"] += 1
                prev = name
        return maps

    # --- arguments
    def index(self, params, size):
        r = self.rng
        ips = [p for p, role in params if role == "i"]
        c = r.random()
        if ips and c < 0.3:
            return I(r.choice(ips))
        i = r.randrange(max(size, 1))
        if c < 0.4:
            i = 0
        shadow = [p for p, _ in params]
        return self.as_expr(i, excl=shadow, p=0.6, hint=[i, 0, size - 1, size, -1])

    def qubit(self, params):
        r = self.rng
        shadow = [p for p, _ in params]
        qps = [p for p, role in params if role == "q"]
        rps = [p for p, role in params if role == "reg"]
        c = r.random()
        if qps and c < 0.35:
            return I(r.choice(qps))
        if rps and c < 0.55:
            return ["q", r.choice(rps), self.index(params, 2)]
        qa = [q for q in self.qnames if q not in shadow]
        if qa and r.random() < 0.25:
            return I(r.choice(qa))
        cands = [(n, s) for n, s in self.sizes.items() if n not in shadow and s > 0]
        if not cands:
            return I(r.choice(qps)) if qps else ["q", "r", L(0)]
        name, size = r.choice(cands)
        return ["q", name, self.index(params, size)]

    def number(self, params, integer=False):
        r = self.rng
        shadow = [p for p, _ in params]
        ips = [p for p, role in params if role == "i"]
        c = r.random()
        if ips and c < 0.3:
            return ["num", I(r.choice(ips))]
        ls = [l for l in self.lets if l not in shadow and (not integer or isinstance(self.decl_int[l], int))]
        if ls and c < 0.7:
            l = r.choice(ls)
            if integer:
                self.hint(l, [0, 1, 2, 3])
            self.features["let gate argument" + (" (INT-typed)" if integer else "")] += 1
            return ["num", I(l)]
        if integer:
            return ["num", L(r.choice([0, 0, 1, 2, 3]))]
        return ["num", L(r.choice([0, 0.0, 1, 2, 1.5, -3.0, 0.25, 1e-12, 123456789012.75]))]

    def count(self, params, what):
        r = self.rng
        shadow = [p for p, _ in params]
        ips = [p for p, role in params if role == "i"]
        if ips and r.random() < 0.3:
            return I(r.choice(ips))
        ls = [l for l in self.lets if l not in shadow and isinstance(self.decl_int[l], int)]
        if ls and r.random() < 0.55:
            l = r.choice(ls)
            self.hint(l, [0, 1, 2, 3])
            self.features[f"let {what}"] += 1
            return I(l)
        return L(r.choice([0, 0, 1, 2, 2, 3]))

    def whole_reg(self, params):
        r = self.rng
        shadow = [p for p, _ in params]
        rps = [p for p, role in params if role == "reg"]
        if rps and r.random() < 0.5:
            return I(r.choice(rps))
        names = [n for n in self.sizes if n not in shadow]
        return I(r.choice(names)) if names else None

    def arg_for(self, role, params):
        if role == "q":
            return self.qubit(params)
        if role == "i":
            return self.number(params)
        w = self.whole_reg(params)
        return w if w is not None else self.qubit(params)

    def gate(self, params):
        r = self.rng
        if self.macros and r.random() < 0.35:
            name, mps = r.choice(self.macros)
            self.features["macro call"] += 1
            args = []
            for _, role in mps:
                a = self.arg_for(role, params)
                if role == "i" and r.random() < 0.3:
                    a = ["num", L(r.choice([0, 0.0, 0]))]
                    self.features["argument 0 through a macro parameter"] += 1
                args.append(a)
            return ["gate", name, args]
        if self.mode == "gates":
            name = r.choice(["X", "X", "Y", "P", "P", "PF", "PF", "PF", "CX", "N"])
            out = []
            for ch in SIG[name]:
                if ch == "q":
                    out.append(self.qubit(params))
                else:
                    out.append(self.number(params, integer=(name == "P")))
            if name == "CX" and out[0] == out[1]:
                return ["gate", "X", [out[0]]]
            return ["gate", name, out]
        name = r.choice(["G0", "G1", "G2", "G3"])
        if name not in self.anon:
            self.anon[name] = [r.choice(["q", "q", "i", "i", "reg"]) for _ in range(r.randrange(0, 4))]
        return ["gate", name, [self.arg_for(role, params) for role in self.anon[name]]]

    def items(self, params, depth, in_sub, top=False):
        r = self.rng
        out = []
        lo = 0 if (depth and r.random() < 0.12) else 1
        if lo == 0:
            self.features["empty block"] += 1
        for _ in range(r.randrange(lo, 4 if depth else 5) if lo else 0):
            c = r.random()
            if depth >= 3 or c < 0.5:
                out.append(self.gate(params))
            elif c < 0.68:
                out.append(["loop", self.count(params, "loop count"), self.block(params, depth + 1, in_sub)])
            elif c < 0.8:
                out.append(self.par(params, depth + 1))
            elif not in_sub and (top or depth <= 1):
                cnt = self.count(params, "subcircuit count") if r.random() < 0.7 else None
                out.append(["sub", cnt, self.items(params, depth + 1, True)])
            else:
                out.append(self.gate(params))
        return out

    def par(self, params, depth):
        r = self.rng
        out = []
        for _ in range(r.randrange(1, 4)):
            if depth < 3 and r.random() < 0.3:
                out.append(["seq", self.items(params, depth + 1, True)])
            else:
                out.append(self.gate(params))
        return ["par", out]

    def block(self, params, depth, in_sub):
        if self.rng.random() < 0.25:
            return self.par(params, depth)
        return ["seq", self.items(params, depth, in_sub)]

    def macro(self, idx):
        r = self.rng
        names = r.sample(PARAM_POOL, r.randrange(0, 4))
        params = [(p, r.choice(["q", "q", "i", "i", "reg"])) for p in names]
        if any(p in self.lets for p in names):
            self.features["parameter shadows a let"] += 1
        if any(p in self.sizes or p in self.qnames for p in names):
            self.features["parameter shadows a register"] += 1
        body = self.block(params, 1, True)     # no subcircuit inside macros
        self.macros.append((f"M{idx}", params))
        return [f"M{idx}", names, body]

    def program(self):
        r = self.rng
        maps = self.header()
        macros = [self.macro(i) for i in range(r.choice([0, 0, 1, 1, 2, 3]))]
        body = self.items([], 0, False, top=True)
        return {"mode": self.mode, "usepulses": r.random() < 0.3, "lets": [[k, enc(v)] for k, v in self.lets.items()],
                "size": self.size_expr, "maps": maps, "macros": macros, "body": body}


def lets_used_as_number_only(prog):
    """constants that occur only as plain gate arguments / macro call arguments (never in an integer position)"""
    intpos = set()

    def ex(e):
        if e is not None and e[0] == "id":
            intpos.add(e[1])

    ex(prog["size"])
    for m in prog["maps"]:
        for e in m[3:]:
            ex(e)

    def st(s, typed):
        if s[0] == "gate":
            sig = typed.get(s[1])
            for j, a in enumerate(s[2]):
                if a[0] == "q":
                    ex(a[2])
                elif sig is not None and j < len(sig) and sig[j] == "i" and a[0] in ("num", "id"):
                    ex(a[1] if a[0] == "num" else a)
                elif s[1] not in SIG and a[0] in ("num",):
                    # argument of a macro call / anonymous gate: may reach an integer position through a parameter
                    if s[1].startswith("M"):
                        ex(a[1])
        elif s[0] == "loop":
            ex(s[1])
            st(s[2], typed)
        elif s[0] == "sub":
            ex(s[1])
            for x in s[2]:
                st(x, typed)
        else:
            for x in s[1]:
                st(x, typed)

    typed = {"P": "qi"} if prog["mode"] == "gates" else {}
    for s in prog["body"]:
        st(s, typed)
    for _, _, b in prog["macros"]:
        st(b, typed)
    return [k for k, _ in prog["lets"] if k not in intpos]


def gen_random(rng, idx, thorough):
    mode = "gates" if rng.random() < 0.65 else "nogates"
    g = Gen(rng, mode)
    prog = g.program()
    numonly = set(lets_used_as_number_only(prog))
    steps = []
    for _ in range(rng.choice([1, 1, 2, 3])):
        ov = {}
        if rng.random() < 0.85:
            for l in g.lets:
                if rng.random() < 0.5:
                    if l in numonly:
                        ov[l] = any_value(rng)
                    else:
                        d = g.decl_int[l]
                        hint = list(g.int_hint.get(l, [])) + ([d] if isinstance(d, int) else [1])
                        ov[l] = int_value(rng, hint) if rng.random() < 0.9 else any_value(rng)
        steps.append(ov_enc(ov, rng))
    entry = "fill" if len(steps) > 1 else rng.choice(["fill", "parse"])
    return {"stream": "random", "prog": prog, "steps": steps, "entry": entry, "note": "random", "features": dict(g.features)}


# ------------------------------------------------------------------------------------------------
# stream "emu": rotations by the environment's angles through the real emulator

def rx(theta):
    c, s = np.cos(theta / 2), np.sin(theta / 2)
    return np.array([[c, -1j * s], [-1j * s, c]])


_RX = {}


def rx_gates():
    if not _RX:
        _RX["Rx"] = GateDefinition("Rx", [Parameter("q", ParamType.QUBIT), Parameter("t", ParamType.FLOAT)], ideal_unitary=rx)
        _RX["prepare_all"] = BusyGateDefinition("prepare_all", [])
        _RX["measure_all"] = BusyGateDefinition("measure_all", [])
    return _RX


def emu_prog(decl):
    g = lambda name, *a: ["gate", name, list(a)]
    return {"mode": "rx", "usepulses": False,
            "lets": [[k, enc(decl[k])] for k in ("th", "ph", "n", "i", "z")], "size": L(2), "maps": [],
            "macros": [["M", ["q", "x", "th"], ["seq", [g("Rx", I("q"), ["num", I("x")]), ["loop", I("z"), ["seq", [g("Rx", I("q"), ["num", I("th")])]]]]]]],
            "body": [g("prepare_all"), ["loop", I("n"), ["seq", [g("Rx", ["q", "r", I("i")], ["num", I("th")])]]],
                     g("M", ["q", "r", L(1)], ["num", I("ph")], ["num", L(0.5)]), g("measure_all")]}


def emu_angle(rng):
    c = rng.random()
    if c < 0.35:
        v = near_integer_floats(rng)
    elif c < 0.6:
        v = rng.choice([x for x in FLOAT_FRAC if abs(x) < 1e17])
    elif c < 0.75:
        v = rng.choice([0, 0.0, -0.0, 1, 3, 2.0, 4.0, 65536, 2**40, 2.0**50, -7])
    else:
        v = rng.uniform(-7, 7)
    return v


def gen_emu(rng, idx, thorough):
    decl = {"th": rng.choice([0.5, 1.25, emu_angle(rng)]), "ph": rng.choice([0.75, 2.0, emu_angle(rng)]), "n": rng.choice([1, 1, 2, 3]),
            "i": 0, "z": rng.choice([0, 0, 1, 2])}
    ov = {}
    for k in ("th", "ph"):
        if rng.random() < 0.8:
            ov[k] = emu_angle(rng)
    if rng.random() < 0.4:
        ov["n"] = rng.choice([0, 1, 2, 3, 1.0, 2.0, 0.0])
    if rng.random() < 0.3:
        ov["z"] = rng.choice([0, 1, 2, 0.0, -0.0, 3.0])
    return {"stream": "emu", "prog": emu_prog(decl), "steps": [ov_enc(ov)], "entry": rng.choice(["fill", "parse"]), "note": "emu"}


def emu_expected(prog, env):
    """probability that each qubit reads 1 (closed form by 2x2 products), as the product distribution, bit k = r[k]"""
    n = int_pos(env["n"], "n")
    z = int_pos(env["z"], "z")
    u0 = np.eye(2, dtype=complex)
    for _ in range(max(n, 0)):
        u0 = rx(float(env["th"])) @ u0
    u1 = rx(float(env["ph"]))
    for _ in range(max(z, 0)):
        u1 = rx(0.5) @ u1
    p0 = abs(u0[1, 0]) ** 2
    p1 = abs(u1[1, 0]) ** 2
    return [(1 - p0) * (1 - p1), p0 * (1 - p1), (1 - p0) * p1, p0 * p1]     # index = b0 + 2*b1


def emu_probs(c):
    from jaqalpaq.emulator import run_jaqal_circuit
    with warnings.catch_warnings():
        warnings.simplefilter("ignore")
        res = run_jaqal_circuit(c)
    return [float(x) for x in res.subcircuits[0].probability_by_int]


_CAL = {}


def emu_perm():
    """index of probability_by_int in terms of (b0 + 2*b1), calibrated on the real emulator with literal rotations"""
    if "p" not in _CAL:
        perm = {}
        for b0 in (0, 1):
            for b1 in (0, 1):
                t = "register r[2]\nprepare_all\n" + ("Rx r[0] 3.141592653589793\n" if b0 else "") + \
                    ("Rx r[1] 3.141592653589793\n" if b1 else "") + "measure_all\n"
                p = emu_probs(parse_jaqal_string(t, inject_pulses=rx_gates(), autoload_pulses=False))
                perm[b0 + 2 * b1] = max(range(4), key=lambda k: p[k])
        _CAL["p"] = perm
    return _CAL["p"]


# ------------------------------------------------------------------------------------------------
# running one case

def gates_for(mode):
    if mode == "gates":
        return GATES
    if mode == "rx":
        return rx_gates()
    return None


def parse_kw(mode):
    kw = {"autoload_pulses": False}
    g = gates_for(mode)
    if g is not None:
        kw["inject_pulses"] = g
    return kw


def run_case(case, rec, dist):
    """rec(name, ok, detail); every library call under the alarm"""
    prog = case["prog"]
    try:
        text = render(prog)
    except ValueError as e:
        dist["not renderable: " + str(e)[:40]] += 1
        return
    case["text"] = text if len(text) < 6000 else text[:6000] + "…"
    mode = prog["mode"]
    decl = {k: dec(v) for k, v in prog["lets"]}
    # declared integral floats are ints (`let n 2.0` declares 2): numerically the same, nothing to do in the reference

    def call(f, *a, **k):
        signal.alarm(int(T.limit()))
        try:
            return f(*a, **k)
        finally:
            signal.alarm(0)

    old = signal.signal(signal.SIGALRM, _alarm)
    try:
        try:
            with warnings.catch_warnings():
                warnings.simplefilter("ignore")
                c0 = call(parse_jaqal_string, text, **parse_kw(mode))
        except Hang:
            T.saw_hang()
            rec("terminates", False, "parse_jaqal_string: no result within the time limit")
            return
        except JaqalError as e:
            dist[f"front end rejects the declared program ({case['stream']})"] += 1
            return
        frame0 = frame_of(c0)
        for si, step in enumerate(case["steps"]):
            ov = ov_dec(step)
            env = dict(decl)
            env.update(ov)
            tag = f"step {si} overrides {ov!r}: " if len(case["steps"]) > 1 else f"overrides {ov!r}: "
            for k, v in ov.items():
                dist["override value: " + vclass(v)] += 1
                if type(v).__name__ == "float64":
                    dist["override value is a numpy.float64"] += 1
            # --- reference
            try:
                ref = Ref(prog, env)
                want = ("ok", ref.tree())
            except Invalid as e:
                want = ("invalid", str(e), e.nonfinite)
                ref = None
            except Grey as e:
                want = ("grey", str(e))
            except OverflowError as e:          # pragma: no cover  (the reference never enumerates)
                want = ("grey", "reference overflow")
            # --- library
            entry = case["entry"]
            try:
                with warnings.catch_warnings():
                    warnings.simplefilter("ignore")
                    if entry == "parse":
                        f = call(parse_jaqal_string, text, expand_let=True, override_dict=dict(ov), **parse_kw(mode))
                    elif not ov and si % 2 == 0:
                        f = call(fill_in_let, c0)
                    else:
                        f = call(fill_in_let, c0, dict(ov))
                got = ("ok", f)
            except Hang:
                T.saw_hang()
                rec("terminates", False, tag + f"{entry}: no result within the time limit")
                return
            except JaqalError as e:
                got = ("err", "JaqalError", str(e)[:120])
            except RecursionError:
                got = ("err", "RecursionError", "")
            except Exception as e:  # noqa
                got = ("err", type(e).__name__, str(e)[:120])
            rec("terminates", True)
            dist[f"{case['stream']}/{entry}: reference {want[0]}, library {'ok' if got[0] == 'ok' else got[1]}"] += 1
            if want[0] == "invalid":
                rec("invalid_env_rejected", got[0] == "err", tag + f"no meaning in this environment ({want[1]}), but a circuit was returned")
                if got[0] == "err":
                    if want[2] or not all(finite(v) for v in env.values()):
                        dist[f"non-finite value in an integer position: {got[1]}"] += 1
                    else:
                        rec("rejection_is_jaqal_error", got[1] == "JaqalError", tag + f"({want[1]}) raised {got[1]}: {got[2]}")
                continue
            if want[0] == "grey":
                dist["grey: " + want[1].split(":")[0][:50]] += 1
                if got[0] == "err":
                    continue
                # the library returned a circuit: constants must be gone all the same
                try:
                    _, consts = call(impl_tree, got[1])
                    rec("no_constant_left", not consts, tag + f"{consts[:3]}")
                except Hang:
                    T.saw_hang()
                except Exception:  # noqa
                    pass
                continue
            if got[0] == "err":
                rec("valid_env_accepted", False, tag + f"every position evaluates in this environment, but {entry} raised {got[1]}: {got[2]}")
                continue
            rec("valid_env_accepted", True)
            f = got[1]
            try:
                have, consts = call(impl_tree, f)
            except Hang:
                T.saw_hang()
                rec("terminates", False, tag + "reading the result: no result within the time limit")
                return
            except Exception as e:  # noqa
                rec("value_exact", False, tag + f"the result cannot be read: {type(e).__name__}: {str(e)[:200]}")
                continue
            rec("no_constant_left", not consts, tag + f"{consts[:3]}")
            wt = want[1]
            hs = (tuple(n for n, _ in have[0]), tuple((m[0], m[1], skeleton(m[2])) for m in have[1]), skeleton(have[2]))
            ws = (tuple(n for n, _ in wt[0]), tuple((m[0], m[1], skeleton(m[2])) for m in wt[1]), skeleton(wt[2]))
            fr = frame_of(f)
            fr_ok = hs == ws and all(fr[k] == frame0[k] for k in ("natives", "usepulses", "macros", "registers"))
            fr_ok = fr_ok and all(fr["native_defs"].get(k) is v or fr["native_defs"].get(k) == v for k, v in frame0["native_defs"].items())
            rec("frame_preserved", fr_ok, tag + (f"skeleton {show(hs, 300)} / expected {show(ws, 300)}" if hs != ws else
                                                 "natives / usepulses / macro signatures / register names differ from the original: " + show({k: (fr[k], frame0[k]) for k in ("natives", "usepulses", "macros", "registers") if fr[k] != frame0[k]}, 400)))
            if hs == ws:
                ch, cw = canon(have), canon(wt)
                if ch != cw:
                    rec("value_exact", False, tag + diff3(ch, cw))
                else:
                    rec("value_exact", True)
            # --- expanded meaning
            try:
                wm = ("ok", canon(ref.run()))
            except (Grey, Invalid) as e:
                wm = ("grey", str(e))
            if wm[0] == "ok":
                try:
                    with warnings.catch_warnings():
                        warnings.simplefilter("ignore")
                        e1 = call(expand_macros, f)
                        hm, _ = call(impl_tree, e1)
                    hm = canon(norm(hm[2]))
                    rec("meaning_expanded", hm == wm[1], (tag + "expanded: " + first_diff(hm, wm[1], "body")) if hm != wm[1] else "")
                except Hang:
                    T.saw_hang()
                    rec("terminates", False, tag + "expand_macros: no result within the time limit")
                    return
                except Exception as e:  # noqa
                    dist[f"expand_macros of the result raised {type(e).__name__}"] += 1
                    if os.environ.get("C05_EDGE_DEBUG"):
                        print("EXPAND", type(e).__name__, e, "\n", text, ov)
            else:
                dist["meaning_expanded not evaluated: " + wm[1][:40]] += 1
            # --- emulator
            if case["stream"] == "emu":
                try:
                    want_p = emu_expected(prog, env)
                    perm = call(emu_perm)
                    p = call(emu_probs, f)
                    got_p = [p[perm[k]] for k in range(4)]
                    ok = bool(np.allclose(got_p, want_p, atol=1e-9, rtol=0))
                    det = tag + f"emulated probabilities {got_p} / closed form {[float(x) for x in want_p]}"
                    if ok and all(finite(v) for v in env.values()):
                        lit = literal_text(prog, env)
                        pl = call(emu_probs, call(parse_jaqal_string, lit, **parse_kw(mode)))
                        if not np.allclose(pl, p, atol=1e-12, rtol=0):
                            ok = False
                            det = tag + f"emulated probabilities {p} / of the program with literals {pl}"
                    rec("emulated_rotation", ok, det)
                except Hang:
                    T.saw_hang()
                    rec("terminates", False, tag + "emulator: no result within the time limit")
                    return
    finally:
        signal.alarm(0)
        signal.signal(signal.SIGALRM, old)


def literal_text(prog, env):
    """the program with every constant written as a literal (no let line left)"""
    def ex(e, params):
        if e is None or e[0] == "lit" or e[1] in params or e[1] not in env:
            return e
        v = env[e[1]]
        if isinstance(v, float) and v == int(v):
            v = int(v)
        return L(v)

    def arg(a, params):
        if a[0] == "num":
            return ["num", ex(a[1], params)]
        if a[0] == "q":
            return ["q", a[1], ex(a[2], params)]
        if a[1] in params or a[1] not in env:
            return a
        return ["num", ex(a, params)]

    def st(s, params):
        if s[0] == "gate":
            return ["gate", s[1], [arg(a, params) for a in s[2]]]
        if s[0] == "loop":
            return ["loop", ex(s[1], params), st(s[2], params)]
        if s[0] == "sub":
            return ["sub", ex(s[1], params), [st(x, params) for x in s[2]]]
        return [s[0], [st(x, params) for x in s[1]]]

    p = dict(prog)
    p["lets"] = []
    p["size"] = ex(prog["size"], ())
    p["macros"] = [[n, ps, st(b, ps)] for n, ps, b in prog["macros"]]
    p["body"] = [st(s, ()) for s in prog["body"]]
    return render(p)


def first_diff(a, b, path="result"):
    """first position where two canonical trees differ, in words"""
    if isinstance(a, tuple) and isinstance(b, tuple) and len(a) == len(b) and a and isinstance(a[0], str) and a[0] == b[0]:
        tag = a[0]
        if tag == "g" and len(a) == 3:
            if a[1] != b[1] or len(a[2]) != len(b[2]):
                return f"{path}: gate {show(a, 200)} / expected {show(b, 200)}"
            for i, (x, y) in enumerate(zip(a[2], b[2])):
                if x != y:
                    return first_diff(x, y, f"{path} > {a[1]} argument {i}")
        if tag == "l" and len(a) == 3:
            if a[1] != b[1]:
                return first_diff(a[1], b[1], f"{path} > loop count")
            return first_diff(a[2], b[2], f"{path} > loop body")
        if tag == "b" and len(a) == 5:
            if a[1:3] != b[1:3]:
                return f"{path}: block kind (parallel, subcircuit) {a[1:3]} / expected {b[1:3]}"
            if a[3] != b[3]:
                return first_diff(a[3], b[3], f"{path} > subcircuit count")
            if len(a[4]) != len(b[4]):
                return f"{path}: {len(a[4])} statements / expected {len(b[4])}"
            for i, (x, y) in enumerate(zip(a[4], b[4])):
                if x != y:
                    return first_diff(x, y, f"{path} > statement {i}")
        if tag == "n" and len(a) == 2:
            return f"{path}: holds {a[1]!r}, the environment gives {b[1]!r}"
        if tag == "q" and len(a) == 3:
            return f"{path}: qubit {a[2]} of a register of size {a[1]}, the environment gives qubit {b[2]} of size {b[1]}"
        if tag == "reg" and len(a) == 4:
            return (f"{path}: register over a fundamental register of size {a[1]}, size {a[2]}, elements (index, fundamental index) "
                    f"{a[3]} / the environment gives fundamental size {b[1]}, size {b[2]}, elements {b[3]}")
    if isinstance(a, tuple) and isinstance(b, tuple) and len(a) == len(b):
        for i, (x, y) in enumerate(zip(a, b)):
            if x != y:
                return first_diff(x, y, f"{path}[{i}]")
    return f"{path}: {show(a, 250)} / expected {show(b, 250)}"


def diff3(have, want):
    """have / want: canonical (registers, macros, body)"""
    for (n1, v1), (n2, v2) in zip(have[0], want[0]):
        if (n1, v1) != (n2, v2):
            return first_diff(v1, v2, f"register {n1}")
    for m1, m2 in zip(have[1], want[1]):
        if m1 != m2:
            return first_diff(m1[2], m2[2], f"macro {m1[0]}") if m1[:2] == m2[:2] else f"macro {m1[:2]} / expected {m2[:2]}"
    return first_diff(have[2], want[2], "body")


# ------------------------------------------------------------------------------------------------

STREAMS = [("roles", gen_roles, 0.34), ("pairs", gen_pairs, 0.12), ("random", gen_random, 0.34), ("declared", gen_declared, 0.12),
           ("emu", gen_emu, 0.08)]


def gen_cases(seed, n, thorough):
    rng = random.Random(f"c05_edge:{seed}")
    cases = []
    for name, fn, share in STREAMS:
        k = max(3, int(round(n * share)))
        sub = random.Random(rng.randrange(1 << 62))
        for i in range(k):
            c = fn(sub, i, thorough)
            c["id"] = f"{name}-{seed}-{i}"
            cases.append(c)
    if thorough:
        # the whole grid of the roles stream: every position x every pooled value
        pool = INT_EDGE + FLOAT_INTEGRAL + FLOAT_FRAC + NONFINITE
        i = 0
        for name, _ in ROLE_LETS:
            for v in pool:
                cases.append({"stream": "roles", "prog": roles_prog(), "steps": [ov_enc({name: v})], "entry": ("fill", "parse")[i % 2],
                              "note": ROLE_OF[name], "id": f"grid-{name}-{i}"})
                i += 1
        for j, p in enumerate(PAIRS):
            for entry in ("fill", "parse"):
                cases.append({"stream": "pairs", "prog": roles_prog(), "steps": [ov_enc(p)], "entry": entry, "note": "pairs",
                              "id": f"pairs-all-{j}-{entry}"})
    return cases


def slim(case):
    return {k: case[k] for k in ("id", "stream", "entry", "text", "steps", "prog", "note") if k in case}


def run(seed: int, n: int, driver: str = DEFAULT_DRIVER, thorough: bool = False) -> dict:
    _imports()
    sys.setrecursionlimit(max(sys.getrecursionlimit(), 3000))
    if thorough:
        n = n * 4
    cases = gen_cases(seed, n, thorough)
    oracle = {}
    dist = Counter()
    nontrivial = set()
    for case in cases:
        def rec(name, ok, detail="", case=case):
            o = oracle.setdefault(name, {"cases": 0, "failures": []})
            o["cases"] += 1
            if not ok:
                o["failures"].append({"case": slim(case), "detail": detail})
        dist["stream: " + case["stream"]] += 1
        dist["entry: " + case["entry"]] += 1
        dist[f"steps on one circuit: {len(case['steps'])}"] += 1
        if case["stream"] in ("roles",):
            dist["position: " + case["note"]] += 1
        for fname in case.get("features", {}):
            dist["feature: " + fname] += 1
        run_case(case, rec, dist)
        nontrivial.add(json.dumps([case.get("text"), case["steps"], case["entry"]]))
    for v in oracle.values():
        v["failures"] = v["failures"][:20]
    samples = [slim(c) for c in cases[:2]] + [slim(c) for c in cases if c["stream"] == "random"][:2]
    for s in samples:
        s.pop("prog", None)
    return {"corr": {}, "oracle": oracle, "distribution": dict(sorted(dist.items())), "samples": samples,
            "nontrivial": len(nontrivial)}


def replay(case: dict, driver: str = DEFAULT_DRIVER) -> dict:
    _imports()
    sys.setrecursionlimit(max(sys.getrecursionlimit(), 3000))
    case = dict(case)
    oracle = {}
    dist = Counter()

    def rec(name, ok, detail=""):
        o = oracle.setdefault(name, {"cases": 0, "failures": []})
        o["cases"] += 1
        if not ok:
            o["failures"].append(detail)

    run_case(case, rec, dist)
    fails = {k: v["failures"][0] for k, v in oracle.items() if v["failures"]}
    return {"model": None, "impl": dict(dist), "oracle_ok": not fails, "detail": json.dumps(fails) if fails else "all oracles hold"}


def main():
    ap = argparse.ArgumentParser()
    ap.add_argument("--driver", default=DEFAULT_DRIVER)
    ap.add_argument("--seed", type=int, default=0)
    ap.add_argument("--n", type=int, default=500)
    ap.add_argument("--thorough", action="store_true")
    a = ap.parse_args()
    r = run(a.seed, a.n, a.driver, a.thorough)
    bad = 0
    for k, v in r["oracle"].items():
        print(f"oracle {k}: {v['cases']} cases, {len(v['failures'])} failures (first 20 kept)")
        bad += len(v["failures"])
        for d in v["failures"][:3]:
            c = dict(d["case"])
            c.pop("prog", None)
            print("  FAIL", json.dumps(c)[:1500], "\n     ", d["detail"][:900])
    for k, v in r["distribution"].items():
        print(f"  {k}: {v}")
    print("nontrivial:", r["nontrivial"])
    sys.exit(1 if bad else 0)


if __name__ == "__main__":
    main()
