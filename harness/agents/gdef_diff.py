"""Differential test + direct oracles for property C18 (gate-definition calls, idle gates, stretched gates).

Model: /verif/lean/JaqalModel/Model/GateDef.lean, ops in GateDefOps.lean (`gate_call`, `fits`, `validate`, `idle_set`,
`stretch_set`).  Real code: jaqalpaq.core.gatedef / parameter / stretch, jaqalpaq.emulator.

corr (Lean model vs real classes)
  * validate   – Parameter(kind).validate(value) for every kind x every value class: accepted?, exception class
  * gate_call  – AbstractGate.call positional / keyword / mixed / no arguments, right and wrong arity, unknown / missing /
                 repeated keywords, repeated parameter names, GateDefinition / Busy / Idle / Macro: dump.stmt of the result
                 or the exception class
  * idle_set   – add_idle_gates on random gate sets (keys != names, name collisions, idle gates already present, special names)
  * stretch_set– stretched_gates on random gate sets x suffix None / "" / "_s" / "_all" x update: keys, order, names, classes,
                 parameter lists, parents, used_qubits, quantum/classical parameters, and WHICH function each stretched
                 gate's ideal_unitary reaches and with which arguments (marker functions)

oracle (the property on the real code alone)
  * kw_eq_pos            – g(*args) and g(**kwargs in a random order) give the same statement / both raise JaqalError
  * accept_iff_table     – accepted <=> arity matches and every argument fits per SPEC_TABLE (written from the property
                           text, independent of validate) ; includes nan / inf / bool, which the Lean model cannot express
  * reject_is_JaqalError – every rejection is a JaqalError (anything else is a finding; a repeated keyword is the call
                           site's TypeError). Found here: INT parameter offered Parameter(FLOAT) raised AttributeError —
                           repaired in /repo commit c898fbf; the oracle must now have 0 failures.
  * idle_signature       – add_idle_gates: every gate but prepare_all/measure_all gets I_<name> with the same parameters,
                           no used qubits, no unitary; prepare_all/measure_all get none; order = gate, idle, gate, idle …
  * stretch_unitary      – for several stretch factors s: stretched[name+suffix].ideal_unitary(*args, s) == parent.ideal_unitary(*args)
                           (numpy matrices of harness.gates.GATES and random marker sets); parameters = parent's + [stretch: FLOAT]
  * emulator_state       – the real emulator: a program using idle and stretched gates has the same state vectors as the
                           program with the idle gates removed and the stretched gates replaced by their parents

CLI:  PYTHONPATH=/verif /venv/bin/python -m harness.agents.gdef_diff [--seed S] [--n N] [--driver PATH] [--thorough]
"""
import json
import math
import os
import random
import subprocess
import sys
import warnings

DEFAULT_DRIVER = "/verif/lean/.lake/build/bin/jaqal-model"

KINDS = ["QUBIT", "FLOAT", "REGISTER", "INT", None]

_real = {}


def real():
    """Import the real code lazily (no work at import time)."""
    if _real:
        return _real
    os.environ["JAQALPAQ_RUN_EMULATOR"] = "1"
    from jaqalpaq.error import JaqalError
    from jaqalpaq.core.parameter import Parameter, ParamType, AnnotatedValue
    from jaqalpaq.core.constant import Constant
    from jaqalpaq.core.register import Register, NamedQubit
    from jaqalpaq.core.macro import Macro
    from jaqalpaq.core.gatedef import (GateDefinition, IdleGateDefinition, BusyGateDefinition, add_idle_gates)
    from jaqalpaq.core.stretch import stretched_gates
    from harness import dump

    _real.update(JaqalError=JaqalError, Parameter=Parameter, ParamType=ParamType, AnnotatedValue=AnnotatedValue,
                 Constant=Constant, Register=Register, NamedQubit=NamedQubit, Macro=Macro, GateDefinition=GateDefinition,
                 IdleGateDefinition=IdleGateDefinition, BusyGateDefinition=BusyGateDefinition,
                 add_idle_gates=add_idle_gates, stretched_gates=stretched_gates, dump=dump)
    return _real


def canon(x):
    return json.dumps(x, sort_keys=True, separators=(",", ":"), default=str)


def ptype(k):
    PT = real()["ParamType"]
    return PT.NONE if k is None else PT[k]


# ------------------------------------------------------------------------------------------------ values
# A value is described by a small JSON "spec" (enough to rebuild it) and belongs to a value class.

VALUE_CLASSES = [
    "int", "negint", "bigint", "bool", "float_integral", "float_fractional", "float_negzero", "float_big", "nan", "inf",
    "const_int", "const_float_integral", "const_float_fractional", "const_of_const_int", "const_of_const_float_integral",
    "const_of_const_float_fractional", "const_bigint", "const_nan",
    "param_QUBIT", "param_FLOAT", "param_REGISTER", "param_INT", "param_NONE",
    "av_QUBIT", "av_FLOAT", "av_INT", "av_NONE",
    "qubit", "qubit_of_alias", "qubit_of_param", "reg_fundamental", "reg_alias", "reg_slice", "reg_of_param", "reg_letsize",
    "none", "str",
]
NON_DEC = {"nan", "inf", "const_nan"}  # outside the Lean model (Dec has finite values only)


def value_spec(cls, rng):
    nm = rng.choice(["a", "b", "c", "x", "stretch"])
    if cls == "int":
        return {"t": "int", "v": rng.choice([0, 1, 2, 7, 255])}
    if cls == "negint":
        return {"t": "int", "v": -rng.choice([1, 2, 9])}
    if cls == "bigint":
        return {"t": "int", "v": rng.choice([2 ** 53 + 1, 10 ** 30, -(10 ** 400)])}
    if cls == "bool":
        return {"t": "bool", "v": rng.choice([True, False])}
    if cls == "float_integral":
        return {"t": "float", "v": repr(float(rng.choice([0, 1, 2, -3, 1000, 2 ** 40])))}
    if cls == "float_fractional":
        return {"t": "float", "v": repr(rng.choice([0.5, -1.25, 3.14159, 1e-7, 1.7, 2.000001]))}
    if cls == "float_negzero":
        return {"t": "float", "v": "-0.0"}
    if cls == "float_big":
        return {"t": "float", "v": rng.choice(["1e+300", "1e22", "-1.5e+100", "5e-324"])}
    if cls == "nan":
        return {"t": "float", "v": "nan"}
    if cls == "inf":
        return {"t": "float", "v": rng.choice(["inf", "-inf"])}
    if cls == "const_int":
        return {"t": "const", "name": nm, "v": value_spec(rng.choice(["int", "negint", "bool"]), rng)}
    if cls == "const_bigint":
        return {"t": "const", "name": nm, "v": {"t": "int", "v": 10 ** 400}}
    if cls == "const_float_integral":
        return {"t": "const", "name": nm, "v": value_spec(rng.choice(["float_integral", "float_negzero"]), rng)}
    if cls == "const_float_fractional":
        return {"t": "const", "name": nm, "v": value_spec("float_fractional", rng)}
    if cls == "const_nan":
        return {"t": "const", "name": nm, "v": value_spec(rng.choice(["nan", "inf"]), rng)}
    if cls.startswith("const_of_const_"):
        return {"t": "const", "name": nm + "2", "v": value_spec("const_" + cls[len("const_of_const_"):], rng)}
    if cls.startswith("param_"):
        k = cls[6:]
        return {"t": "param", "name": nm, "k": None if k == "NONE" else k}
    if cls.startswith("av_"):
        k = cls[3:]
        return {"t": "av", "name": nm, "k": None if k == "NONE" else k}
    if cls == "reg_fundamental":
        return {"t": "reg", "name": "r", "size": rng.choice([1, 2, 5])}
    if cls == "reg_letsize":
        return {"t": "reg", "name": "r", "size": {"t": "const", "name": "n", "v": {"t": "int", "v": 3}}}
    if cls == "reg_alias":
        return {"t": "regalias", "name": "m", "src": {"t": "reg", "name": "r", "size": 4}}
    if cls == "reg_slice":
        return {"t": "regslice", "name": "m", "src": {"t": "reg", "name": "r", "size": 6}, "sl": [rng.choice([0, 1]), rng.choice([3, 5]), rng.choice([1, 2])]}
    if cls == "reg_of_param":
        return {"t": "regslice", "name": "m", "src": {"t": "param", "name": "rp", "k": rng.choice(["REGISTER", None])}, "sl": [0, 2, 1]}
    if cls == "qubit":
        return {"t": "qubit", "name": "r[1]", "src": {"t": "reg", "name": "r", "size": 3}, "idx": {"t": "int", "v": 1}}
    if cls == "qubit_of_alias":
        return {"t": "qubit", "name": "m[0]", "src": {"t": "regalias", "name": "m", "src": {"t": "reg", "name": "r", "size": 4}}, "idx": {"t": "int", "v": 0}}
    if cls == "qubit_of_param":
        return {"t": "qubit", "name": "rp[i]", "src": {"t": "param", "name": "rp", "k": rng.choice(["REGISTER", None])},
                "idx": rng.choice([{"t": "int", "v": 0}, {"t": "param", "name": "i", "k": "INT"}, {"t": "param", "name": "i", "k": None}])}
    if cls == "none":
        return {"t": "none"}
    if cls == "str":
        return {"t": "str", "v": rng.choice(["q", "abc", ""])}
    raise ValueError(cls)


def build_value(s):
    R = real()
    if isinstance(s, int) and not isinstance(s, bool):
        return s
    t = s["t"]
    if t == "int":
        return int(s["v"])
    if t == "bool":
        return bool(s["v"])
    if t == "float":
        return float(s["v"])
    if t == "const":
        return R["Constant"](s["name"], build_value(s["v"]))
    if t == "param":
        return R["Parameter"](s["name"], ptype(s["k"]))
    if t == "av":
        return R["AnnotatedValue"](s["name"], ptype(s["k"]))
    if t == "reg":
        return R["Register"](s["name"], build_value(s["size"]))
    if t == "regalias":
        return R["Register"](s["name"], alias_from=build_value(s["src"]))
    if t == "regslice":
        a, b, c = s["sl"]
        return R["Register"](s["name"], alias_from=build_value(s["src"]), alias_slice=slice(a, b, c))
    if t == "qubit":
        return R["NamedQubit"](s["name"], build_value(s["src"]), build_value(s["idx"]))
    if t == "none":
        return None
    if t == "str":
        return s["v"]
    raise ValueError(t)


def spec_in_model(s):
    """Can the Lean model express the value (finite floats only)?"""
    if isinstance(s, dict):
        if s.get("t") == "float" and s["v"] in ("nan", "inf", "-inf"):
            return False
        return all(spec_in_model(v) for v in s.values())
    if isinstance(s, list):
        return all(spec_in_model(v) for v in s)
    return True


# ----------------------------------------------------------------------------- the independent specification table
def spec_num(s):
    """The number a numeric spec / constant spec stands for, else None."""
    while isinstance(s, dict) and s.get("t") == "const":
        s = s["v"]
    if isinstance(s, dict) and s.get("t") in ("int", "bool"):
        return int(s["v"])
    if isinstance(s, dict) and s.get("t") == "float":
        return float(s["v"])
    return None


def is_integral_number(x):
    if isinstance(x, int):
        return True
    return math.isfinite(x) and x == math.floor(x)


def spec_fits(kind, s):
    """SPEC_TABLE — written from the text of C18, not from Parameter.validate.
    qubit: a qubit, or a parameter of kind qubit / untyped
    register: a register, or a parameter of kind register / untyped
    integer: ints (and bools), integral floats, constants with an integral value, parameters int / untyped
    float: any number, any (numeric) constant, parameters int / float / untyped
    untyped: anything"""
    t = s["t"]
    isparam = t in ("param", "av")
    pk = s.get("k") if isparam else "-"
    if kind is None:
        return True
    if kind == "QUBIT":
        return t == "qubit" or (isparam and pk in ("QUBIT", None))
    if kind == "REGISTER":
        return t in ("reg", "regalias", "regslice") or (isparam and pk in ("REGISTER", None))
    if kind == "FLOAT":
        return t in ("int", "bool", "float", "const") or (isparam and pk in ("INT", "FLOAT", None))
    if kind == "INT":
        if t in ("int", "bool", "float", "const"):
            return is_integral_number(spec_num(s))
        return isparam and pk in ("INT", None)
    raise ValueError(kind)


# ------------------------------------------------------------------------------------------------ gate definitions
def build_def(d):
    R = real()
    params = [R["Parameter"](n, ptype(k)) for n, k in d["params"]]
    cls = d["cls"]
    if cls == "native":
        return R["GateDefinition"](d["name"], params, ideal_unitary=(lambda *a: None) if d.get("unitary") else None)
    if cls == "busy":
        return R["BusyGateDefinition"](d["name"], params)
    if cls == "macro":
        return R["Macro"](d["name"], params)
    if cls == "idle":
        return R["IdleGateDefinition"](R["GateDefinition"](d["name"][2:] or "g", params), name=d["name"])
    raise ValueError(cls)


def gen_def(rng):
    n = rng.choice([0, 1, 1, 2, 2, 3, 4])
    names = []
    pool = ["a", "b", "c", "q", "stretch", "k"]
    for _ in range(n):
        if names and rng.random() < 0.06:
            names.append(rng.choice(names))  # repeated parameter name
        else:
            names.append(rng.choice([x for x in pool if x not in names] or pool))
    cls = rng.choice(["native", "native", "native", "busy", "idle", "macro"])
    name = rng.choice(["G", "Rx", "MS"])
    if cls == "idle":
        name = "I_" + name
    return {"name": name, "cls": cls, "unitary": rng.random() < 0.5 and cls == "native",
            "params": [[x, rng.choice(KINDS)] for x in names]}


def fitting_class(kind, rng):
    table = {
        "QUBIT": ["qubit", "qubit_of_alias", "qubit_of_param", "param_QUBIT", "param_NONE", "av_NONE"],
        "REGISTER": ["reg_fundamental", "reg_alias", "reg_slice", "reg_of_param", "param_REGISTER", "param_NONE", "reg_letsize"],
        "FLOAT": ["int", "float_fractional", "float_integral", "const_int", "const_float_fractional", "param_INT", "param_FLOAT", "bool", "float_big", "nan", "inf"],
        "INT": ["int", "negint", "bigint", "bool", "float_integral", "const_int", "const_float_integral", "param_INT", "param_NONE", "const_of_const_float_integral", "float_negzero"],
        None: VALUE_CLASSES,
    }
    return rng.choice(table[kind])


def gen_call(rng):
    d = gen_def(rng)
    np_ = len(d["params"])
    mode = rng.choice(["pos", "pos", "kw", "kw", "kw", "mixed", "none"])
    r = rng.random()
    if r < 0.62:
        nargs = np_
    elif r < 0.8:
        nargs = max(0, np_ - rng.choice([1, 2]))
    else:
        nargs = np_ + rng.choice([1, 2])
    vals = []
    for i in range(nargs):
        kind = d["params"][i][1] if i < np_ else rng.choice(KINDS)
        cls = fitting_class(kind, rng) if rng.random() < 0.8 else rng.choice(VALUE_CLASSES)
        vals.append(value_spec(cls, rng))
    case = {"def": d, "mode": mode}
    names = [p[0] for p in d["params"]]
    if mode == "pos":
        case["args"] = vals
    elif mode == "none":
        pass
    else:
        kw = []
        for i, v in enumerate(vals):
            kw.append([names[i] if i < np_ else rng.choice(["zz", "extra", "a"]), v])
        r = rng.random()
        if kw and r < 0.08:
            kw[rng.randrange(len(kw))][0] = rng.choice(["zz", "A", ""])  # unknown keyword replaces a needed one
        elif kw and r < 0.14:
            kw.append([rng.choice(kw)[0], value_spec(rng.choice(VALUE_CLASSES), rng)])  # repeated keyword
        rng.shuffle(kw)
        if mode == "kw":
            case["kwargs"] = kw
        else:
            k = rng.randrange(0, len(vals) + 1)
            case["args"] = vals[:k] or [value_spec("int", rng)]
            case["kwargs"] = kw[k:] or [["a", value_spec("int", rng)]]
    return case


def do_call(g, args, kwargs):
    """Call the real gate definition; a repeated keyword is passed the only way Python allows (two ** dicts)."""
    keys = [k for k, _ in kwargs]
    if len(set(keys)) == len(keys):
        return g.call(*args, **dict(kwargs))
    first, rest, seen = {}, {}, set()
    for k, v in kwargs:
        if k in seen:
            rest[k] = v
        else:
            seen.add(k)
            first[k] = v
    return g.call(*args, **first, **rest)


def strip_av(x):
    """dump.val marks instances of the base class AnnotatedValue with "av": the IR does not distinguish them from Parameters."""
    if isinstance(x, dict):
        return {k: strip_av(v) for k, v in x.items() if k != "av"}
    if isinstance(x, list):
        return [strip_av(v) for v in x]
    return x


def impl_call(case):
    R = real()
    g = build_def(case["def"])
    args = [build_value(s) for s in case.get("args", [])]
    kwargs = [(k, build_value(s)) for k, s in case.get("kwargs", [])]
    try:
        st = do_call(g, args, kwargs)
    except Exception as e:  # noqa: BLE001 — the class is the result
        return {"err": type(e).__name__}
    try:
        d = R["dump"].stmt(st)
        d["def"].setdefault("unitary", False)  # dump.gatedef omits the field for macros, the Lean codec writes false
        return {"ok": strip_av(d)}
    except R["dump"].Undumpable:
        return {"ok_undumpable": repr(st)}


def model_call_req(case):
    R = real()
    g = build_def(case["def"])
    req = {"op": "gate_call", "def": R["dump"].gatedef(g)}
    if "args" in case:
        req["args"] = [R["dump"].val(build_value(s)) for s in case["args"]]
    if "kwargs" in case:
        req["kwargs"] = [[k, R["dump"].val(build_value(s))] for k, s in case["kwargs"]]
    if "args" not in case and "kwargs" not in case:
        req["args"] = []
    return req


def case_in_model(case):
    return spec_in_model(case.get("args", [])) and spec_in_model([v for _, v in case.get("kwargs", [])])


# ------------------------------------------------------------------------------------------------ gate sets
NAME_POOL = ["X", "Y", "Z", "I_X", "I_Y", "X_s", "I_X_s", "I_I_X", "prepare_all", "measure_all", "prepare", "measure", "I_prepare", "", "I_", "W"]
PARAM_SETS = [[], [["q", "QUBIT"]], [["q", "QUBIT"], ["t", "FLOAT"]], [["t", "FLOAT"], ["q", "QUBIT"]], [["a", "QUBIT"], ["b", "QUBIT"]],
              [["r", "REGISTER"], ["k", "INT"]], [["p0", None]], [["q", "QUBIT"], ["p", None], ["f", "FLOAT"]], [["stretch", "FLOAT"]]]


def gen_gate_rec(rng, counter, depth=0, names=NAME_POOL):
    counter[0] += 1
    marker = f"m{counter[0]}"
    name = rng.choice(names)
    cls = rng.choices(["native", "busy", "idle"], [6, 1, 3 if depth < 2 else 0])[0]
    rec = {"name": name, "tag": cls, "params": rng.choice(PARAM_SETS), "unitary": rng.random() < 0.65 and cls != "idle", "marker": marker}
    if cls == "idle":
        parent = gen_gate_rec(rng, counter, depth + 1, [n for n in names if n not in ("prepare_all", "measure_all")])
        rec["parent"] = parent
        rec["params"] = parent["params"]
        r = rng.random()
        if r < 0.7:
            rec["name"] = "I_" + parent["name"]
        rec["unitary"] = False
    return rec


def gen_gate_set(rng, clean=False):
    counter = [0]
    n = rng.choice([0, 1, 2, 2, 3, 3, 4, 5, 6])
    recs = []
    if clean:
        # distinct active gates, optionally run through add_idle_gates semantics by hand (idle directly after / before parent)
        names = rng.sample(["X", "Y", "Z", "W", "MS", "prepare_all", "measure_all", "Rz"], min(n, 8))
        for nm in names:
            g = gen_gate_rec(rng, counter, 2, [nm])
            recs.append(g)
            if rng.random() < 0.5 and nm not in ("prepare_all", "measure_all"):
                idle = {"name": "I_" + nm, "tag": "idle", "params": g["params"], "unitary": False, "marker": g["marker"] + "i", "parent": g}
                if rng.random() < 0.5:
                    recs.append(idle)
                else:
                    recs.insert(len(recs) - 1, idle)
        for r in recs:
            r["key"] = r["name"]
    else:
        for _ in range(n):
            g = gen_gate_rec(rng, counter)
            g["key"] = g["name"] if rng.random() < 0.8 else rng.choice(NAME_POOL + ["k1", "k2"])
            recs.append(g)
        # dict keys are unique: a later record with the same key replaces the value in place
        seen = {}
        for g in recs:
            seen[g["key"]] = g
        recs = list(seen.values())
    return recs


def marker_fn(marker):
    return lambda *a, _m=marker: (_m, a)


def build_gate(rec):
    R = real()
    params = [R["Parameter"](n, ptype(k)) for n, k in rec["params"]]
    u = marker_fn(rec["marker"]) if rec.get("unitary") else None
    if rec["tag"] == "native":
        return R["GateDefinition"](rec["name"], params, ideal_unitary=u)
    if rec["tag"] == "busy":
        return R["BusyGateDefinition"](rec["name"], params, ideal_unitary=u)
    parent = build_gate(rec["parent"])
    g = R["IdleGateDefinition"](parent, name=rec["name"] or None)
    # the generator may ask for an idle gate whose name is "" : IdleGateDefinition turns that into I_<parent>
    rec["name"] = g.name
    return g


def build_set(recs):
    return {r["key"]: build_gate(r) for r in recs}


def names_or_err(f):
    R = real()
    try:
        return [p.name for p in f()]
    except R["JaqalError"]:
        return {"err": "JaqalError"}


def dump_gate(g, probe, key=None):
    R = real()
    d = {}
    if key is not None:
        d["key"] = key
    gd = R["dump"].gatedef(g)
    d.update(name=gd["name"], tag=gd["tag"], params=gd["params"], unitary=g.ideal_unitary is not None)
    d["used"] = ["*" if p is all else p.name for p in g.used_qubits]
    d["qparams"] = names_or_err(lambda: g.quantum_parameters)
    d["cparams"] = names_or_err(lambda: g.classical_parameters)
    if g.ideal_unitary is not None:
        m, got = g.ideal_unitary(*probe)
        d["unitary_of"] = m
        d["got"] = [R["dump"].val(x) for x in got]
    if isinstance(g, R["IdleGateDefinition"]):
        d["parent"] = dump_gate(g._parent_def, probe)
    return d


def model_set_recs(recs):
    """records for the driver (names fixed up by build_set)"""
    return recs


PROBE = [1, 2.5, 1.7]


def impl_idle(recs):
    R = real()
    gs = build_set(recs)
    try:
        out = R["add_idle_gates"](gs)
    except Exception as e:  # noqa: BLE001
        return {"err": type(e).__name__}
    return [dump_gate(g, PROBE, k) for k, g in out.items()]


def impl_stretch(recs, suffix, update):
    R = real()
    gs = build_set(recs)
    try:
        out = R["stretched_gates"](gs, suffix=suffix, update=update)
    except Exception as e:  # noqa: BLE001
        return {"err": type(e).__name__}
    return {"ok": [dump_gate(g, PROBE, k) for k, g in out.items()]}


def probe_json():
    R = real()
    return [R["dump"].val(x) for x in PROBE]


# ------------------------------------------------------------------------------------------------ driver
def drive(driver, reqs):
    if not reqs:
        return []
    data = "\n".join(json.dumps(r, separators=(",", ":")) for r in reqs) + "\n"
    p = subprocess.run([driver], input=data, capture_output=True, text=True, timeout=1800)
    lines = [l for l in p.stdout.split("\n") if l.strip()]
    if len(lines) != len(reqs):
        raise RuntimeError(f"driver returned {len(lines)} lines for {len(reqs)} requests; rc={p.returncode}; stderr={p.stderr[:1000]}")
    out = []
    for l in lines:
        j = json.loads(l)
        out.append(j["out"] if "out" in j else {"driver_error": j.get("err")})
    return out


class Acc:
    def __init__(self):
        self.corr = {}
        self.oracle = {}
        self.dist = {}
        self.samples = []
        self.distinct = set()

    def hit(self, feature, k=1):
        self.dist[feature] = self.dist.get(feature, 0) + k

    def corr_case(self, op, case, model, impl):
        c = self.corr.setdefault(op, {"cases": 0, "disagreements": []})
        c["cases"] += 1
        if canon(model) != canon(impl):
            c["n_disagreements"] = c.get("n_disagreements", 0) + 1
            if len(c["disagreements"]) < 20:
                c["disagreements"].append({"case": dict(case, kind_of_case=op), "model": model, "impl": impl})

    def oracle_case(self, name, case, ok, detail=""):
        o = self.oracle.setdefault(name, {"cases": 0, "failures": []})
        o["cases"] += 1
        if not ok:
            o["n_failures"] = o.get("n_failures", 0) + 1
            if len(o["failures"]) < 20:
                o["failures"].append({"case": dict(case, kind_of_case=name), "detail": detail})

    def result(self):
        return {"corr": self.corr, "oracle": self.oracle, "distribution": dict(sorted(self.dist.items())),
                "samples": self.samples[:8], "nontrivial": len(self.distinct)}


# ------------------------------------------------------------------------------------------------ the parts of a run
def part_validate(rng, n, driver, acc):
    R = real()
    cases = []
    for kind in KINDS:  # the full grid: every kind x every value class (a few random representatives each)
        for cls in VALUE_CLASSES:
            for _ in range(max(2, n // 100)):
                cases.append({"kind": kind, "cls": cls, "val": value_spec(cls, rng)})
    reqs, idx = [], []
    impls = []
    for i, c in enumerate(cases):
        v = build_value(c["val"])
        p = R["Parameter"]("p", ptype(c["kind"]))
        try:
            p.validate(v)
            impl = None
        except Exception as e:  # noqa: BLE001
            impl = type(e).__name__
        impls.append(impl)
        acc.hit(f"validate:{'accepted' if impl is None else impl}")
        acc.distinct.add(canon(["v", c["kind"], c["val"]]))
        # oracles on the real code alone
        want = spec_fits(c["kind"], c["val"])
        acc.oracle_case("accept_iff_table", {"kind": c["kind"], "val": c["val"], "cls": c["cls"]}, (impl is None) == want,
                        f"validate {'accepted' if impl is None else 'raised ' + impl}, table says fits={want}")
        acc.oracle_case("reject_is_JaqalError", {"kind": c["kind"], "val": c["val"], "cls": c["cls"]}, impl in (None, "JaqalError"),
                        f"validate raised {impl}")
        if spec_in_model(c["val"]):
            jv = R["dump"].val(v)
            reqs.append({"op": "validate", "kind": c["kind"], "val": jv})
            reqs.append({"op": "fits", "kind": c["kind"], "val": jv})
            idx.append(i)
        else:
            acc.hit("validate:real-only(non-finite)")
    outs = drive(driver, reqs)
    for j, i in enumerate(idx):
        c = cases[i]
        acc.corr_case("validate", {"kind": c["kind"], "val": c["val"]}, outs[2 * j], impls[i])
        acc.corr_case("fits", {"kind": c["kind"], "val": c["val"]}, outs[2 * j + 1], impls[i] is None)
    acc.samples.append({"validate": cases[rng.randrange(len(cases))]})


def expected_accept(case):
    """C18 on one call: arity matches and every argument fits (SPEC_TABLE); mixed calls are never accepted; a definition
    with a repeated parameter name, a repeated / unknown / missing keyword is never accepted."""
    d = case["def"]
    names = [p[0] for p in d["params"]]
    kinds = [p[1] for p in d["params"]]
    if len(set(names)) != len(names):
        return False
    if "args" in case and "kwargs" in case:
        return False
    if "kwargs" in case:
        keys = [k for k, _ in case["kwargs"]]
        if len(set(keys)) != len(keys) or sorted(keys) != sorted(names):
            return False
        m = dict((k, v) for k, v in case["kwargs"])
        return all(spec_fits(k, m[nm]) for nm, k in zip(names, kinds))
    args = case.get("args", [])
    return len(args) == len(names) and all(spec_fits(k, a) for k, a in zip(kinds, args))


def part_call(rng, n, driver, acc):
    cases = [gen_call(rng) for _ in range(n)]
    reqs, idx, impls = [], [], []
    for i, c in enumerate(cases):
        impl = impl_call(c)
        impls.append(impl)
        acc.distinct.add(canon(["c", c]))
        acc.hit(f"call:{c['mode']}:{'ok' if 'err' not in impl else impl['err']}")
        acc.hit(f"call:arity_{'right' if len(c.get('args', c.get('kwargs', []))) == len(c['def']['params']) else 'wrong'}")
        want = expected_accept(c)
        acc.oracle_case("accept_iff_table", c, ("err" not in impl) == want, f"call gave {impl if 'err' in impl else 'a statement'}, table says accepted={want}")
        keys = [k for k, _ in c.get("kwargs", [])]
        typeerr_ok = len(set(keys)) != len(keys)  # a repeated keyword is rejected by the interpreter itself (TypeError)
        acc.oracle_case("reject_is_JaqalError", c, "err" not in impl or impl["err"] == "JaqalError" or (typeerr_ok and impl["err"] == "TypeError"),
                        f"call raised {impl.get('err')}")
        if case_in_model(c):
            reqs.append(model_call_req(c))
            idx.append(i)
        else:
            acc.hit("call:real-only(non-finite)")
    outs = drive(driver, reqs)
    for j, i in enumerate(idx):
        acc.corr_case("gate_call", cases[i], outs[j], impls[i])
    acc.samples.append({"gate_call": cases[0]})
    # oracle kw_eq_pos
    for _ in range(n):
        d = gen_def(rng)
        names = [p[0] for p in d["params"]]
        if len(set(names)) != len(names):
            continue
        vals = [value_spec(fitting_class(k, rng) if rng.random() < 0.85 else rng.choice(VALUE_CLASSES), rng) for _, k in d["params"]]
        kw = [[nm, v] for nm, v in zip(names, vals)]
        rng.shuffle(kw)
        cpos = {"def": d, "mode": "pos", "args": vals}
        ckw = {"def": d, "mode": "kw", "kwargs": kw}
        a, b = impl_call(cpos), impl_call(ckw)
        if not vals:
            continue
        acc.hit(f"kw_eq_pos:{'ok' if 'err' not in a else a['err']}")
        acc.distinct.add(canon(["k", cpos]))
        acc.oracle_case("kw_eq_pos", {"def": d, "args": vals, "kwargs": kw}, canon(a) == canon(b), f"positional {canon(a)[:300]} keyword {canon(b)[:300]}")


def idle_oracle(recs):
    """C18 (idle) on the real add_idle_gates; returns (ok, detail)."""
    R = real()
    gs = build_set(recs)
    out = R["add_idle_gates"](gs)
    # expected content: last write wins, first write fixes the position
    writes = []
    for k, g in gs.items():
        writes.append((k, ("same", g)))
        if g.name not in ("prepare_all", "measure_all"):
            writes.append(("I_" + g.name, ("idle", g)))
    order = []
    last = {}
    for k, w in writes:
        if k not in last:
            order.append(k)
        last[k] = w
    if list(out.keys()) != order:
        return False, f"keys {list(out.keys())} expected {order}"
    for k in order:
        how, g = last[k]
        o = out[k]
        if how == "same":
            if o is not g:
                return False, f"{k}: not the gate passed in"
        else:
            if not isinstance(o, R["IdleGateDefinition"]):
                return False, f"{k}: not an idle gate"
            if o.name != "I_" + g.name or o.parameters != g.parameters or o._parent_def is not g:
                return False, f"{k}: wrong name / parameters / parent"
            if list(o.used_qubits) != []:
                return False, f"{k}: idle gate uses qubits"
            if o.ideal_unitary is not None:
                return False, f"{k}: idle gate has a unitary"
    return True, ""


def stretch_oracle(recs, suffix):
    """C18 (stretch) on the real stretched_gates for a set whose names are unambiguous."""
    R = real()
    gs = build_set(recs)
    try:
        out = R["stretched_gates"](gs, suffix=suffix)
    except R["JaqalError"]:
        return None, "JaqalError"
    sfx = suffix or ""
    for g in gs.values():
        idle = isinstance(g, R["IdleGateDefinition"])
        p = g._parent_def if idle else g
        key = p.name + sfx
        if key not in out:
            return False, f"no stretched gate {key}"
        s = out[key]
        if s.name != key or type(s) is not type(p):
            return False, f"{key}: name/class {s.name} {type(s).__name__}"
        if s.parameters != p.parameters + [R["Parameter"]("stretch", R["ParamType"].FLOAT)]:
            return False, f"{key}: parameters {s.parameters}"
        if (s.ideal_unitary is None) != (p.ideal_unitary is None):
            return False, f"{key}: unitary presence differs"
        if p.ideal_unitary is not None:
            for args in ([], [0.25], [1, 2.5]):
                for st in (1.7, 0.0, -3, float("nan"), None):
                    if s.ideal_unitary(*args, st) != p.ideal_unitary(*args):
                        return False, f"{key}: unitary({args}+[{st}]) = {s.ideal_unitary(*args, st)} but parent gives {p.ideal_unitary(*args)}"
        if idle:
            ik = g.name + sfx
            if ik not in out:
                return False, f"no stretched idle gate {ik}"
            i = out[ik]
            if not isinstance(i, R["IdleGateDefinition"]) or i.name != ik or i.parameters != s.parameters or list(i.used_qubits) or i.ideal_unitary is not None:
                return False, f"{ik}: not the idle gate of the stretched parent"
            if i._parent_def.name != key or i._parent_def.parameters != s.parameters:
                return False, f"{ik}: parent is {i._parent_def}"
    return True, ""


def part_sets(rng, n, driver, acc):
    pj = None
    reqs, meta = [], []
    for it in range(n):
        clean = rng.random() < 0.35
        recs = gen_gate_set(rng, clean)
        suffix = rng.choice([None, None, "", "_s", "_s", "_all", "X"])
        update = rng.random() < 0.4
        try:
            impl_i = impl_idle(recs)  # build_set fixes up idle names in recs
        except real()["JaqalError"]:
            acc.hit("sets:unbuildable")
            continue
        if pj is None:
            pj = probe_json()
        case = {"gates": recs, "suffix": suffix, "update": update}
        acc.distinct.add(canon(["s", case]))
        acc.hit(f"sets:size_{len(recs)}")
        acc.hit(f"sets:suffix_{suffix!r}")
        acc.hit(f"sets:{'clean' if clean else 'colliding'}")
        reqs.append({"op": "idle_set", "gates": recs, "probe": pj})
        meta.append(("idle_set", case, impl_i))
        impl_s = impl_stretch(recs, suffix, update)
        acc.hit(f"stretch:{'ok' if 'ok' in impl_s else impl_s['err']}")
        reqs.append({"op": "stretch_set", "gates": recs, "suffix": suffix, "update": update, "probe": pj})
        meta.append(("stretch_set", case, impl_s))
        # stretching the output of add_idle_gates (the usual composition), through the model twice
        ok, detail = idle_oracle(recs)
        acc.oracle_case("idle_signature", case, ok, detail)
        if clean:
            ok, detail = stretch_oracle(recs, suffix if suffix != "X" else "_s")
            if ok is None:
                acc.hit("stretch_oracle:JaqalError(special name)")
            else:
                acc.oracle_case("stretch_unitary", dict(case, suffix=suffix if suffix != "X" else "_s"), ok, detail)
        if it < 2:
            acc.samples.append({"gate_set": case})
    outs = drive(driver, reqs)
    for (op, case, impl), out in zip(meta, outs):
        acc.corr_case(op, case, out, impl)


# ---- real gate set: numpy unitaries, emulator
def part_numpy(rng, n, acc):
    import numpy as np
    R = real()
    from harness.gates import GATES, GATES_IDLE
    for suffix in (None, "_s", "_long"):
        for src_name, src in (("GATES", GATES), ("GATES_IDLE", GATES_IDLE)):
            st = R["stretched_gates"](dict(src), suffix=suffix)
            for name, g in GATES.items():
                key = name + (suffix or "")
                case = {"set": src_name, "suffix": suffix, "gate": name}
                s = st.get(key)
                if s is None:
                    acc.oracle_case("stretch_unitary", case, False, "missing")
                    continue
                ok = [p.name for p in s.parameters] == [p.name for p in g.parameters] + ["stretch"] and s.parameters[-1].kind == R["ParamType"].FLOAT
                detail = "" if ok else "parameters"
                if g.ideal_unitary is None:
                    ok = ok and s.ideal_unitary is None
                else:
                    ncl = len(g.classical_parameters)
                    for _ in range(max(2, n // 200)):
                        cargs = [rng.randrange(0, 8) for _ in range(ncl)]
                        for sv in (1.7, 0.5, 1, 1e9, -2.0):
                            if not np.array_equal(s.ideal_unitary(*cargs, sv), g.ideal_unitary(*cargs)):
                                ok, detail = False, f"unitary differs for args {cargs} stretch {sv}"
                acc.oracle_case("stretch_unitary", case, ok, detail)
                acc.hit("stretch_unitary:numpy")
                if src is GATES_IDLE and name not in ("prepare_all", "measure_all"):
                    i = st.get("I_" + key)
                    okk = (i is not None and isinstance(i, R["IdleGateDefinition"]) and i.parameters == s.parameters
                           and list(i.used_qubits) == [] and i.ideal_unitary is None and i._parent_def is s)
                    acc.oracle_case("idle_signature", dict(case, what="stretched idle"), okk, "stretched idle gate")


def gen_program(rng, nq, ngates):
    """Lines of a program over register q[nq] using parents, idle gates and stretched gates; returns (lines, stripped lines)."""
    from harness.gates import SIG
    full, plain = [], []
    names = [k for k in SIG if len(SIG[k].replace("i", "")) <= nq]
    for _ in range(ngates):
        name = rng.choice(names)
        sig = SIG[name]
        qs = rng.sample(range(nq), sig.count("q"))
        args, qi = [], 0
        for ch in sig:
            if ch == "q":
                args.append(f"q[{qs[qi]}]")
                qi += 1
            else:
                args.append(str(rng.randrange(0, 4)))
        variant = rng.choice(["parent", "idle", "stretched", "stretched", "idle_stretched"])
        sv = rng.choice(["1.7", "0.5", "2", "1000.0", "-1.0", "2.5e2"])
        a = " ".join(args)
        if variant == "parent":
            full.append(f"{name} {a}")
            plain.append(f"{name} {a}")
        elif variant == "idle":
            full.append(f"I_{name} {a}")
        elif variant == "stretched":
            full.append(f"{name}_s {a} {sv}")
            plain.append(f"{name} {a}")
        else:
            full.append(f"I_{name}_s {a} {sv}")
    return full, plain


def run_states(text, gates):
    import numpy as np
    from jaqalpaq.parser import parse_jaqal_string
    from jaqalpaq.emulator.unitary import UnitarySerializedEmulator
    with warnings.catch_warnings():
        warnings.simplefilter("ignore")
        c = parse_jaqal_string(text, inject_pulses=gates, autoload_pulses=False)
        job = UnitarySerializedEmulator()(c)
        return [np.array(sc.state_vector) for sc in job.subcircuits]


_gset = {}


def full_gate_set():
    if not _gset:
        R = real()
        from harness.gates import GATES
        g = R["add_idle_gates"](dict(GATES))
        g = R["stretched_gates"](g, suffix="_s", update=True)
        _gset["g"] = g
    return _gset["g"]


def emulator_case(case):
    import numpy as np
    nq = case["nq"]
    head = f"register q[{nq}]\n"
    def prog(lines):
        body = "\n".join(lines)
        return head + "prepare_all\n" + body + ("\n" if body else "") + "measure_all\n"
    a = run_states(prog(case["full"]), full_gate_set())
    b = run_states(prog(case["plain"]), full_gate_set())
    ok = len(a) == len(b) and all(np.array_equal(x, y) for x, y in zip(a, b))
    return ok, "" if ok else f"states differ: {[list(map(complex, x)) for x in a]} vs {[list(map(complex, x)) for x in b]}"


def part_emulator(rng, n, acc):
    for _ in range(n):
        nq = rng.choice([1, 2, 3, 3, 4])
        full, plain = gen_program(rng, nq, rng.randrange(0, 9))
        case = {"nq": nq, "full": full, "plain": plain}
        acc.distinct.add(canon(["e", case]))
        try:
            ok, detail = emulator_case(case)
        except Exception as e:  # noqa: BLE001
            ok, detail = False, f"{type(e).__name__}: {e}"
        acc.oracle_case("emulator_state", case, ok, detail)
        acc.hit(f"emulator:gates_{len(full)}")
        acc.hit("emulator:idle", sum(1 for l in full if l.startswith("I_")))
        acc.hit("emulator:stretched", sum(1 for l in full if "_s " in l and not l.startswith("I_")))
    if n:
        acc.samples.append({"emulator": case})


# ------------------------------------------------------------------------------------------------ protocol
def run(seed: int, n: int, driver: str = DEFAULT_DRIVER, thorough: bool = False) -> dict:
    rng = random.Random(seed)
    acc = Acc()
    if thorough:
        n = n * 5
    real()
    part_validate(rng, n, driver, acc)
    part_call(rng, n, driver, acc)
    part_sets(rng, max(50, n // 2), driver, acc)
    part_numpy(rng, n, acc)
    part_emulator(rng, max(20, n // 10), acc)
    return acc.result()


def replay(case: dict, driver: str = DEFAULT_DRIVER) -> dict:
    kind = case.get("kind_of_case")
    real()
    R = real()
    if kind in ("validate", "fits"):
        v = build_value(case["val"])
        try:
            R["Parameter"]("p", ptype(case["kind"])).validate(v)
            impl = None
        except Exception as e:  # noqa: BLE001
            impl = type(e).__name__
        model = None
        if spec_in_model(case["val"]):
            model = drive(driver, [{"op": kind, "kind": case["kind"], "val": R["dump"].val(v)}])[0]
        if kind == "fits":
            impl = impl is None
        return {"model": model, "impl": impl, "oracle_ok": (impl in (None, True)) == spec_fits(case["kind"], case["val"]), "detail": ""}
    if kind == "gate_call" or (kind in ("accept_iff_table", "reject_is_JaqalError") and "def" in case):
        impl = impl_call(case)
        model = drive(driver, [model_call_req(case)])[0] if case_in_model(case) else None
        if kind == "reject_is_JaqalError":
            keys = [k for k, _ in case.get("kwargs", [])]
            ok = "err" not in impl or impl["err"] == "JaqalError" or (len(set(keys)) != len(keys) and impl["err"] == "TypeError")
            return {"model": model, "impl": impl, "oracle_ok": ok, "detail": f"call raised {impl.get('err')}"}
        return {"model": model, "impl": impl, "oracle_ok": ("err" not in impl) == expected_accept(case), "detail": ""}
    if kind in ("accept_iff_table", "reject_is_JaqalError"):
        r = replay(dict(case, kind_of_case="validate"), driver)
        if kind == "reject_is_JaqalError":
            r["oracle_ok"] = r["impl"] in (None, "JaqalError")
            r["detail"] = f"validate raised {r['impl']}"
        return r
    if kind == "kw_eq_pos":
        a = impl_call({"def": case["def"], "mode": "pos", "args": case["args"]})
        b = impl_call({"def": case["def"], "mode": "kw", "kwargs": case["kwargs"]})
        return {"model": None, "impl": {"pos": a, "kw": b}, "oracle_ok": canon(a) == canon(b), "detail": ""}
    if kind in ("idle_set", "idle_signature") and "gates" in case:
        impl = impl_idle(case["gates"])
        model = drive(driver, [{"op": "idle_set", "gates": case["gates"], "probe": probe_json()}])[0]
        ok, detail = idle_oracle(case["gates"])
        return {"model": model, "impl": impl, "oracle_ok": ok, "detail": detail}
    if kind in ("stretch_set", "stretch_unitary") and "gates" in case:
        impl = impl_stretch(case["gates"], case["suffix"], case["update"])
        model = drive(driver, [{"op": "stretch_set", "gates": case["gates"], "suffix": case["suffix"], "update": case["update"], "probe": probe_json()}])[0]
        ok, detail = (None, "")
        if kind == "stretch_unitary":
            ok, detail = stretch_oracle(case["gates"], case["suffix"])
        return {"model": model, "impl": impl, "oracle_ok": ok, "detail": detail}
    if kind == "emulator_state":
        ok, detail = emulator_case(case)
        return {"model": None, "impl": None, "oracle_ok": ok, "detail": detail}
    return {"model": None, "impl": None, "oracle_ok": None, "detail": f"cannot replay a case of kind {kind}"}


def main(argv=None):
    import argparse
    ap = argparse.ArgumentParser()
    ap.add_argument("--seed", type=int, default=0)
    ap.add_argument("--n", type=int, default=2000)
    ap.add_argument("--driver", default=DEFAULT_DRIVER)
    ap.add_argument("--thorough", action="store_true")
    a = ap.parse_args(argv)
    res = run(a.seed, a.n, a.driver, a.thorough)
    bad = 0
    for sect in ("corr", "oracle"):
        for name, r in res[sect].items():
            k = "disagreements" if sect == "corr" else "failures"
            print(f"{sect:6} {name:22} cases={r['cases']:6} {k}={len(r[k])}")
            bad += len(r[k])
            for f in r[k][:3]:
                print("      ", canon(f)[:700])
    print("distribution:", canon(res["distribution"]))
    print("nontrivial distinct cases:", res["nontrivial"])
    return 1 if bad else 0


if __name__ == "__main__":
    sys.exit(main())
