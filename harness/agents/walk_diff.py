#!/venv/bin/python
"""Differential test + direct oracles for subcircuit discovery (C12), the trace walker (C08) and the
trace serialiser (C03, serialisation half).

corr   : Lean model ops `discover` / `visits` / `serialize` (JaqalModel/Model/WalkOps.lean) vs the REAL jaqalpaq
         code (DiscoverSubcircuits, run_jaqal_circuit's TraceVisitor walk, TraceSerializer).
oracle : the properties evaluated on the real code alone, against small independent Python references written
         from the property text (no Lean, no jaqalpaq logic):
           C12_accept_iff_bracketed  real acceptance  <=> bracket checker over the flat token sequence accepts,
                                     and the traces returned are the flat-order prepare/measure pairs
           C12_error_class           a rejection is a JaqalError whose class names a violated rule
           C08_visits                [ro.subcircuit.index for ro in readouts] == reference unrolling; readout
                                     indices 0,1,2,...; per-subcircuit readouts/frequencies count its own readouts
           C08_terminates            the real code returns within the alarm
           C03_serialize             TraceSerializer(trace) == reference segment of the unrolled program

Generated shapes: `loop n { … }`, `loop n < g >`, `loop n < { … } >`, `loop n < b | b >`, `< { … } >`, `< g >`,
multi-branch `< g | { … } | … >` (ordinary gates on disjoint qubits only, so the out-of-scope "Parallel branches"
rejection never fires), top-level `{ … }`; loop counts 0..3.  Addresses were checked against the real ones.
To test another source tree (e.g. a mutant): PYTHONPATH=<tree>/src walk_diff.py …  (takes precedence over /repo).

Importable (`run`, `replay`); CLI: walk_diff.py [--model EXE] [--seed S] [--n N] [--thorough]
"""
import os, sys, json, random, signal, subprocess, argparse

DEFAULT_DRIVER = "/verif/lean/.lake/build/bin/jaqal-model"
NQ = 4
ORD = [("X", q) for q in range(NQ)] + [("Y", q) for q in range(NQ)]   # payload id -> (name, qubit)
_real = {}


def _load():
    """import jaqalpaq lazily (no work at import time)"""
    if _real:
        return _real
    os.environ["JAQALPAQ_RUN_EMULATOR"] = "1"
    root = os.path.dirname(os.path.dirname(os.path.dirname(os.path.abspath(__file__))))   # …/verif
    if not os.path.isfile(os.path.join(root, "harness", "gates.py")):
        root = "/verif"
    if root not in sys.path:
        sys.path.insert(0, root)
    import warnings
    warnings.filterwarnings("ignore")
    from harness.gates import GATES_IDLE as GI
    from jaqalpaq.parser import parse_jaqal_string
    from jaqalpaq.emulator import run_jaqal_circuit
    from jaqalpaq.core.algorithm.walkers import DiscoverSubcircuits, TraceSerializer
    from jaqalpaq.error import JaqalError
    _real.update(GI=GI, parse=parse_jaqal_string, run=run_jaqal_circuit, Disc=DiscoverSubcircuits,
                 Ser=TraceSerializer, JaqalError=JaqalError)
    return _real


class Hang(Exception):
    pass


def _alarm(*a):
    raise Hang()


# ---------------------------------------------------------------- generation
# A program is a list of sequential statements ("items"):
#   ["g", "P"|"M"|<id>]            a gate (id -> ORD[id] = (name, qubit))
#   ["loop", n, items]             loop n { items }          body = sequential block: items at a+[i]
#   ["ploop", n, branches]         loop n < b | b | … >      body = parallel block:  branches at a+[j]
#   ["par", branches]              < b | b | … >             branches at a+[j]
#   ["seq", items]                 { items }                 only at top level (or as a branch); items at a+[i]
# A branch is ["g", x] or ["seq", items] (items at a+[j, i]).  A loop directly inside < > and a { } directly inside
# { } are not parseable.  Several branches are only generated with ordinary gates on pairwise disjoint qubit sets
# (prepare_all / measure_all use every qubit, so they only occur in single-branch parallel blocks): the
# "Parallel branches…" rejection is out of scope here and never triggered.

class Unbiased:
    def gate(self, rng):
        k = rng.random()
        return "P" if k < 0.40 else "M" if k < 0.78 else rng.randrange(len(ORD))


class Biased:
    """flat-order aware: mostly keeps the prepare/measure discipline"""
    def __init__(self): self.open = False
    def gate(self, rng):
        ok = rng.random() < 0.97
        if self.open:
            c = rng.random()
            g = "M" if c < 0.4 else "P" if c < 0.5 else rng.randrange(len(ORD))
            if not ok: g = "P"
        else:
            g = "P" if ok else rng.choice(["M", 0])
        if g == "P": self.open = True
        elif g == "M": self.open = False
        return g


def ord_on(rng, qs):
    return rng.choice([i for i in range(len(ORD)) if ORD[i][1] in qs])


def gen_branches(rng, depth, maxdepth, ch):
    if rng.random() < 0.6 or getattr(ch, "open", True) is False:   # a single branch: anything goes
        if rng.random() < 0.75: return [["seq", gen(rng, depth + 1, maxdepth, ch)]]
        return [["g", ch.gate(rng)]]
    qs = list(range(NQ)); rng.shuffle(qs)        # several branches on disjoint qubits, ordinary gates only
    nb = rng.choice([2, 2, 3])
    sets = [qs[i::nb] for i in range(nb)]
    out = []
    for q in sets:
        if rng.random() < 0.5: out.append(["g", ord_on(rng, q)])
        else:
            body = []
            for _ in range(rng.randint(0, 3)):
                if rng.random() < 0.7: body.append(["g", ord_on(rng, q)])
                else: body.append(["loop", rng.choice([0, 1, 2, 3]), [["g", ord_on(rng, q)] for _ in range(rng.randint(0, 2))]])
            out.append(["seq", body])
    return out


def gen(rng, depth, maxdepth, ch, top=False, maxlen=4):
    items = []
    for _ in range(rng.randint(0, maxlen)):
        k = rng.random()
        if k < 0.58 or depth >= maxdepth: items.append(["g", ch.gate(rng)])
        elif k < 0.75: items.append(["loop", rng.choice([0, 0, 1, 1, 2, 2, 3]), gen(rng, depth + 1, maxdepth, ch)])
        elif k < 0.85: items.append(["ploop", rng.choice([0, 1, 2, 2, 3]), gen_branches(rng, depth + 1, maxdepth, ch)])
        elif k < 0.95 or not top: items.append(["par", gen_branches(rng, depth + 1, maxdepth, ch)])
        else: items.append(["seq", gen(rng, depth + 1, maxdepth, ch)])
    return items


def gen_items(rng, depth, maxdepth): return gen(rng, depth, maxdepth, Unbiased(), top=True)
def gen_biased(rng, depth, maxdepth): return gen(rng, depth, maxdepth, Biased(), top=True, maxlen=5)


P, M, G = ["g", "P"], ["g", "M"], ["g", 0]
def pblk(items): return ["par", [["seq", items]]]
CORNERS = [
    [P, ["loop", 2, [P, M]]], [P, ["loop", 2, [M]]], [P, ["loop", 2, [G, P]], M], [P, ["loop", 0, [M]]],
    [["loop", 0, [P]], G, M], [["loop", 0, [P, M]]], [["loop", 0, [P, M]], P, M], [P, ["loop", 0, [P, M]], M],
    [["loop", 3, [["loop", 0, [P, M]], P, G, M]]], [["loop", 2, [P, ["loop", 3, [G]], M]]],
    [P, ["loop", 1, [M, P]], M], [P, ["loop", 2, [["loop", 1, [M]]]]], [P, pblk([G, M]), P],
    [["loop", 2, [P]], ["loop", 2, [G]], M], [], [P], [M], [G],
    [P, ["loop", 2, [P, M, P]], M], [P, ["loop", 2, [["loop", 2, [P, M]]]]], [P, ["loop", 3, [G, pblk([P, G])]], G, M],
    # loops whose body is a parallel block
    [P, ["ploop", 2, [M]]], [P, ["ploop", 3, [["seq", [M, P, G]]]], M], [P, ["ploop", 1, [["seq", [G, M]]]]],
    [P, ["ploop", 2, [["seq", [P, M]]]]], [P, ["ploop", 0, [M]]], [["ploop", 2, [["seq", [P, G, M]]]]],
    [P, ["ploop", 2, [["g", 0], ["g", 5]]], M], [P, ["loop", 2, [["ploop", 2, [M]]]]], [P, ["ploop", 2, [["seq", [["loop", 1, [M]]]]]]],
    [P, ["ploop", 2, [["seq", [["par", [M]]]]]]], [["ploop", 0, [["seq", [P, M]]]], P, M],
    # several branches, top-level sequential block
    [P, ["par", [["g", 0], ["g", 5], ["seq", [["g", 2], ["loop", 2, [["g", 6]]]]]]], ["seq", [G, M]]],
    [["seq", [P, ["par", [M]]]]], [["seq", [P]], ["seq", [G, M]]], [P, ["par", [["seq", [G, ["par", [["g", 1], ["g", 6]]]]], ["g", 7]]], M],
    [["par", [["g", 0], ["g", 5]]]], [P, ["seq", [["loop", 2, [M]]]]],
]


def gate_text(g):
    return "prepare_all" if g == "P" else "measure_all" if g == "M" else f"{ORD[g][0]} r[{ORD[g][1]}]"


def branch_text(b):
    return gate_text(b[1]) if b[0] == "g" else "{\n" + jq(b[1]) + "\n}"


def jq(items):
    out = []
    for it in items:
        if it[0] == "g": out.append(gate_text(it[1]))
        elif it[0] == "loop": out.append(f"loop {it[1]} {{\n" + jq(it[2]) + "\n}")
        elif it[0] == "ploop": out.append(f"loop {it[1]} < " + " | ".join(branch_text(b) for b in it[2]) + " >")
        elif it[0] == "par": out.append("< " + " | ".join(branch_text(b) for b in it[1]) + " >")
        else: out.append("{\n" + jq(it[1]) + "\n}")
    return "\n".join(out)


def src_of(items):
    return f"register r[{NQ}]\n" + jq(items) + "\n"


def mj_branch(b):
    return {"g": b[1]} if b[0] == "g" else {"b": mj(b[1]), "par": False}


def mj(items):
    out = []
    for it in items:
        if it[0] == "g": out.append({"g": it[1]})
        elif it[0] == "loop": out.append({"l": it[1], "par": False, "b": mj(it[2])})
        elif it[0] == "ploop": out.append({"l": it[1], "par": True, "b": [mj_branch(b) for b in it[2]]})
        elif it[0] == "par": out.append({"b": [mj_branch(b) for b in it[1]], "par": True})
        else: out.append({"b": mj(it[1]), "par": False})
    return out


# ---------------------------------------------------------------- independent references (property text only)

def children(it):
    """the statements one address level below a compound item, in order"""
    return it[-1]          # items of loop/seq, branches of ploop/par (a branch is itself an item: g or seq)


def flat_tokens(items, addr, out):
    """flat order with loop brackets; gates carry their address"""
    for i, it in enumerate(items):
        a = addr + [i]
        if it[0] == "g": out.append(("g", it[1], a))
        elif it[0] in ("loop", "ploop"):
            out.append(("[", it[1])); flat_tokens(children(it), a, out); out.append(("]",))
        else: flat_tokens(children(it), a, out)
    return out


def ref_bracket(toks):
    """C12 text as a checker. -> ("ok", pairs) | ("err", set of violated rule classes at the first violation)"""
    is_open = None            # start address of the open subcircuit
    stack = []                # [count, the open subcircuit was opened before this loop body began]
    pairs = []
    for t in toks:
        if t[0] == "[": stack.append([t[1], is_open is not None])
        elif t[0] == "]": stack.pop()
        elif t[1] == "P":
            is_open = t[2]
            for f in stack: f[1] = False
        elif t[1] == "M":
            if is_open is None: return ("err", "measure-without-prepare")
            if any(n > 1 and before for n, before in stack): return ("err", "m->p-in-loop")
            pairs.append((is_open, t[2])); is_open = None
            for f in stack: f[1] = False
        else:
            if is_open is None: return ("err", "gate-outside")
    return ("ok", pairs)


def ref_violations(toks):
    """all rule classes violated anywhere (for the error-class oracle: the real code may report a later one)"""
    v = set(); is_open = False; stack = []
    for t in toks:
        if t[0] == "[": stack.append([t[1], is_open])
        elif t[0] == "]": stack.pop()
        elif t[1] == "P":
            is_open = True
            for f in stack: f[1] = False
        elif t[1] == "M":
            if not is_open: v.add("measure-without-prepare")
            elif any(n > 1 and before for n, before in stack): v.add("m->p-in-loop")
            is_open = False
            for f in stack: f[1] = False
        elif not is_open: v.add("gate-outside")
    return v


def ref_unroll(items, addr, once_prefix=None):
    """executed gate occurrences (gate, address); a loop whose address is a prefix of once_prefix runs once"""
    out = []
    for i, it in enumerate(items):
        a = addr + [i]
        if it[0] == "g": out.append((it[1], a))
        elif it[0] in ("loop", "ploop"):
            body = ref_unroll(children(it), a, once_prefix)
            if once_prefix is not None and once_prefix[:len(a)] == a: out += body
            else: out += body * max(it[1], 0)
        else: out += ref_unroll(children(it), a, once_prefix)
    return out


def ref_visits(items, starts):
    return [starts.index(a) for g, a in ref_unroll(items, []) if a in starts]


def ref_segment(items, start, end):
    return [str(g) for g, a in ref_unroll(items, [], once_prefix=start) if start <= a <= end]


# ---------------------------------------------------------------- the real code

def errclass(msg):
    if "gates must follow" in msg: return "gate-outside"
    if "must follow a measure_all" in msg: return "measure-without-prepare"
    if "not supported in loops" in msg: return "m->p-in-loop"
    return "OTHER:" + msg


def gate_tok(g):
    if g.name == "prepare_all": return "P"
    if g.name == "measure_all": return "M"
    q = list(g.parameters.values())[0]
    return str(ORD.index((g.name, q.alias_index)))


def real(items, timeout=None):
    """-> dict(discover, serialize, visits, nsub, c08_internal) or {"hang": True}"""
    R = _load()
    res = {}
    old = signal.signal(signal.SIGALRM, _alarm)
    from harness import timeouts as _T
    signal.alarm(timeout or _T.limit())
    try:
        c = R["parse"](src_of(items), inject_pulses=R["GI"], autoload_pulses=False)
        try:
            trs = R["Disc"]().visit(c)
            res["discover"] = {"ok": [[[str(x) for x in t.start], [str(x) for x in t.end]] for t in trs]}
        except R["JaqalError"] as e:
            res["discover"] = {"err": errclass(str(e))}
            trs = None
        except Hang: raise
        except Exception as e:                      # anything but a JaqalError is itself a finding
            res["discover"] = {"err": "raise " + type(e).__name__}
            trs = None
        if trs is not None:
            try:
                res["serialize"] = [[gate_tok(g) for g in R["Ser"](t).visit(c)] for t in trs]
            except Hang: raise
            except Exception as e:
                res["serialize"] = "raise " + type(e).__name__
        try:
            r = R["run"](c)
            res["visits"] = [str(ro.subcircuit.index) for ro in r.readouts]
            res["nsub"] = len(r.subcircuits)
            ok = [ro.index for ro in r.readouts] == list(range(len(r.readouts)))
            for k, sc in enumerate(r.subcircuits):
                own = [ro for ro in r.readouts if ro.subcircuit is sc]
                ok = ok and sc.index == k and sc.readouts == own and int(round(sum(sc.relative_frequency_by_int))) == len(own)
            res["c08_internal"] = bool(ok)
        except R["JaqalError"] as e:
            res["visits"] = {"err": errclass(str(e))}
        except Hang: raise
        except Exception as e:
            res["visits"] = "raise " + type(e).__name__
    except Hang:
        from harness import timeouts as _T2
        _T2.saw_hang()
        res = {"hang": True}
    finally:
        signal.alarm(0)
        signal.signal(signal.SIGALRM, old)
    return res


def model_batch(driver, op, bodies):
    lines = "\n".join(json.dumps({"op": op, "body": b}) for b in bodies) + "\n"
    out = subprocess.run([driver], input=lines, capture_output=True, text=True).stdout.split("\n")
    out = [json.loads(l) for l in out if l.strip()]
    assert len(out) == len(bodies), (op, len(out), len(bodies))
    return [o.get("out", o) for o in out]


# ---------------------------------------------------------------- one case

def check_case(items, md, mv, ms, timeout, corr, oracle, dist):
    case = {"items": items, "src": src_of(items)}
    toks = flat_tokens(items, [], [])
    r = real(items, timeout)

    def dis(op, model, impl):
        corr[op]["disagreements"].append({"case": case, "model": model, "impl": impl})

    def fail(name, detail):
        oracle[name]["failures"].append({"case": case, "detail": detail})

    for op in corr: corr[op]["cases"] += 1
    oracle["C08_terminates"]["cases"] += 1
    if r.get("hang"):
        dist["hang"] = dist.get("hang", 0) + 1
        fail("C08_terminates", f"real code still running after {timeout}s")
        dis("visits", mv, "hang")
        return
    # ---- oracles on the real code alone
    ref = ref_bracket(toks)
    oracle["C12_accept_iff_bracketed"]["cases"] += 1
    if "ok" in r["discover"]:
        want = [[[str(x) for x in s], [str(x) for x in e]] for s, e in ref[1]] if ref[0] == "ok" else None
        if r["discover"]["ok"] != want:
            fail("C12_accept_iff_bracketed", f"real accepts with {r['discover']['ok']}, reference: {ref}")
    else:
        oracle["C12_error_class"]["cases"] += 1
        if ref[0] == "ok":
            fail("C12_accept_iff_bracketed", f"real rejects ({r['discover']['err']}), reference accepts")
        elif r["discover"]["err"] not in ref_violations(toks):
            fail("C12_error_class", f"real class {r['discover']['err']}, violated rules {sorted(ref_violations(toks))}")
        if r["visits"] != r["discover"]:
            fail("C12_error_class", f"run_jaqal_circuit: {r['visits']} but discovery: {r['discover']}")
    if "ok" in r["discover"] and ref[0] == "ok":
        starts = [s for s, e in ref[1]]
        oracle["C08_visits"]["cases"] += 1
        want = [str(k) for k in ref_visits(items, starts)]
        if r["visits"] != want or r.get("nsub") != len(starts) or not r.get("c08_internal"):
            fail("C08_visits", f"real {r['visits']} (nsub {r.get('nsub')}, internal {r.get('c08_internal')}), reference {want}")
        oracle["C03_serialize"]["cases"] += 1
        wantser = [ref_segment(items, s, e) for s, e in ref[1]]
        if r["serialize"] != wantser:
            fail("C03_serialize", f"real {r['serialize']}, reference {wantser}")
    # ---- model vs real
    exp = {"err": md["err"]} if "err" in md else {"ok": md["ok"]}
    if exp != r["discover"]: dis("discover", exp, r["discover"])
    if "err" in md:
        dist[md["err"]] = dist.get(md["err"], 0) + 1
        if r["visits"] != {"err": md["err"]}: dis("visits", mv, r["visits"])
        if mv.get("spec_err") is None: dis("discover", "model: rule accepts but discover rejects", None)
        return
    dist["accepted"] = dist.get("accepted", 0) + 1
    dist["traces"] = dist.get("traces", 0) + len(md["ok"])
    if md["pairs"] != md["ok"] or md["bracketed"] is not True: dis("discover", "model: discover vs pairs/Bracketed " + json.dumps(md), None)
    if mv["visits"] != r["visits"]: dis("visits", mv["visits"], r["visits"])
    elif not (mv["visits"] == mv["spec"] == mv["exec"]): dis("visits", "model: visit vs spec " + json.dumps(mv), None)
    if isinstance(r["visits"], list):
        dist["visits"] = dist.get("visits", 0) + len(r["visits"])
        if any(it for it in toks if it[0] == "[" and it[1] <= 0): dist["accepted_with_zero_loop"] = dist.get("accepted_with_zero_loop", 0) + 1
    if ms["ok"] != r.get("serialize"): dis("serialize", ms["ok"], r.get("serialize"))
    elif ms["ok"] != ms["spec"]: dis("serialize", "model: serialize vs segment " + json.dumps(ms), None)


def multibranch(items):
    return any((it[0] in ("par", "ploop") and len(it[-1]) > 1) or (it[0] != "g" and multibranch(it[-1])) for it in items)


def run(seed: int, n: int, driver: str = DEFAULT_DRIVER, thorough: bool = False) -> dict:
    rng = random.Random(seed)
    maxdepth = 4 if thorough else 3
    if thorough: n = n * 5
    timeout = 5
    progs = [json.loads(json.dumps(p)) for p in CORNERS]
    progs += [gen_items(rng, 0, maxdepth) if i % 3 == 0 else gen_biased(rng, 0, maxdepth) for i in range(n)]
    bodies = [mj(p) for p in progs]
    MD = model_batch(driver, "discover", bodies)
    MV = model_batch(driver, "visits", bodies)
    MS = model_batch(driver, "serialize", bodies)
    corr = {op: {"cases": 0, "disagreements": []} for op in ("discover", "visits", "serialize")}
    oracle = {k: {"cases": 0, "failures": []} for k in
              ("C12_accept_iff_bracketed", "C12_error_class", "C08_visits", "C08_terminates", "C03_serialize")}
    dist = {}
    for p, md, mv, ms in zip(progs, MD, MV, MS):
        check_case(p, md, mv, ms, timeout, corr, oracle, dist)
    for d in corr.values(): d["total"] = len(d["disagreements"]); d["disagreements"] = d["disagreements"][:20]
    for d in oracle.values(): d["total"] = len(d["failures"]); d["failures"] = d["failures"][:20]
    def ntok(items): return sum(1 if it[0] == "g" else ntok(children(it)) for it in items)
    nontrivial = len({json.dumps(p) for p in progs if ntok(p) >= 3})
    dist["cases"] = len(progs)
    for feat in ('"loop"', '"ploop"', '"par"', '"seq"'):
        dist["with_" + feat.strip('"')] = sum(1 for p in progs if feat in json.dumps(p))
    dist["with_multibranch"] = sum(1 for p in progs if multibranch(p))
    return {"corr": corr, "oracle": oracle, "distribution": dist,
            "samples": [{"items": p, "src": src_of(p)} for p in progs[len(CORNERS):len(CORNERS) + 5]],
            "nontrivial": nontrivial}


def replay(case: dict, driver: str = DEFAULT_DRIVER) -> dict:
    items = case["items"]
    b = [mj(items)]
    md, mv, ms = (model_batch(driver, op, b)[0] for op in ("discover", "visits", "serialize"))
    corr = {op: {"cases": 0, "disagreements": []} for op in ("discover", "visits", "serialize")}
    oracle = {k: {"cases": 0, "failures": []} for k in
              ("C12_accept_iff_bracketed", "C12_error_class", "C08_visits", "C08_terminates", "C03_serialize")}
    check_case(items, md, mv, ms, 5, corr, oracle, {})
    fails = [f"{k}: {f['detail']}" for k, d in oracle.items() for f in d["failures"]]
    diss = [f"{k}: model {x['model']} impl {x['impl']}" for k, d in corr.items() for x in d["disagreements"]]
    return {"model": {"discover": md, "visits": mv, "serialize": ms}, "impl": real(items),
            "oracle_ok": not fails, "detail": "; ".join(fails + diss) or "ok"}


def main():
    ap = argparse.ArgumentParser()
    ap.add_argument("--model", "--driver", dest="model", default=DEFAULT_DRIVER)
    ap.add_argument("--seed", type=int, default=1)
    ap.add_argument("--n", type=int, default=4000)
    ap.add_argument("--thorough", action="store_true")
    a = ap.parse_args()
    res = run(a.seed, a.n, a.model, a.thorough)
    bad = 0
    for kind in ("corr", "oracle"):
        for name, d in res[kind].items():
            lst = d["disagreements"] if kind == "corr" else d["failures"]
            bad += len(lst)
            print(f"{kind:6} {name:28} cases {d['cases']:6}  {'disagreements' if kind == 'corr' else 'failures'} {d['total']}")
            for x in lst[:3]:
                print("   ", json.dumps({k: v for k, v in x.items() if k != "case"}), "\n    program:\n" + x["case"]["src"])
    print("distribution", res["distribution"], "nontrivial", res["nontrivial"])
    sys.exit(0 if bad == 0 else 1)


if __name__ == "__main__":
    main()
