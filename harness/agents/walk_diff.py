#!/venv/bin/python
"""Differential test: Lean model ops `discover` / `visits` / `serialize` (JaqalModel/Model/WalkOps.lean)
against the REAL jaqalpaq code (DiscoverSubcircuits, run_jaqal_circuit's TraceVisitor walk, TraceSerializer).

usage: walk_diff.py [--model EXE] [--seed S] [--n N] [--timeout SEC]
  EXE = a line-protocol driver exposing the three ops (default /verif/lean/.lake/build/bin/jaqal-model).
Exit status 0 iff zero mismatches and zero hangs of the real code.
"""
import os, sys, json, random, signal, subprocess, argparse
os.environ["JAQALPAQ_RUN_EMULATOR"] = "1"
sys.path.insert(0, "/verif/notes/probes")
import warnings; warnings.filterwarnings("ignore")
from gates import GI
from jaqalpaq.parser import parse_jaqal_string
from jaqalpaq.emulator import run_jaqal_circuit
from jaqalpaq.core.algorithm.walkers import DiscoverSubcircuits, TraceSerializer
from jaqalpaq.error import JaqalError

NQ = 4
ORD = [("X", q) for q in range(NQ)] + [("H", q) for q in range(NQ)]   # payload id -> (name, qubit)

def PI(t): return parse_jaqal_string(t, inject_pulses=GI, autoload_pulses=False)

class Hang(Exception): pass
def _alarm(*a): raise Hang()
signal.signal(signal.SIGALRM, _alarm)

def gen_items(rng, depth, maxdepth):
    items = []
    for _ in range(rng.randint(0, 4)):
        k = rng.random()
        if k < 0.27: items.append(("g", "P"))
        elif k < 0.52: items.append(("g", "M"))
        elif k < 0.66: items.append(("g", rng.randrange(len(ORD))))
        elif depth < maxdepth:
            if k < 0.86: items.append(("loop", rng.choice([0, 0, 1, 1, 2, 3]), gen_items(rng, depth + 1, maxdepth)))
            else: items.append(("pblk", gen_items(rng, depth + 1, maxdepth)))   # < { ... } > (a loop directly inside < > is not parseable)
    return items

def gen_biased(rng, depth, maxdepth, st):
    """Flat-order aware generator: mostly keeps the prepare/measure discipline (st[0] = a subcircuit is open)."""
    items = []
    for _ in range(rng.randint(0, 5)):
        k = rng.random()
        if k < 0.6:
            ok = rng.random() < 0.97
            if st[0]:
                c = rng.random()
                g = "M" if c < 0.4 else "P" if c < 0.5 else rng.randrange(len(ORD))
                if not ok: g = "P"
            else:
                g = "P" if ok else rng.choice(["M", 0])
            if g == "P": st[0] = True
            elif g == "M": st[0] = False
            items.append(("g", g))
        elif depth < maxdepth:
            if k < 0.88: items.append(("loop", rng.choice([0, 1, 2, 2, 3]), gen_biased(rng, depth + 1, maxdepth, st)))
            else: items.append(("pblk", gen_biased(rng, depth + 1, maxdepth, st)))
    return items

def jq(items):
    out = []
    for it in items:
        if it[0] == "g":
            g = it[1]
            out.append("prepare_all" if g == "P" else "measure_all" if g == "M" else f"{ORD[g][0]} r[{ORD[g][1]}]")
        elif it[0] == "loop": out.append(f"loop {it[1]} {{\n" + jq(it[2]) + "\n}")
        else: out.append("< {\n" + jq(it[1]) + "\n} >")
    return "\n".join(out)

def mj(items):
    out = []
    for it in items:
        if it[0] == "g": out.append({"g": it[1]})
        elif it[0] == "loop": out.append({"l": it[1], "par": False, "b": mj(it[2])})
        else: out.append({"b": [{"b": mj(it[1]), "par": False}], "par": True})
    return out

def errclass(msg):
    if "gates must follow" in msg: return "gate-outside"
    if "must follow a measure_all" in msg: return "measure-without-prepare"
    if "not supported in loops" in msg: return "m->p-in-loop"
    return "OTHER:" + msg

def gate_tok(g):
    if g.name == "prepare_all": return "P"
    if g.name == "measure_all": return "M"
    q = list(g.parameters.values())[0]
    return str(ORD.index((g.name, q.alias_index)))

def real(src, timeout):
    """-> dict(discover=..., visits=..., serialize=...)"""
    res = {}
    signal.alarm(timeout)
    try:
        c = PI(src)
        try:
            trs = DiscoverSubcircuits().visit(c)
            res["discover"] = {"ok": [[[str(x) for x in t.start], [str(x) for x in t.end]] for t in trs]}
        except JaqalError as e:
            res["discover"] = {"err": errclass(str(e))}
            trs = None
        if trs is not None:
            try:
                res["serialize"] = [[gate_tok(g) for g in TraceSerializer(t).visit(c)] for t in trs]
            except Hang: raise
            except Exception as e:
                res["serialize"] = "raise " + type(e).__name__
        try:
            r = run_jaqal_circuit(c)
            res["visits"] = [str(ro.subcircuit.index) for ro in r.readouts]
            res["nsub"] = len(r.subcircuits)
            # C08_indices: readout indices 0,1,2,...; per-subcircuit frequencies count own readouts
            assert [ro.index for ro in r.readouts] == list(range(len(r.readouts)))
            for k, sc in enumerate(r.subcircuits):
                assert sc.index == k
                own = [ro for ro in r.readouts if ro.subcircuit is sc]
                assert sc.readouts == own, (sc.readouts, own)
                assert int(round(sum(sc.relative_frequency_by_int))) == len(own)
        except JaqalError as e:
            res["visits"] = {"err": errclass(str(e))}
        except Hang: raise
    except Hang:
        res["hang"] = True
    finally:
        signal.alarm(0)
    return res

def main():
    ap = argparse.ArgumentParser()
    ap.add_argument("--model", default="/verif/lean/.lake/build/bin/jaqal-model")
    ap.add_argument("--seed", type=int, default=1)
    ap.add_argument("--n", type=int, default=4000)
    ap.add_argument("--timeout", type=int, default=5)
    ap.add_argument("--maxdepth", type=int, default=3)
    a = ap.parse_args()
    rng = random.Random(a.seed)
    progs = [gen_items(rng, 0, a.maxdepth) if i % 3 == 0 else gen_biased(rng, 0, a.maxdepth, [False]) for i in range(a.n)]
    # a few hand-written corner cases first
    P, M, G = ("g", "P"), ("g", "M"), ("g", 0)
    progs = [
        [P, ("loop", 2, [P, M])], [P, ("loop", 2, [M])], [P, ("loop", 2, [G, P]), M], [P, ("loop", 0, [M])],
        [("loop", 0, [P]), G, M], [("loop", 0, [P, M])], [("loop", 0, [P, M]), P, M], [P, ("loop", 0, [P, M]), M],
        [("loop", 3, [("loop", 0, [P, M]), P, G, M])], [("loop", 2, [P, ("loop", 3, [G]), M])],
        [P, ("loop", 1, [M, P]), M], [P, ("loop", 2, [("loop", 1, [M])])], [P, ("pblk", [G, M]), P],
        [("loop", 2, [P]), ("loop", 2, [G]), M], [], [P], [M], [G],
    ] + progs
    lines = []
    for p in progs:
        b = mj(p)
        for op in ("discover", "visits", "serialize"):
            lines.append(json.dumps({"op": op, "body": b}))
    out = subprocess.run([a.model], input="\n".join(lines) + "\n", capture_output=True, text=True).stdout.split("\n")
    out = [json.loads(l) for l in out if l.strip()]
    assert len(out) == len(lines), (len(out), len(lines))
    mism = 0; hangs = 0
    stats = {"accepted": 0, "gate-outside": 0, "measure-without-prepare": 0, "m->p-in-loop": 0, "traces": 0, "visits": 0}
    def report(kind, p, model, got):
        nonlocal mism
        mism += 1
        if mism <= 10:
            print(f"MISMATCH [{kind}]\n--- program\nregister r[{NQ}]\n{jq(p)}\n--- model: {model}\n--- real:  {got}\n")
    for i, p in enumerate(progs):
        md, mv, ms = (o.get("out", o) for o in out[3 * i: 3 * i + 3])
        src = f"register r[{NQ}]\n" + jq(p) + "\n"
        r = real(src, a.timeout)
        if r.get("hang"):
            hangs += 1
            print(f"HANG of the real code (> {a.timeout}s)\n--- program\n{src}--- model discover: {md}  visits: {mv}\n")
            continue
        # discover
        if "err" in md:
            exp = {"err": md["err"]}
        else:
            exp = {"ok": md["ok"]}
            # model-internal consistency (also proved): traces = flat-order pairs, rule accepted
            if md["pairs"] != md["ok"] or md["bracketed"] is not True: report("model discover vs spec", p, md, None)
        if exp != r["discover"]: report("discover", p, exp, r["discover"])
        if "err" in md:
            stats[md["err"]] += 1
            if r["visits"] != {"err": md["err"]}: report("run rejects", p, md, r["visits"])
            if mv.get("spec_err") is None: report("model: rule accepted but discover rejects", p, mv, None)
            continue
        stats["accepted"] += 1; stats["traces"] += len(md["ok"])
        # visits
        if mv["visits"] != r["visits"]: report("visits", p, mv["visits"], r["visits"])
        if not (mv["visits"] == mv["spec"] == mv["exec"]): report("model visits vs spec", p, mv, None)
        if r.get("nsub") != len(md["ok"]): report("number of subcircuits", p, len(md["ok"]), r.get("nsub"))
        stats["visits"] += len(r["visits"]) if isinstance(r["visits"], list) else 0
        # serialize
        if ms["ok"] != r["serialize"]: report("serialize", p, ms["ok"], r["serialize"])
        if ms["ok"] != ms["spec"]: report("model serialize vs spec", p, ms, None)
    print(f"cases {len(progs)}  mismatches {mism}  hangs {hangs}  {stats}")
    sys.exit(0 if mism == 0 and hangs == 0 else 1)

if __name__ == "__main__":
    main()
