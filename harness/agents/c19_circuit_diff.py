#!/venv/bin/python
"""Differential test of `normalize_blocks_with_unitary_timing` on REAL circuits (C19, lifted from the skeleton to the IR).

corr   unit_timing_circuit : the Lean model `Jaqal.UnitTimingCircuit.normalizeCircuit` (op `unit_timing_circuit`,
                             JaqalModel/Model/UnitTimingCircuitOps.lean) against the real pass, WHOLE-DUMP comparison
                             (`harness/dump.py: circuit` of the returned circuit: usepulses, constants, registers, macros,
                             natives, body with every gate's name / definition / arguments) or the exception class.
oracle …                   : property C19 on the real code alone, with an independent lock-step scheduler written here
                             (gate INSTANCES are the Python objects: `id(stmt)`), see ORACLES.

CLI:     PYTHONPATH=/verif /venv/bin/python -m harness.agents.c19_circuit_diff [--driver PATH] [--n N] [--seed S] [--thorough]
Module:  run(seed, n, driver, thorough) -> dict, replay(case, driver) -> dict   (diff-script protocol of notes/AGENT_CONVENTIONS.md)

A case is {"text": <Jaqal program>, "gates": "native"|"free", "pre": [names of real passes applied before, in order],
           "tamper": [[kind, k, arg], …]}  — enough to rebuild the input circuit (`circuit_of_case`):
  * gates = "native": parsed with inject_pulses = harness.gates.GATES (natives non-empty, typed parameters);
    gates = "free"  : parsed with autoload_pulses=False (anonymous gate definitions, `usepulses` statements kept);
  * pre ⊆ expand_macros / fill_in_let / fill_in_map / expand_subcircuits (real functions; a case whose pre-pass raises is
    counted in the distribution and dropped);
  * tamper: deterministic surgery on the parsed objects, to reach what the parser cannot produce (same-kind nesting,
    loops directly in < >, subcircuit under / as a parallel block, a parallel or non-block circuit body, blocks whose
    constructor checks fail, a Macro among the native gates).  Tampered cases are compared (corr) but are outside the oracles.
"""
import argparse
import json
import random
import subprocess
import sys
from collections import Counter

DEFAULT_DRIVER = "/verif/lean/.lake/build/bin/jaqal-model"
OP = "unit_timing_circuit"
PRE = ["expand_macros", "fill_in_let", "fill_in_map", "expand_subcircuits"]


def _lib():
    """late imports (nothing happens at import time)"""
    import os
    root = os.path.dirname(os.path.dirname(os.path.dirname(os.path.abspath(__file__))))
    if root not in sys.path and os.path.isdir(os.path.join(root, "harness")):
        sys.path.insert(0, root)
    elif "/verif" not in sys.path:
        sys.path.insert(0, "/verif")
    from harness import dump, gates
    from jaqalpaq.parser import parse_jaqal_string
    from jaqalpaq.core.algorithm import expand_macros, fill_in_let, expand_subcircuits
    from jaqalpaq.core.algorithm.fill_in_map import fill_in_map
    from jaqalpaq.core.algorithm.unit_timing import normalize_blocks_with_unitary_timing
    from jaqalpaq.core.block import BlockStatement, LoopStatement
    from jaqalpaq.core.gate import GateStatement
    from jaqalpaq.core.constant import Constant
    from jaqalpaq.core.macro import Macro
    from jaqalpaq.core.circuit import Circuit
    from jaqalpaq.error import JaqalError

    class L:
        pass
    for k, v in locals().items():
        setattr(L, k, v)
    L.passes = {"expand_macros": expand_macros, "fill_in_let": fill_in_let, "fill_in_map": fill_in_map,
                "expand_subcircuits": expand_subcircuits}
    L.norm = normalize_blocks_with_unitary_timing
    return L


# ---------------------------------------------------------------- program generator (text)

HEADER = "register r[4]\nlet n 3\nlet k 2\nlet a 0.25\nmap q r[0:4:2]\n"
SIG = {"X": "q", "Y": "q", "Z": "q", "S": "q", "SX": "q", "N": "q", "P": "qi", "PF": "iq",
       "CX": "qq", "CZ": "qq", "SWAP": "qq", "CCX": "qqq"}


class Gen:
    def __init__(self, rng, mode):
        self.rng, self.mode, self.ids = rng, mode, 0
        self.macros = []      # (name, nparams)

    def qubit(self, params):
        r = self.rng
        if params and r.random() < 0.6:
            return params[0]
        return r.choice(["r[0]", "r[1]", "r[2]", "r[3]", "q[0]", "q[1]", "r[k]"])

    def number(self, params, integer):
        r = self.rng
        if len(params) > 1 and r.random() < 0.4:
            return params[1]
        if integer:
            return r.choice(["0", "1", "2", "5", "n", "k", "-1"])
        return r.choice(["0.5", "a", "2", "n", "-1.25", "3.0"])

    def gate(self, params, allow_macro=True):
        r = self.rng
        if allow_macro and self.macros and r.random() < 0.2:   # a macro call: an opaque one-step gate
            name, np_ = r.choice(self.macros)
            args = [self.qubit(params)] + [self.number(params, True)] * (np_ - 1)
            return " ".join([name] + args)
        if self.mode == "native":
            name = r.choice(list(SIG))
            args = [self.qubit(params) if c == "q" else self.number(params, True) for c in SIG[name]]
        else:
            self.ids += 1
            name = f"g{self.ids}"
            args = [self.qubit(params) if r.random() < 0.6 else self.number(params, False)
                    for _ in range(r.choice([0, 1, 1, 2]))]
        return " ".join([name] + args)

    def seq_items(self, depth, params, in_par, in_sub, macro):
        n = self.rng.choice([0, 0, 1, 1, 2, 2, 3, 4])
        return [self.stmt(depth, "seq", params, in_par, in_sub, macro) for _ in range(n)]

    def block(self, items, par):
        r = self.rng
        if par:
            return "<" + r.choice([" | ", "|", "\n"]).join(items) + ">"
        return "{" + r.choice(["; ", ";", "\n"]).join(items) + "}"

    def stmt(self, depth, ctx, params, in_par, in_sub, macro):
        r = self.rng
        if depth <= 0 or r.random() < (0.15 if ctx == "top" else 0.35):
            return self.gate(params, allow_macro=not macro)
        if ctx == "par":
            kinds = ["seq"]
        elif ctx == "seq":
            kinds = ["par", "par", "loop"] + ([] if (in_par or in_sub or macro) else ["sub"])
        else:
            kinds = ["par", "par", "seq", "loop"] + ([] if macro else ["sub"])
        kind = r.choice(kinds)
        if kind == "seq":
            return self.block(self.seq_items(depth - 1, params, in_par, in_sub, macro), False)
        if kind == "par":
            n = r.choice([0, 1, 2, 2, 3, 3, 4])
            return self.block([self.stmt(depth - 1, "par", params, True, in_sub, macro) for _ in range(n)], True)
        if kind == "sub":
            cnt = r.choice(["", "", "1 ", "2 ", "100 ", "n ", "k "])
            return "subcircuit " + cnt + self.block(self.seq_items(depth - 1, params, in_par, True, macro), False)
        cnt = r.choice(["0", "1", "2", "3", "n", "k"] + ([params[1]] if len(params) > 1 else []))
        return f"loop {cnt} " + self.block(self.seq_items(depth - 1, params, in_par, in_sub, macro), False)

    def program(self):
        r = self.rng
        out = []
        if self.mode == "free" and r.random() < 0.5:
            out.append(r.choice(["from foo.bar usepulses *\n", "from a.b usepulses *\nfrom c usepulses *\n"]))
        out.append(HEADER)
        for i in range(r.choice([0, 0, 1, 2])):
            name, params = f"M{i}", (["x", "c"] if r.random() < 0.5 else ["x"])
            body = self.stmt(r.choice([1, 2, 3]), "top", params, False, False, True)
            if body[0] not in "{<":
                body = "{" + body + "}"
            out.append(f"macro {name} {' '.join(params)} {body}\n")
            self.macros.append((name, len(params)))
        depth = r.choice([1, 2, 3, 3, 4, 4, 5, 6])
        stmts = [self.stmt(depth, "top", [], False, False, False) for _ in range(r.choice([0, 1, 1, 2, 2, 3, 4]))]
        out.append(r.choice(["\n", "; ", ";\n"]).join(stmts) + "\n")
        return "".join(out)


FIXED = [
    "g0", "{g0}", "<g0|g1>", "loop 5 {g0; g1}", "{g0;g1;<g2|g3|g4|{g5;g6}>;g7}", "<g0|g1|{<g2|g3>;g4}>",
    "<g0|{<g1|g2>;g3}|{<g4|g5>;g6}|g7>", "<{loop 5 {}}>", "<>", "{}", "<{}>", "<{<>}>", "<{<>;g0}|g1>", "<{}|{}>",
    "<g0|{}>", "{<>;<g0>;<{g1}>}", "subcircuit {}", "subcircuit 3 {<g0|{g1;g2}>;loop 2 {<g3|{loop 1 {g4}}>}}",
    "g0;subcircuit 2 {g1};g2", "<g0|{g1;loop 2 {g2}}>", "<{g0;g1;g2}|{g3}|{<g4|{g5;g6}>;g7;g8;g9}>",
    "let n 2\nregister r[n]\nloop n {<g0 r[0]|{g1 r[1] n; g2}>}\nsubcircuit n {<g3|{g4;g5}>}",
    "register r[2]\nmacro M x c {loop c {<g0 x|{g1 x;g2 x}>}}\n<M r[0] 2|{g3;g4}>\nM r[1] 1",
    "register r[2]\nmacro M x {<g0 x|{g1 x;g2 x}>}\n<M r[0]|{g3;g4}>",
]

# ---------------------------------------------------------------- building the input circuit


def blocks_of(L, c):
    """all BlockStatements below the body in preorder (also inside loops), without the body block"""
    out = []

    def go(s):
        if isinstance(s, L.LoopStatement):
            go(s.statements)
        elif isinstance(s, L.BlockStatement):
            out.append(s)
            for x in s.statements:
                go(x)
    if isinstance(c.body, L.BlockStatement):
        for s in c.body.statements:
            go(s)
    return out


def tamper(L, c, ops):
    for kind, k, arg in ops:
        bl = blocks_of(L, c)
        b = bl[k % len(bl)] if bl else None
        if kind == "flip_par" and b is not None:
            b._parallel = not b._parallel
        elif kind == "mk_sub" and b is not None:
            b._subcircuit, b._iterations = True, arg
        elif kind == "bad_it" and b is not None:   # constructor checks of the rebuilt block
            b._iterations = {"two": 2, "float1": 1.0, "float2": 2.0, "fconst": L.Constant("fc", 2.5), "none": None,
                             "iconst": L.Constant("ic", 1), "true": True}[arg]
        elif kind == "loop_in_par" and b is not None:
            b._statements.insert(min(len(b._statements), 1), L.LoopStatement(arg, L.BlockStatement(statements=list(b._statements[:1]))))
        elif kind == "par_body":
            c._body._parallel = True
        elif kind == "sub_body":
            c._body._subcircuit, c._body._iterations = True, arg
        elif kind == "loop_body":
            c._body = L.LoopStatement(arg, c._body if k % 2 == 0 else (c._body.statements[0] if c._body.statements else c._body))
        elif kind == "gate_body" and c._body.statements:
            s = c._body.statements[0]
            while not isinstance(s, L.GateStatement):
                s = s.statements[0] if len(s.statements) else None
                if s is None:
                    break
            if s is not None:
                c._body = s
        elif kind == "macro_native":
            c._native_gates["Mx"] = L.Macro("Mx", [])
    return c


def circuit_of_case(L, case):
    if case["gates"] == "native":
        c = L.parse_jaqal_string(case["text"], inject_pulses=L.gates.GATES, autoload_pulses=False)
    else:
        c = L.parse_jaqal_string(case["text"], autoload_pulses=False)
    for p in case.get("pre", []):
        c = L.passes[p](c)
    return tamper(L, c, case.get("tamper", []))


# ---------------------------------------------------------------- comparison of dumps


def canon(j):
    """what the Lean codec keeps of a dump: no "keys", no "av" marks, usepulses name lists as "[…]", `unitary` defaulted"""
    if isinstance(j, dict):
        out = {k: canon(v) for k, v in j.items() if k not in ("keys", "av")}
        if "tag" in out and "params" in out and "unitary" not in out:
            out["unitary"] = False
        if "usepulses" in out:
            out["usepulses"] = [[m, n if isinstance(n, str) else "[…]"] for m, n in out["usepulses"]]
        return out
    if isinstance(j, list):
        return [canon(x) for x in j]
    return j


def run_real(L, c):
    try:
        new = L.norm(c)
    except RecursionError:
        return {"err": "RecursionError"}, None
    except Exception as e:  # noqa: the class is what is compared
        return {"err": type(e).__name__}, None
    return {"ok": canon(L.dump.circuit(new))}, new


def model_answers(dumps, driver):
    if not dumps:
        return []
    reqs = "".join(json.dumps({"op": OP, "circuit": d}) + "\n" for d in dumps)
    proc = subprocess.run([driver], input=reqs, capture_output=True, text=True, check=True)
    lines = proc.stdout.splitlines()
    if len(lines) != len(dumps):
        raise RuntimeError(f"driver answered {len(lines)} lines for {len(dumps)} requests")
    out = []
    for line in lines:
        ans = json.loads(line)
        if "out" not in ans:
            out.append({"driver_error": ans.get("err", line)})
        elif "err" in ans["out"]:
            out.append({"err": ans["out"]["err"]})
        else:
            out.append({"ok": canon(ans["out"]["ok"])})
    return out


# ---------------------------------------------------------------- the independent lock-step scheduler (real objects)


def count_of(L, v):
    while isinstance(v, L.Constant):
        v = v.value
    if isinstance(v, bool) or not isinstance(v, (int, float)) or v != int(v):
        raise ValueError(f"count {v!r}")
    return max(int(v), 0)


def dur(L, s):
    if isinstance(s, L.GateStatement):
        return 1
    if isinstance(s, L.LoopStatement):
        return count_of(L, s.iterations) * dur(L, s.statements)
    ds = [dur(L, x) for x in s.statements]
    return max(ds, default=0) if s.parallel else sum(ds)


def schedule(L, s, t0, out, slots, depth):
    """out: (id(gate statement), step) in program order, loops unrolled; slots: (depth, id(iterations), iterations dump,
    start, duration) of every subcircuit block (first iteration of the enclosing loops)"""
    if isinstance(s, L.GateStatement):
        out.append((id(s), t0))
    elif isinstance(s, L.LoopStatement):
        d = dur(L, s.statements)
        for i in range(count_of(L, s.iterations)):
            schedule(L, s.statements, t0 + i * d, out, slots if i == 0 else [], depth)
        if count_of(L, s.iterations) == 0:
            schedule(L, s.statements, t0, [], slots, depth)
    else:
        if s.subcircuit:
            slots.append((depth, id(s.iterations) if not isinstance(s.iterations, int) else s.iterations,
                          json.dumps(L.dump.val(s.iterations)), t0, dur(L, s)))
            depth += 1
        for x in s.statements:
            schedule(L, x, t0, out, slots, depth)
            if not s.parallel:
                t0 += dur(L, x)


def gate_objs(L, s, out):
    """every gate statement object below s (loops counted once), in program order"""
    if isinstance(s, L.GateStatement):
        out.append(s)
    else:
        for x in (s.statements.statements if isinstance(s, L.LoopStatement) else s.statements):
            gate_objs(L, x, out)
    return out


def loop_in_par(L, s, p):
    if isinstance(s, L.GateStatement):
        return False
    if isinstance(s, L.LoopStatement):
        return p
    return any(loop_in_par(L, x, p or s.parallel) for x in s.statements)


def is_flat(L, stmts):
    for s in stmts:
        if isinstance(s, (L.GateStatement, L.LoopStatement)):
            continue
        if s.subcircuit:
            if s.parallel or not is_flat(L, s.statements):
                return False
        elif s.parallel:
            if len(s.statements) < 2 or not all(isinstance(x, L.GateStatement) for x in s.statements) or s.iterations != 1:
                return False
        else:
            return False
    return True


ORACLES = [
    "schedule_preserved",          # multiset of (gate INSTANCE, time step) unchanged: same step, none lost, none duplicated
    "per_step_order_preserved",    # the instances of one step keep their program order
    "gate_statements_verbatim",    # the gate statement objects of the result are exactly those of the input (`is`), dumps equal
    "result_flat",                 # gates, groups of >= 2 gates, loops, subcircuit blocks with flat bodies
    "loops_untouched",             # every loop of the result is a loop object of the input
    "subcircuit_frame_preserved",  # (depth, iterations object, start step, duration) of the subcircuit blocks
    "header_preserved",            # constants / registers / macros / native gates: same keys, same objects, same order; usepulses
    "macros_unvisited",            # macro bodies are the same objects with the same dump
    "input_not_mutated",
    "idempotent",
    "loop_in_parallel_is_jaqalerror",
    "accepted_iff_loop_free_in_parallel",
]


def eval_oracles(L, c, before_dump, impl, new):
    r = {k: None for k in ORACLES}
    lip = loop_in_par(L, c.body, False)
    r["input_not_mutated"] = (L.dump.circuit(c) == before_dump, "the input circuit changed")
    if lip:
        r["loop_in_parallel_is_jaqalerror"] = (impl.get("err") == "JaqalError", f"outcome {impl.get('err', 'ok')}")
    r["accepted_iff_loop_free_in_parallel"] = (("ok" in impl) == (not lip), f"loop in parallel: {lip}; outcome {impl.get('err', 'ok')}")
    if new is None:
        return r
    try:
        s_in, s_out, f_in, f_out = [], [], [], []
        schedule(L, c.body, 0, s_in, f_in, 0)
        schedule(L, new.body, 0, s_out, f_out, 0)
    except ValueError as e:
        r["schedule_preserved"] = (False, f"scheduler: {e}")
        return r
    r["schedule_preserved"] = (Counter(s_in) == Counter(s_out), f"in {len(s_in)} out {len(s_out)} executions; "
                               f"diff {list((Counter(s_in) - Counter(s_out)).items())[:3]} / {list((Counter(s_out) - Counter(s_in)).items())[:3]}")

    def by_step(s):
        d = {}
        for g, t in s:
            d.setdefault(t, []).append(g)
        return d
    r["per_step_order_preserved"] = (by_step(s_in) == by_step(s_out), "order inside a step changed")
    gi, go = gate_objs(L, c.body, []), gate_objs(L, new.body, [])
    # (the parser's builder shares one GateStatement object between textually identical statements, so an object may
    # occur several times: the comparison is between multisets of objects)
    r["gate_statements_verbatim"] = (Counter(map(id, gi)) == Counter(map(id, go)),
                                     f"{len(gi)} gate statements in, {len(go)} out")
    r["result_flat"] = (type(new.body) is L.BlockStatement and not new.body.parallel and not new.body.subcircuit
                        and new.body.iterations == 1 and is_flat(L, new.body.statements), "result body not flat")

    def loops(s, out):
        if isinstance(s, L.LoopStatement):
            out.append(s)
        elif isinstance(s, L.BlockStatement):
            for x in s.statements:
                loops(x, out)
        return out
    r["loops_untouched"] = ([id(x) for x in loops(new.body, [])] == [id(x) for x in loops(c.body, [])], "loop objects differ")
    r["subcircuit_frame_preserved"] = (f_in == f_out, f"in {f_in} out {f_out}")
    hdr = True
    for a in ("constants", "registers", "macros", "native_gates"):
        da, db = getattr(c, a), getattr(new, a)
        hdr = hdr and list(da.keys()) == list(db.keys()) and all(da[x] is db[x] for x in da)
    hdr = hdr and len(c.usepulses) == len(new.usepulses) and all(x is y for x, y in zip(c.usepulses, new.usepulses))
    r["header_preserved"] = (hdr and new is not c and type(new) is L.Circuit, "header data differ / not a fresh Circuit")
    r["macros_unvisited"] = (all(new.macros[m].body is c.macros[m].body for m in c.macros)
                             and canon(L.dump.circuit(new))["macros"] == canon(before_dump)["macros"], "a macro body changed")
    try:
        again = L.norm(new)
        r["idempotent"] = (L.dump.circuit(again) == L.dump.circuit(new) and again == new, "normalising the result again changed it")
    except Exception as e:  # noqa
        r["idempotent"] = (False, f"normalising the result raised {e!r}")
    return r


# ---------------------------------------------------------------- cases

TAMPERS = [("flip_par", None), ("flip_par", None), ("mk_sub", 3), ("mk_sub", 1), ("bad_it", "two"), ("bad_it", "float1"),
           ("bad_it", "float2"), ("bad_it", "fconst"), ("bad_it", "none"), ("bad_it", "iconst"), ("bad_it", "true"),
           ("loop_in_par", 2), ("par_body", None), ("sub_body", 4), ("loop_body", 2), ("gate_body", None), ("macro_native", None)]


def gen_cases(seed, n, thorough):
    rng = random.Random(seed)
    total = n * (8 if thorough else 1)
    cases = [{"text": t, "gates": "free", "pre": [], "tamper": []} for t in FIXED]
    for i in range(total):
        mode = rng.choice(["native", "native", "free"])
        text = Gen(rng, mode).program()
        case = {"text": text, "gates": mode, "pre": [], "tamper": []}
        x = rng.random()
        if x < 0.3:
            case["pre"] = rng.sample(PRE, rng.choice([1, 1, 2, 3]))
        elif x < 0.55:
            case["tamper"] = [[k, rng.randrange(50), a] for k, a in rng.sample(TAMPERS, rng.choice([1, 1, 2]))]
        cases.append(case)
    return cases


def features(L, c, d):
    f = set()
    s = json.dumps(d["body"])
    if '"l": {"c"' in s:
        f.add("loop_count_is_let")
    if '"l": {"i"' in s:
        f.add("loop_count_is_literal")
    if '"it": {"c"' in s:
        f.add("subcircuit_count_is_let")
    if '"sub": true' in s:
        f.add("has_subcircuit")
    if '"tag": "macro"' in s:
        f.add("macro_call_in_body")
    if '"b": []' in s:
        f.add("has_empty_block")
    if d["macros"]:
        f.add("has_macro_definitions")
        if '"par": true' in json.dumps(d["macros"]):
            f.add("macro_body_has_parallel_block")
    if d["usepulses"]:
        f.add("has_usepulses")
    if d["natives"]:
        f.add("has_natives")
    return f


def one(L, case):
    """-> None (front end / pre-pass refused) | (input dump, impl, new circuit, oracle results | None)"""
    try:
        c = circuit_of_case(L, case)
        d = L.dump.circuit(c)
    except RecursionError:
        return None
    except Exception:  # noqa
        return None
    impl, new = run_real(L, c)
    orc = None if case.get("tamper") else eval_oracles(L, c, d, impl, new)
    return c, d, impl, new, orc


def run(seed: int, n: int, driver: str = DEFAULT_DRIVER, thorough: bool = False) -> dict:
    L = _lib()
    cases = gen_cases(seed, n, thorough)
    corr = {OP: {"cases": 0, "disagreements": []}}
    oracle = {k: {"cases": 0, "failures": []} for k in ORACLES}
    dist, nontrivial, live = Counter(), set(), []
    for case in cases:
        r = one(L, case)
        if r is None:
            dist["dropped: front end or pre-pass raised"] += 1
            continue
        live.append((case, r))
    models = model_answers([r[1] for _, r in live], driver)
    for (case, (c, d, impl, new, orc)), model in zip(live, models):
        corr[OP]["cases"] += 1
        if model != impl:
            small = {k: (v if k == "err" else "<circuit dump>") for k, v in model.items()}
            corr[OP]["disagreements"].append({"case": case, "model": model if "ok" not in model else small,
                                              "impl": impl if "ok" not in impl else "<circuit dump>"})
        outcome = "ok" if "ok" in impl else impl["err"]
        dist[f"outcome={outcome}"] += 1
        dist[f"gates={case['gates']}"] += 1
        for p in case["pre"]:
            dist[f"pre:{p}"] += 1
        for t in case["tamper"]:
            dist[f"tamper:{t[0]}"] += 1
        if not case["pre"] and not case["tamper"]:
            dist["plain parsed program"] += 1
        for f in features(L, c, d):
            dist[f] += 1
        changed = "ok" in impl and impl["ok"]["body"] != canon(d)["body"]
        if changed:
            dist["ok_and_changed"] += 1
        if changed or "err" in impl:
            nontrivial.add(json.dumps(canon(d), sort_keys=True))
        if orc:
            for name, res in orc.items():
                if res is None:
                    continue
                oracle[name]["cases"] += 1
                if not res[0]:
                    oracle[name]["failures"].append({"case": case, "detail": res[1]})
    corr[OP]["disagreements"] = corr[OP]["disagreements"][:20]
    for k in oracle:
        oracle[k]["failures"] = oracle[k]["failures"][:20]
    samples = [c for c in cases if c["pre"]][:2] + [c for c in cases if c["tamper"]][:2] + cases[len(FIXED):len(FIXED) + 2]
    return {"corr": corr, "oracle": oracle, "distribution": dict(sorted(dist.items())), "samples": samples,
            "nontrivial": len(nontrivial)}


def replay(case: dict, driver: str = DEFAULT_DRIVER) -> dict:
    L = _lib()
    r = one(L, case)
    if r is None:
        return {"model": None, "impl": None, "oracle_ok": None, "detail": "the front end or a pre-pass refuses this case"}
    c, d, impl, new, orc = r
    model = model_answers([d], driver)[0]
    details, oracle_ok = [], None
    if orc is not None:
        oracle_ok = True
        for name, res in orc.items():
            if res is not None and not res[0]:
                oracle_ok = False
                details.append(f"{name}: {res[1]}")
    if model != impl:
        details.append("model and implementation disagree")
    return {"model": model, "impl": impl, "oracle_ok": oracle_ok, "detail": "; ".join(details) or "agree"}


def main():
    ap = argparse.ArgumentParser()
    ap.add_argument("--driver", default=DEFAULT_DRIVER)
    ap.add_argument("--n", type=int, default=1500)
    ap.add_argument("--seed", type=int, default=19)
    ap.add_argument("--thorough", action="store_true")
    ap.add_argument("--json", action="store_true")
    args = ap.parse_args()
    res = run(args.seed, args.n, args.driver, args.thorough)
    if args.json:
        print(json.dumps(res, indent=1))
    bad = 0
    for op, d in res["corr"].items():
        print(f"corr   {op}: {d['cases']} cases, {len(d['disagreements'])} disagreements (shown <= 20)")
        for x in d["disagreements"]:
            print("  MISMATCH", json.dumps(x)[:1500])
        bad += len(d["disagreements"])
    for name, d in res["oracle"].items():
        print(f"oracle {name}: {d['cases']} cases, {len(d['failures'])} failures")
        for x in d["failures"]:
            print("  FINDING", json.dumps(x)[:1500])
        bad += len(d["failures"])
    print("distribution:")
    for k, v in res["distribution"].items():
        print("  ", k, v)
    print("nontrivial distinct cases:", res["nontrivial"])
    print("RESULT:", "OK" if bad == 0 else f"{bad} PROBLEMS")
    sys.exit(0 if bad == 0 else 1)


if __name__ == "__main__":
    main()
