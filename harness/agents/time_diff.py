#!/venv/bin/python
"""Differential test: real `normalize_blocks_with_unitary_timing` vs the Lean model `Jaqal.UnitTiming`.

Run:   /venv/bin/python /verif/harness/agents/time_diff.py [--driver PATH] [--n N] [--seed S]

`--driver` is a native executable speaking the line protocol of /verif/lean/Main.lean
(`{"op":"unit_timing","body":[...]}` -> `{"out":{"ok":[...]}|{"err":"jaqal"|"assert"}}`);
default `/verif/lean/.lake/build/bin/jaqal-model`.

A test program is a tree  ('g', id) | ('b', par, sub, iters, [children]) | ('l', n, child)  in which
every gate id occurs once (gate name `g<id>`), so instances are distinguishable.  It reaches the
real code along three routes:
  text : printed as Jaqal text and parsed with `parse_jaqal_string(text, autoload_pulses=False)`
         (only grammar-legal trees: <..> holds gates and {..}; {..} holds gates, <..>, loops, subcircuits);
  sexp : as S-expressions through `jaqalpaq.core.circuitbuilder.build` (same-kind nesting `{ { } }`,
         `< < > >`, loops directly inside <..>, ...);
  obj  : core objects constructed directly (everything, including what the builder refuses:
         a subcircuit block below a parallel block, parallel subcircuit blocks).
The normalised body is converted back to a tree and compared with the model's answer exactly;
JaqalError <-> "jaqal", AssertionError <-> "assert"; any other exception is a finding.

Independent checks made on the Python side for every successful run:
  * the lock-step schedule (gate id, step), computed on the real objects, is the same multiset
    before and after, and the gates of each step keep their program order; every subcircuit block
    keeps its (iterations, start step, duration);  * the (depth, iterations) list of subcircuit blocks is unchanged;
  * the input circuit was not mutated;  * header data (registers, constants, macros, usepulses,
    native_gates) of the new circuit equal those of the input.
"""
import argparse
import copy
import json
import random
import subprocess
import sys
from collections import Counter

from jaqalpaq.error import JaqalError
from jaqalpaq.parser import parse_jaqal_string
from jaqalpaq.core.algorithm.unit_timing import normalize_blocks_with_unitary_timing
from jaqalpaq.core.circuitbuilder import build
from jaqalpaq.core.circuit import Circuit
from jaqalpaq.core.block import BlockStatement, LoopStatement
from jaqalpaq.core.gate import GateStatement

# ---------------------------------------------------------------- trees


class Ids:
    def __init__(self):
        self.k = 0

    def next(self):
        self.k += 1
        return self.k - 1


def gen_seq_items(rng, ids, depth, mode, in_par, in_sub):
    n = rng.choice([0, 0, 1, 1, 2, 2, 3, 4])
    return [gen_stmt(rng, ids, depth, mode, ctx="seq", in_par=in_par, in_sub=in_sub) for _ in range(n)]


def gen_stmt(rng, ids, depth, mode, ctx, in_par, in_sub):
    """mode: 'text' (grammar-legal, builder-legal), 'sexp' (builder-legal), 'obj' (anything)."""
    if depth <= 0 or rng.random() < 0.35:
        return ("g", ids.next())
    kinds = []
    if mode == "text":
        if ctx == "seq":
            kinds = ["par", "loop"] + ([] if (in_par or in_sub) else ["sub"])
        elif ctx == "par":
            kinds = ["seq"]
        else:  # top
            kinds = ["par", "seq", "loop", "sub"]
    elif mode == "sexp":
        kinds = ["par", "seq", "seq", "loop"] + ([] if (in_par or in_sub) else ["sub"])
    else:
        kinds = ["par", "par", "seq", "seq", "loop", "sub", "parsub"]
        if in_par and rng.random() < 0.7:
            # keep assertion / loop errors from swamping the successful cases
            kinds = ["par", "seq", "seq", "par"]
    kind = rng.choice(kinds)
    if kind == "seq":
        return ("b", False, False, 1, gen_seq_items(rng, ids, depth - 1, mode, in_par, in_sub))
    if kind == "par":
        n = rng.choice([0, 1, 2, 2, 3, 3, 4])
        return ("b", True, False, 1,
                [gen_stmt(rng, ids, depth - 1, mode, "par", True, in_sub) for _ in range(n)])
    if kind == "sub":
        it = rng.choice([1, 1, 2, 5, 100])
        return ("b", False, True, it, gen_seq_items(rng, ids, depth - 1, mode, in_par, True))
    if kind == "parsub":
        it = rng.choice([1, 3])
        n = rng.choice([0, 1, 2, 3])
        return ("b", True, True, it,
                [gen_stmt(rng, ids, depth - 1, mode, "par", True, True) for _ in range(n)])
    if kind == "loop":
        n = rng.choice([0, 1, 2, 3, 7])
        if mode == "text" or rng.random() < 0.8:
            body = ("b", False, False, 1, gen_seq_items(rng, ids, depth - 1, mode, in_par, in_sub))
        else:
            body = ("b", True, False, 1,
                    [gen_stmt(rng, ids, depth - 1, mode, "par", True, in_sub) for _ in range(rng.choice([0, 2, 3]))])
        return ("l", n, body)
    raise AssertionError(kind)


def gen_body(rng, mode):
    ids = Ids()
    depth = rng.choice([1, 2, 3, 3, 4, 4, 5, 6])
    n = rng.choice([0, 1, 1, 2, 2, 3, 4])
    return [gen_stmt(rng, ids, depth, mode, "top", False, False) for _ in range(n)], ids.k


# ---------------------------------------------------------------- the three routes


def to_text(t, sep_rng):
    if t[0] == "g":
        return f"g{t[1]}"
    if t[0] == "l":
        return f"loop {t[1]} {to_text(t[2], sep_rng)}"
    _, par, sub, it, kids = t
    if par:
        sep = sep_rng.choice([" | ", "|", "\n", " |\n "])
        return "<" + sep.join(to_text(k, sep_rng) for k in kids) + ">"
    sep = sep_rng.choice(["; ", ";", "\n", " ;\n "])
    inner = "{" + sep.join(to_text(k, sep_rng) for k in kids) + "}"
    if sub:
        return ("subcircuit " if it == 1 and sep_rng.random() < 0.5 else f"subcircuit {it} ") + inner
    return inner


def to_sexp(t):
    if t[0] == "g":
        return ["gate", f"g{t[1]}"]
    if t[0] == "l":
        return ["loop", t[1], to_sexp(t[2])]
    _, par, sub, it, kids = t
    if sub:
        assert not par
        return ["subcircuit_block", it] + [to_sexp(k) for k in kids]
    return ["parallel_block" if par else "sequential_block"] + [to_sexp(k) for k in kids]


def to_obj(t):
    if t[0] == "g":
        return build(["gate", f"g{t[1]}"])
    if t[0] == "l":
        return LoopStatement(t[1], to_obj(t[2]))
    _, par, sub, it, kids = t
    return BlockStatement(parallel=par, subcircuit=sub, iterations=it, statements=[to_obj(k) for k in kids])


def from_obj(o):
    if isinstance(o, GateStatement):
        assert o.name[0] == "g" and not o.parameters, o
        return ("g", int(o.name[1:]))
    if isinstance(o, LoopStatement):
        return ("l", int(o.iterations), from_obj(o.statements))
    if type(o) is BlockStatement:
        return ("b", bool(o.parallel), bool(o.subcircuit), int(o.iterations), [from_obj(s) for s in o.statements])
    raise TypeError(f"unexpected object in circuit body: {o!r}")


def to_json(t):
    if t[0] == "g":
        return {"g": t[1]}
    if t[0] == "l":
        return {"l": t[1], "body": to_json(t[2])}
    return {"b": [to_json(k) for k in t[4]], "par": t[1], "sub": t[2], "it": t[3]}


def from_json(j):
    if "g" in j:
        return ("g", int(j["g"]))
    if "l" in j:
        return ("l", int(j["l"]), from_json(j["body"]))
    return ("b", j["par"], j["sub"], int(j["it"]), [from_json(k) for k in j["b"]])


HEADERS = [
    "",
    "register r[3]\n",
    "let a 2\nregister r[a]\nmap q r[0:2]\n",
    "register r[2]\nlet b 1.5\nmacro m x { h x }\n",
    "from foo.bar usepulses *\nregister r[1]\n",
]

# ---------------------------------------------------------------- Python-side property checks


def dur(t):
    if t[0] == "g":
        return 1
    if t[0] == "l":
        return t[1] * dur(t[2])
    ds = [dur(k) for k in t[4]]
    return max(ds, default=0) if t[1] else sum(ds)


def times(t0, t, out):
    if t[0] == "g":
        out.append((t[1], t0))
    elif t[0] == "l":
        d = dur(t[2])
        for i in range(t[1]):
            times(t0 + i * d, t[2], out)
    elif t[1]:
        for k in t[4]:
            times(t0, k, out)
    else:
        for k in t[4]:
            times(t0, k, out)
            t0 += dur(k)


def body_times(body):
    out = []
    times(0, ("b", False, False, 1, body), out)
    return Counter(out)


def body_steps(body):
    """step -> gate executions of that step in program order"""
    out = []
    times(0, ("b", False, False, 1, body), out)
    d = {}
    for g, t in out:
        d.setdefault(t, []).append(g)
    return d


def slots(t0, t, out):
    """(iters, start, duration) of the subcircuit blocks (first iteration of enclosing loops)"""
    if t[0] == "l":
        slots(t0, t[2], out)
    elif t[0] == "b":
        if t[2]:
            out.append((t[3], t0, dur(t)))
        for k in t[4]:
            slots(t0, k, out)
            if not t[1]:
                t0 += dur(k)


def body_slots(body):
    out = []
    slots(0, ("b", False, False, 1, body), out)
    return out


def frame(depth, t, out):
    if t[0] == "l":
        frame(depth, t[2], out)
    elif t[0] == "b":
        if t[2]:
            out.append((depth, t[3]))
        for k in t[4]:
            frame(depth + (1 if t[2] else 0), k, out)


def body_frame(body):
    out = []
    for k in body:
        frame(0, k, out)
    return out


def is_flat(body):
    for s in body:
        if s[0] == "g" or s[0] == "l":
            continue
        _, par, sub, it, kids = s
        if sub:
            if par or not is_flat(kids):
                return False
        elif par:
            if len(kids) < 2 or any(k[0] != "g" for k in kids):
                return False
        else:
            return False
    return True


# ---------------------------------------------------------------- main


def run_real(circuit):
    before = [from_obj(s) for s in circuit.body.statements]
    hdr_before = (dict(circuit.registers), dict(circuit.constants), dict(circuit.macros),
                  list(circuit.usepulses), dict(circuit.native_gates))
    try:
        new = normalize_blocks_with_unitary_timing(circuit)
    except JaqalError:
        res = {"err": "jaqal"}
    except AssertionError:
        res = {"err": "assert"}
    else:
        assert type(new) is Circuit and new is not circuit
        assert type(new.body) is BlockStatement and not new.body.parallel and not new.body.subcircuit
        hdr_after = (dict(new.registers), dict(new.constants), dict(new.macros),
                     list(new.usepulses), dict(new.native_gates))
        if hdr_after != hdr_before:
            raise RuntimeError("header data changed")
        res = {"ok": [from_obj(s) for s in new.body.statements]}
    after = [from_obj(s) for s in circuit.body.statements]
    if after != before:
        raise RuntimeError("input circuit mutated")
    return res


def main():
    ap = argparse.ArgumentParser()
    ap.add_argument("--driver", default="/verif/lean/.lake/build/bin/jaqal-model")
    ap.add_argument("--n", type=int, default=6000, help="cases per route")
    ap.add_argument("--seed", type=int, default=19)
    args = ap.parse_args()
    rng = random.Random(args.seed)

    fixed_text = [
        "foo_", "g0", "{g0}", "<g0|g1>", "loop 5 {g0; g1}",
        "{g0;g1;<g2|g3|g4|{g5;g6}>;g7}", "<g0|g1|{<g2|g3>;g4}>",
        "<g0|{<g1|g2>;g3}|{<g4|g5>;g6}|g7>", "<{loop 5 {}}>", "<>", "{}", "<{}>", "<{<>}>", "<{<>;g0}|g1>",
        "<{}|{}>", "<g0|{}>", "{<>;<g0>;<{g1}>}", "subcircuit {}", "subcircuit 3 {<g0|{g1;g2}>;loop 2 {<g3|{loop 1 {g4}}>}}",
        "g0;subcircuit 2 {g1};g2", "<g0|{g1;loop 2 {g2}}>", "<{g0;g1;g2}|{g3}|{<g4|{g5;g6}>;g7;g8;g9}>",
    ]
    cases = []  # (route, description, tree body, circuit or None)
    for txt in fixed_text[1:]:
        c = parse_jaqal_string(txt, autoload_pulses=False)
        cases.append(("text", txt, [from_obj(s) for s in c.body.statements], c))

    skipped = Counter()
    for route in ("text", "sexp", "obj"):
        for _ in range(args.n):
            body, _nids = gen_body(rng, route)
            if route == "text":
                hdr = rng.choice(HEADERS)
                sep = rng.choice(["\n", "; ", ";\n"])
                txt = hdr + sep.join(to_text(s, rng) for s in body)
                try:
                    c = parse_jaqal_string(txt, autoload_pulses=False)
                except Exception as e:  # generator bug: everything generated must parse
                    print("FINDING(parse)", repr(txt), repr(e))
                    skipped["parse"] += 1
                    continue
                desc = txt
            elif route == "sexp":
                sx = ["circuit"] + [to_sexp(s) for s in body]
                try:
                    c = build(sx)
                except Exception as e:
                    print("FINDING(build)", sx, repr(e))
                    skipped["build"] += 1
                    continue
                desc = json.dumps(sx)
            else:
                c = Circuit()
                c.body.statements.extend(to_obj(s) for s in body)
                desc = "obj " + json.dumps([to_json(s) for s in body])
            got = [from_obj(s) for s in c.body.statements]
            if got != body:
                print("FINDING(front end changed the tree)", desc, got, body)
                skipped["frontend"] += 1
                continue
            cases.append((route, desc, body, c))

    reqs = "".join(json.dumps({"op": "unit_timing", "body": [to_json(s) for s in body]}) + "\n"
                   for (_r, _d, body, _c) in cases)
    proc = subprocess.run([args.driver], input=reqs, capture_output=True, text=True, check=True)
    lines = proc.stdout.splitlines()
    assert len(lines) == len(cases), (len(lines), len(cases))

    stats = Counter()
    bad = 0
    for (route, desc, body, c), line in zip(cases, lines):
        ans = json.loads(line)
        if "out" not in ans:
            print("DRIVER ERROR", desc, line)
            bad += 1
            continue
        m = ans["out"]
        model = {"err": m["err"]} if "err" in m else {"ok": [from_json(s) for s in m["ok"]]}
        try:
            real = run_real(c)
        except Exception as e:
            print(f"FINDING(unexpected exception {e!r}) [{route}] {desc}")
            bad += 1
            continue
        key = "ok" if "ok" in real else real["err"]
        stats[(route, key)] += 1
        if real != model:
            print(f"MISMATCH [{route}] {desc}\n   real : {real}\n   model: {model}")
            bad += 1
            continue
        if "ok" in real:
            out = real["ok"]
            if body_times(out) != body_times(body):
                print(f"FINDING(schedule changed) [{route}] {desc}\n   out: {out}")
                bad += 1
            if body_steps(out) != body_steps(body):
                print(f"FINDING(order inside a step changed) [{route}] {desc}\n   out: {out}")
                bad += 1
            if body_slots(out) != body_slots(body):
                print(f"FINDING(subcircuit time slot changed) [{route}] {desc}\n   out: {out}")
                bad += 1
            if body_frame(out) != body_frame(body):
                print(f"FINDING(subcircuit annotations changed) [{route}] {desc}\n   out: {out}")
                bad += 1
            if not is_flat(out):
                print(f"FINDING(result not flat) [{route}] {desc}\n   out: {out}")
                bad += 1
            if body_times(out):
                stats[(route, "ok-nonempty")] += 1
            if out != body:
                stats[(route, "ok-changed")] += 1
    print("cases:", len(cases), "skipped:", dict(skipped))
    for k in sorted(stats):
        print("  ", k, stats[k])
    bad += sum(skipped.values())
    print("RESULT:", "OK" if bad == 0 else f"{bad} PROBLEMS")
    sys.exit(0 if bad == 0 else 1)


if __name__ == "__main__":
    main()
