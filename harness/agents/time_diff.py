#!/venv/bin/python
"""Differential test: real `normalize_blocks_with_unitary_timing` vs the Lean model `Jaqal.UnitTiming`.

CLI:     PYTHONPATH=/verif /venv/bin/python -m harness.agents.time_diff [--driver PATH] [--n N] [--seed S] [--thorough]
         (or: /venv/bin/python /verif/harness/agents/time_diff.py ...)
Module:  harness.agents.time_diff.run(seed, n, driver, thorough) -> dict,  replay(case, driver) -> dict
         (the "Diff-script protocol" of /verif/notes/AGENT_CONVENTIONS.md).
         corr["unit_timing"] = model vs real code on all three routes below;
         oracle[...]         = the property C19 evaluated on the real code alone, on the programs the
                               parser / circuit builder can produce (routes text and sexp).

`--driver` is a native executable speaking the line protocol of /verif/lean/Main.lean
(`{"op":"unit_timing","body":[...]}` -> `{"out":{"ok":[...]}|{"err":"jaqal"|"assert"}}`);
default `/verif/lean/.lake/build/bin/jaqal-model`.

A test program is a tree  ('g', id) | ('b', par, sub, iters, [children]) | ('l', n, child)  in which
every gate id occurs once (gate name `g<id>`), so instances are distinguishable.  It reaches the
real code along three routes:
  text : printed as Jaqal text and parsed with `parse_jaqal_string(text, autoload_pulses=False)`
         (only grammar-legal trees: <..> holds gates and {..}; {..} holds gates, <..>, loops, subcircuits);
  sexp : as S-expressions through `jaqalpaq.core.circuitbuilder.build` (same-kind nesting `{ { } }`,
         `< < > >`, loops directly inside <..>, ...);
  obj  : core objects constructed directly (everything, including what the builder refuses:
         a subcircuit block below a parallel block, parallel subcircuit blocks).
The normalised body is converted back to a tree and compared with the model's answer exactly;
JaqalError <-> "jaqal", AssertionError <-> "assert"; any other exception is a finding.

A `case` is {"route": "text"|"sexp"|"obj", "body": [stmt json…], "text": str (route text), "sexp": [...] (route sexp)};
it is enough to rebuild the circuit (`circuit_of_case`).

Independent checks (the oracles) made on the real objects:
  * the lock-step schedule (gate id, step), computed on the real objects, is the same multiset
    before and after, and the gates of each step keep their program order; every subcircuit block
    keeps its (iterations, start step, duration);  * the (depth, iterations) list of subcircuit blocks is unchanged;
  * the input circuit was not mutated;  * header data (registers, constants, macros, usepulses,
    native_gates) of the new circuit equal those of the input.
"""
import argparse
import copy
import json
import random
import subprocess
import sys
from collections import Counter

from jaqalpaq.error import JaqalError
from jaqalpaq.parser import parse_jaqal_string
from jaqalpaq.core.algorithm.unit_timing import normalize_blocks_with_unitary_timing
from jaqalpaq.core.circuitbuilder import build
from jaqalpaq.core.circuit import Circuit
from jaqalpaq.core.block import BlockStatement, LoopStatement
from jaqalpaq.core.gate import GateStatement

# ---------------------------------------------------------------- trees


class Ids:
    def __init__(self):
        self.k = 0

    def next(self):
        self.k += 1
        return self.k - 1


def gen_seq_items(rng, ids, depth, mode, in_par, in_sub):
    n = rng.choice([0, 0, 1, 1, 2, 2, 3, 4])
    return [gen_stmt(rng, ids, depth, mode, ctx="seq", in_par=in_par, in_sub=in_sub) for _ in range(n)]


def gen_stmt(rng, ids, depth, mode, ctx, in_par, in_sub):
    """mode: 'text' (grammar-legal, builder-legal), 'sexp' (builder-legal), 'obj' (anything)."""
    if depth <= 0 or rng.random() < (0.15 if ctx == "top" else 0.35):
        return ("g", ids.next())
    kinds = []
    if mode == "text":
        if ctx == "seq":
            kinds = ["par", "loop"] + ([] if (in_par or in_sub) else ["sub"])
        elif ctx == "par":
            kinds = ["seq"]
        else:  # top
            kinds = ["par", "seq", "loop", "sub"]
    elif mode == "sexp":
        kinds = ["par", "seq", "seq", "loop"] + ([] if (in_par or in_sub) else ["sub"])
    else:
        kinds = ["par", "par", "seq", "seq", "loop", "sub", "parsub"]
        if in_par and rng.random() < 0.7:
            # keep assertion / loop errors from swamping the successful cases
            kinds = ["par", "seq", "seq", "par"]
    kind = rng.choice(kinds)
    if kind == "seq":
        return ("b", False, False, 1, gen_seq_items(rng, ids, depth - 1, mode, in_par, in_sub))
    if kind == "par":
        n = rng.choice([0, 1, 2, 2, 3, 3, 4])
        return ("b", True, False, 1,
                [gen_stmt(rng, ids, depth - 1, mode, "par", True, in_sub) for _ in range(n)])
    if kind == "sub":
        it = rng.choice([1, 1, 2, 5, 100])
        return ("b", False, True, it, gen_seq_items(rng, ids, depth - 1, mode, in_par, True))
    if kind == "parsub":
        it = rng.choice([1, 3])
        n = rng.choice([0, 1, 2, 3])
        return ("b", True, True, it,
                [gen_stmt(rng, ids, depth - 1, mode, "par", True, True) for _ in range(n)])
    if kind == "loop":
        n = rng.choice([0, 1, 2, 3, 7])
        if mode == "text" or rng.random() < 0.8:
            body = ("b", False, False, 1, gen_seq_items(rng, ids, depth - 1, mode, in_par, in_sub))
        else:
            body = ("b", True, False, 1,
                    [gen_stmt(rng, ids, depth - 1, mode, "par", True, in_sub) for _ in range(rng.choice([0, 2, 3]))])
        return ("l", n, body)
    raise AssertionError(kind)


def gen_body(rng, mode):
    ids = Ids()
    depth = rng.choice([1, 2, 3, 3, 4, 4, 5, 6])
    n = rng.choice([0, 1, 1, 2, 2, 3, 4])
    return [gen_stmt(rng, ids, depth, mode, "top", False, False) for _ in range(n)], ids.k


# ---------------------------------------------------------------- the three routes


def to_text(t, sep_rng):
    if t[0] == "g":
        return f"g{t[1]}"
    if t[0] == "l":
        return f"loop {t[1]} {to_text(t[2], sep_rng)}"
    _, par, sub, it, kids = t
    if par:
        sep = sep_rng.choice([" | ", "|", "\n", " |\n "])
        return "<" + sep.join(to_text(k, sep_rng) for k in kids) + ">"
    sep = sep_rng.choice(["; ", ";", "\n", " ;\n "])
    inner = "{" + sep.join(to_text(k, sep_rng) for k in kids) + "}"
    if sub:
        return ("subcircuit " if it == 1 and sep_rng.random() < 0.5 else f"subcircuit {it} ") + inner
    return inner


def to_sexp(t):
    if t[0] == "g":
        return ["gate", f"g{t[1]}"]
    if t[0] == "l":
        return ["loop", t[1], to_sexp(t[2])]
    _, par, sub, it, kids = t
    if sub:
        assert not par
        return ["subcircuit_block", it] + [to_sexp(k) for k in kids]
    return ["parallel_block" if par else "sequential_block"] + [to_sexp(k) for k in kids]


def to_obj(t):
    if t[0] == "g":
        return build(["gate", f"g{t[1]}"])
    if t[0] == "l":
        return LoopStatement(t[1], to_obj(t[2]))
    _, par, sub, it, kids = t
    return BlockStatement(parallel=par, subcircuit=sub, iterations=it, statements=[to_obj(k) for k in kids])


def from_obj(o):
    if isinstance(o, GateStatement):
        assert o.name[0] == "g" and not o.parameters, o
        return ("g", int(o.name[1:]))
    if isinstance(o, LoopStatement):
        return ("l", int(o.iterations), from_obj(o.statements))
    if type(o) is BlockStatement:
        return ("b", bool(o.parallel), bool(o.subcircuit), int(o.iterations), [from_obj(s) for s in o.statements])
    raise TypeError(f"unexpected object in circuit body: {o!r}")


def to_json(t):
    if t[0] == "g":
        return {"g": t[1]}
    if t[0] == "l":
        return {"l": t[1], "body": to_json(t[2])}
    return {"b": [to_json(k) for k in t[4]], "par": t[1], "sub": t[2], "it": t[3]}


def from_json(j):
    if "g" in j:
        return ("g", int(j["g"]))
    if "l" in j:
        return ("l", int(j["l"]), from_json(j["body"]))
    return ("b", j["par"], j["sub"], int(j["it"]), [from_json(k) for k in j["b"]])


HEADERS = [
    "",
    "register r[3]\n",
    "let a 2\nregister r[a]\nmap q r[0:2]\n",
    "register r[2]\nlet b 1.5\nmacro m x { h x }\n",
    "from foo.bar usepulses *\nregister r[1]\n",
]

# ---------------------------------------------------------------- Python-side property checks


def dur(t):
    if t[0] == "g":
        return 1
    if t[0] == "l":
        return t[1] * dur(t[2])
    ds = [dur(k) for k in t[4]]
    return max(ds, default=0) if t[1] else sum(ds)


def times(t0, t, out):
    if t[0] == "g":
        out.append((t[1], t0))
    elif t[0] == "l":
        d = dur(t[2])
        for i in range(t[1]):
            times(t0 + i * d, t[2], out)
    elif t[1]:
        for k in t[4]:
            times(t0, k, out)
    else:
        for k in t[4]:
            times(t0, k, out)
            t0 += dur(k)


def body_times(body):
    out = []
    times(0, ("b", False, False, 1, body), out)
    return Counter(out)


def body_steps(body):
    """step -> gate executions of that step in program order"""
    out = []
    times(0, ("b", False, False, 1, body), out)
    d = {}
    for g, t in out:
        d.setdefault(t, []).append(g)
    return d


def slots(t0, t, out):
    """(iters, start, duration) of the subcircuit blocks (first iteration of enclosing loops)"""
    if t[0] == "l":
        slots(t0, t[2], out)
    elif t[0] == "b":
        if t[2]:
            out.append((t[3], t0, dur(t)))
        for k in t[4]:
            slots(t0, k, out)
            if not t[1]:
                t0 += dur(k)


def body_slots(body):
    out = []
    slots(0, ("b", False, False, 1, body), out)
    return out


def frame(depth, t, out):
    if t[0] == "l":
        frame(depth, t[2], out)
    elif t[0] == "b":
        if t[2]:
            out.append((depth, t[3]))
        for k in t[4]:
            frame(depth + (1 if t[2] else 0), k, out)


def body_frame(body):
    out = []
    for k in body:
        frame(0, k, out)
    return out


def is_flat(body):
    for s in body:
        if s[0] == "g" or s[0] == "l":
            continue
        _, par, sub, it, kids = s
        if sub:
            if par or not is_flat(kids):
                return False
        elif par:
            if len(kids) < 2 or any(k[0] != "g" for k in kids):
                return False
        else:
            return False
    return True


# ---------------------------------------------------------------- defects (computed on the tree)


def loop_in_par(p, t):
    """a loop inside a parallel block with no other loop in between (mirrors Spec `loopInPar`)"""
    if t[0] == "g":
        return False
    if t[0] == "l":
        return p
    return any(loop_in_par(p or t[1], k) for k in t[4])


def sub_in_par(p, t):
    if t[0] != "b":
        return False
    return (p and t[2]) or any(sub_in_par(p or t[1], k) for k in t[4])


def depth_of(t):
    if t[0] == "g":
        return 0
    if t[0] == "l":
        return 1 + depth_of(t[2])
    return 1 + max((depth_of(k) for k in t[4]), default=0)


def features(body):
    f = set()

    def go(t, parent):
        if t[0] == "g":
            return
        if t[0] == "l":
            f.add("has_loop")
            go(t[2], "loop")
            return
        _, par, sub, it, kids = t
        kind = "sub" if sub else ("par" if par else "seq")
        if not kids:
            f.add("has_empty_block")
        if sub:
            f.add("has_subcircuit")
            if it != 1:
                f.add("has_iterations_ne_1")
            if par:
                f.add("has_parallel_subcircuit")
        if parent == kind and kind in ("par", "seq"):
            f.add("has_same_kind_nesting")
        if par:
            lens = [len(k[4]) if (k[0] == "b" and not k[1] and not k[2]) else 1 for k in kids]
            if len(set(lens)) > 1:
                f.add("has_unequal_branches")
        for k in kids:
            go(k, kind)

    for s in body:
        go(s, "seq_top")
    return f


# ---------------------------------------------------------------- real code

DEFAULT_DRIVER = "/verif/lean/.lake/build/bin/jaqal-model"

FIXED_TEXT = [
    "g0", "{g0}", "<g0|g1>", "loop 5 {g0; g1}",
    "{g0;g1;<g2|g3|g4|{g5;g6}>;g7}", "<g0|g1|{<g2|g3>;g4}>",
    "<g0|{<g1|g2>;g3}|{<g4|g5>;g6}|g7>", "<{loop 5 {}}>", "<>", "{}", "<{}>", "<{<>}>", "<{<>;g0}|g1>",
    "<{}|{}>", "<g0|{}>", "{<>;<g0>;<{g1}>}", "subcircuit {}",
    "subcircuit 3 {<g0|{g1;g2}>;loop 2 {<g3|{loop 1 {g4}}>}}",
    "g0;subcircuit 2 {g1};g2", "<g0|{g1;loop 2 {g2}}>", "<{g0;g1;g2}|{g3}|{<g4|{g5;g6}>;g7;g8;g9}>",
]


def circuit_of_case(case):
    """Rebuild the real circuit of a case along its route."""
    route = case["route"]
    if route == "text":
        return parse_jaqal_string(case["text"], autoload_pulses=False)
    if route == "sexp":
        return build(case["sexp"])
    c = Circuit()
    c.body.statements.extend(to_obj(from_json(s)) for s in case["body"])
    return c


def header_of(c):
    return (dict(c.registers), dict(c.constants), dict(c.macros), list(c.usepulses), dict(c.native_gates))


def run_real(circuit):
    """Normalise with the real code.  Returns (impl, notes): impl = {"ok": [trees]} | {"err": "jaqal"|"assert"|"other:<repr>"};
    notes = facts observed on the real objects (mutation, header, idempotence)."""
    notes = {}
    before = [from_obj(s) for s in circuit.body.statements]
    hdr_before = header_of(circuit)
    new = None
    try:
        new = normalize_blocks_with_unitary_timing(circuit)
    except JaqalError:
        impl = {"err": "jaqal"}
    except AssertionError:
        impl = {"err": "assert"}
    except Exception as e:  # anything else is a finding
        impl = {"err": f"other:{e!r}"}
    else:
        impl = {"ok": [from_obj(s) for s in new.body.statements]}
        notes["result_is_fresh_circuit"] = (
            type(new) is Circuit and new is not circuit and type(new.body) is BlockStatement
            and not new.body.parallel and not new.body.subcircuit)
        notes["header_equal"] = header_of(new) == hdr_before
        try:
            again = normalize_blocks_with_unitary_timing(new)
            notes["idempotent"] = [from_obj(s) for s in again.body.statements] == impl["ok"] and again == new
        except Exception as e:
            notes["idempotent"] = False
            notes["idempotent_exc"] = repr(e)
    notes["input_not_mutated"] = ([from_obj(s) for s in circuit.body.statements] == before
                                  and header_of(circuit) == hdr_before)
    return impl, notes


def impl_json(impl):
    return {"ok": [to_json(s) for s in impl["ok"]]} if "ok" in impl else dict(impl)


def model_answers(bodies_json, driver):
    """One driver subprocess for the whole batch."""
    if not bodies_json:
        return []
    reqs = "".join(json.dumps({"op": "unit_timing", "body": b}) + "\n" for b in bodies_json)
    proc = subprocess.run([driver], input=reqs, capture_output=True, text=True, check=True)
    lines = proc.stdout.splitlines()
    if len(lines) != len(bodies_json):
        raise RuntimeError(f"driver answered {len(lines)} lines for {len(bodies_json)} requests")
    out = []
    for line in lines:
        ans = json.loads(line)
        if "out" not in ans:
            out.append({"driver_error": ans.get("err", line)})
        elif "err" in ans["out"]:
            out.append({"err": ans["out"]["err"]})
        else:  # canonical form: ints as ints
            out.append({"ok": [to_json(from_json(s)) for s in ans["out"]["ok"]]})
    return out


ORACLES = [
    "schedule_multiset_preserved",      # every gate instance at the same time step, none lost or duplicated
    "per_step_order_preserved",         # gates of one step keep their program order
    "duration_preserved",
    "subcircuit_frame_preserved",       # (depth, iterations) of the subcircuit blocks
    "subcircuit_slots_preserved",       # (iterations, start, duration) of the subcircuit blocks
    "result_flat",                      # gates, groups of >= 2 gates, loops, subcircuit blocks with flat bodies
    "header_data_preserved",
    "input_not_mutated",
    "idempotent",
    "loop_in_parallel_is_jaqalerror",   # loop inside a parallel block  =>  JaqalError (never mis-scheduled)
    "accepted_iff_loop_free_in_parallel",  # builder-producible programs: success <=> no such loop
    "only_jaqalerror_raised",           # no other exception type on builder-producible programs
]


def eval_oracles(body, impl, notes):
    """Property C19 on the real code alone.  Returns {oracle name: None (not applicable) | (ok, detail)}."""
    r = {k: None for k in ORACLES}
    lip = any(loop_in_par(False, s) for s in body)
    r["input_not_mutated"] = (notes.get("input_not_mutated", False), "input circuit changed by the call")
    if lip:
        r["loop_in_parallel_is_jaqalerror"] = (impl.get("err") == "jaqal", f"outcome {impl_json(impl) if 'err' in impl else 'ok'}")
    r["accepted_iff_loop_free_in_parallel"] = (("ok" in impl) == (not lip), f"loop in parallel: {lip}, outcome: {'ok' if 'ok' in impl else impl['err']}")
    r["only_jaqalerror_raised"] = ("ok" in impl or impl["err"] == "jaqal", f"raised {impl.get('err')}")
    if "ok" in impl:
        out = impl["ok"]
        r["schedule_multiset_preserved"] = (body_times(out) == body_times(body),
                                            f"in {sorted(body_times(body).items())} out {sorted(body_times(out).items())}")
        r["per_step_order_preserved"] = (body_steps(out) == body_steps(body), f"in {body_steps(body)} out {body_steps(out)}")
        din, dout = dur(("b", False, False, 1, body)), dur(("b", False, False, 1, out))
        r["duration_preserved"] = (din == dout, f"in {din} out {dout}")
        r["subcircuit_frame_preserved"] = (body_frame(out) == body_frame(body), f"in {body_frame(body)} out {body_frame(out)}")
        r["subcircuit_slots_preserved"] = (body_slots(out) == body_slots(body), f"in {body_slots(body)} out {body_slots(out)}")
        r["result_flat"] = (is_flat(out), f"out {[to_json(s) for s in out]}")
        r["header_data_preserved"] = (bool(notes.get("header_equal")) and bool(notes.get("result_is_fresh_circuit")),
                                      "header of the new circuit differs / result not a fresh Circuit")
        r["idempotent"] = (bool(notes.get("idempotent")), notes.get("idempotent_exc", "normalising the result again changed it"))
    return r


# ---------------------------------------------------------------- case generation


def gen_cases(seed, n, thorough):
    """All randomness from random.Random(seed).  About n cases (x10 when thorough), a third per route."""
    rng = random.Random(seed)
    total = n * (10 if thorough else 1)
    per_route = max(1, total // 3)
    cases, gen_problems = [], []
    for txt in FIXED_TEXT:
        c = parse_jaqal_string(txt, autoload_pulses=False)
        body = [from_obj(s) for s in c.body.statements]
        cases.append({"route": "text", "text": txt, "body": [to_json(s) for s in body]})
    for route in ("text", "sexp", "obj"):
        for _ in range(per_route):
            body, _nids = gen_body(rng, route)
            case = {"route": route, "body": [to_json(s) for s in body]}
            if route == "text":
                hdr = rng.choice(HEADERS)
                sep = rng.choice(["\n", "; ", ";\n"])
                case["text"] = hdr + sep.join(to_text(s, rng) for s in body)
            elif route == "sexp":
                case["sexp"] = ["circuit"] + [to_sexp(s) for s in body]
            cases.append(case)
    return cases, gen_problems


def _trunc(lst, k=20):
    return lst[:k]


def run(seed: int, n: int, driver: str = DEFAULT_DRIVER, thorough: bool = False) -> dict:
    cases, _ = gen_cases(seed, n, thorough)
    corr = {"unit_timing": {"cases": 0, "disagreements": []}}
    oracle = {k: {"cases": 0, "failures": []} for k in ORACLES + ["front_end_builds_the_generated_tree"]}
    dist = Counter()
    nontrivial = set()

    # real side first (per case), model side in one batch
    real = []
    for case in cases:
        body = [from_json(s) for s in case["body"]]
        fe = oracle["front_end_builds_the_generated_tree"]
        try:
            c = circuit_of_case(case)
            got = [from_obj(s) for s in c.body.statements]
        except Exception as e:
            if case["route"] != "obj":
                fe["cases"] += 1
                fe["failures"].append({"case": case, "detail": f"generated program rejected by the front end: {e!r}"})
            real.append(None)
            continue
        if case["route"] != "obj":
            fe["cases"] += 1
            if got != body:
                fe["failures"].append({"case": case, "detail": f"front end built {[to_json(s) for s in got]}"})
                real.append(None)
                continue
        real.append(run_real(c))

    live = [(case, r) for case, r in zip(cases, real) if r is not None]
    models = model_answers([case["body"] for case, _ in live], driver)

    for (case, (impl, notes)), model in zip(live, models):
        route = case["route"]
        body = [from_json(s) for s in case["body"]]
        ij = impl_json(impl)
        corr["unit_timing"]["cases"] += 1
        if model != ij:
            corr["unit_timing"]["disagreements"].append({"case": case, "model": model, "impl": ij})
        outcome = "ok" if "ok" in impl else impl["err"].split(":")[0]
        dist[f"route={route}"] += 1
        dist[f"{route}:{outcome}"] += 1
        dist[f"outcome={outcome}"] += 1
        dist[f"depth={max((depth_of(s) for s in body), default=0)}"] += 1
        ngates = json.dumps(case["body"]).count('"g"')
        dist["gates<=3" if ngates <= 3 else "gates<=10" if ngates <= 10 else "gates>10"] += 1
        for f in features(body):
            dist[f] += 1
        changed = "ok" in impl and impl["ok"] != body
        if changed:
            dist["ok_and_changed"] += 1
        if "ok" in impl and body_times(impl["ok"]):
            dist["ok_and_nonempty_schedule"] += 1
        if any(loop_in_par(False, s) for s in body):
            dist["defect_loop_in_parallel"] += 1
        if any(sub_in_par(False, s) for s in body):
            dist["defect_subcircuit_in_parallel(direct objects only)"] += 1
        if changed or "err" in impl:
            nontrivial.add(json.dumps([route, case["body"]], sort_keys=True))
        # the property on the real code alone: only programs the parser / builder can produce
        if route != "obj":
            for name, res in eval_oracles(body, impl, notes).items():
                if res is None:
                    continue
                oracle[name]["cases"] += 1
                if not res[0]:
                    oracle[name]["failures"].append({"case": case, "detail": res[1]})

    corr["unit_timing"]["disagreements"] = _trunc(corr["unit_timing"]["disagreements"])
    for k in oracle:
        oracle[k]["failures"] = _trunc(oracle[k]["failures"])
    samples = [c for c in cases if c["route"] == "text"][21:24] + [c for c in cases if c["route"] == "sexp"][:2] \
        + [c for c in cases if c["route"] == "obj"][:2]
    return {"corr": corr, "oracle": oracle, "distribution": dict(sorted(dist.items())),
            "samples": samples, "nontrivial": len(nontrivial)}


def replay(case: dict, driver: str = DEFAULT_DRIVER) -> dict:
    """Re-run ONE case (a `case` of a disagreement / failure entry)."""
    body = [from_json(s) for s in case["body"]]
    model = model_answers([case["body"]], driver)[0]
    try:
        c = circuit_of_case(case)
        got = [from_obj(s) for s in c.body.statements]
    except Exception as e:
        return {"model": model, "impl": {"err": f"front end: {e!r}"}, "oracle_ok": None,
                "detail": "the front end rejects this program"}
    if got != body:
        return {"model": model, "impl": None, "oracle_ok": False,
                "detail": f"front end built a different tree: {[to_json(s) for s in got]}"}
    impl, notes = run_real(c)
    ij = impl_json(impl)
    details = []
    if case["route"] == "obj":
        oracle_ok = None  # direct construction: outside the oracles (AssertionError path lives here)
    else:
        oracle_ok = True
        for name, res in eval_oracles(body, impl, notes).items():
            if res is not None and not res[0]:
                oracle_ok = False
                details.append(f"{name}: {res[1]}")
    if model != ij:
        details.append("model and implementation disagree")
    return {"model": model, "impl": ij, "oracle_ok": oracle_ok, "detail": "; ".join(details) or "agree"}


# ---------------------------------------------------------------- CLI


def main():
    ap = argparse.ArgumentParser()
    ap.add_argument("--driver", default=DEFAULT_DRIVER)
    ap.add_argument("--n", type=int, default=6000, help="approximate number of cases (a third per route)")
    ap.add_argument("--seed", type=int, default=19)
    ap.add_argument("--thorough", action="store_true")
    ap.add_argument("--json", action="store_true", help="print the whole result dict")
    args = ap.parse_args()
    res = run(args.seed, args.n, args.driver, args.thorough)
    if args.json:
        print(json.dumps(res, indent=1))
    bad = 0
    for op, d in res["corr"].items():
        print(f"corr   {op}: {d['cases']} cases, {len(d['disagreements'])} disagreements (shown <= 20)")
        for x in d["disagreements"]:
            print("  MISMATCH", json.dumps(x))
        bad += len(d["disagreements"])
    for name, d in res["oracle"].items():
        print(f"oracle {name}: {d['cases']} cases, {len(d['failures'])} failures")
        for x in d["failures"]:
            print("  FINDING", json.dumps(x))
        bad += len(d["failures"])
    print("distribution:")
    for k, v in res["distribution"].items():
        print("  ", k, v)
    print("nontrivial distinct cases:", res["nontrivial"])
    print("RESULT:", "OK" if bad == 0 else f"{bad} PROBLEMS")
    sys.exit(0 if bad == 0 else 1)


if __name__ == "__main__":
    main()
