#!/venv/bin/python
"""C04 against PYTHON-LEVEL TRAPS: falsy-when-empty containers, numeric FORM, exception paths / atomicity, derived and
shared objects, re-entrancy, confusable / run-time names (oracles only, no Lean driver involved).

    PYTHONPATH=/verif JAQALPAQ_RUN_EMULATOR=1 /venv/bin/python -W ignore /verif/harness/agents/c04_traps.py [--seed 0] [--n 40] [--thorough]

The earlier C04 streams (pass1_diff, c04_entry, c04_scale) generate programs in which every macro body, block, loop body
and subcircuit holds at least one statement, every number is a Python int / float, every expansion of a history succeeds,
every object sits at exactly one place of one circuit, and the gate table is the plain injected one.  This stream has one
family per dimension that was never produced; every family computes the gate-level meaning of the program with the
independent reference of c04_entry (call-by-substitution on a small AST, then evaluation of the header) - or, where the
circuit was put together / changed on the objects, with the same evaluator on the circuit LIFTED to that AST before the
library's expansion ran - and compares it with what the library yields.

families
  empty     EMPTY things everywhere (objects with __len__ are falsy when empty): macros with an empty body (0 / 1 / 2
            parameters, sequential and parallel), macros that call only such macros, literally empty subcircuits / loops /
            blocks / parallel blocks, loops with count 0, empty program bodies; called from top level, loops, nested loops,
            subcircuits (count absent / literal / let / parameter), parallel blocks, sequential blocks in parallel blocks,
            macro bodies.  All runnable: the emulator must report the reference's number of subcircuits and readouts.
  numform   the same VALUE in different FORMS (int, integral float, -0.0 / 0.0, let constant, numpy int64 / int32 /
            float64 / float32, bool) as the argument of a macro parameter used as index / index of a register parameter /
            loop count / subcircuit count / int argument / float argument / forwarded; text and s-expression front ends;
            the constants are OVERRIDDEN after / before / during expansion (a let constant must stay the constant)
  errors    HISTORIES in one process: valid program, then a program that fails INSIDE a macro body (index out of range
            after substitution at depth 1-4, number for a qubit, qubit for a number, non-integer loop count, wrong arity of
            an inner call, two defects), through any entry point (pass, parse flag, emulator, output parser), then valid
            programs with the SAME macro names (objects parsed before and after the failure); inputs must stay unchanged
  names     the random programs of c04_entry with CONFUSABLE identifiers (q / q0 / q00, a / ab, M / M1 / M10, names that
            are substrings / prefixes of natives and of each other), declared in descending order, all name strings
            created at run time (never interned)
  shared    ONE Python object at several places: s-expressions whose equal sub-tuples are the same object, the same
            GateStatement / BlockStatement object appended to another scope of the circuit, new calls made from the
            argument objects of an existing call, the macro / register / constant tables of circuit A reused for a
            circuit B (expanded A, B, A), results fed back (expand twice, expand the preserved output, statements of an
            expanded circuit placed in a circuit that still has macros)
  derived   gate tables with DERIVED definitions (copy(name=), copy(parameters=) under the same name, copy(ideal_unitary=),
            idle gate of a gate / of a copy / of an idle gate, copy of an idle gate) called from macro bodies

oracles (name@family)
  C04t_yields       the entry point returns; a JaqalError is legitimate only if the program with the calls written out
                    by hand (reference expansion) is rejected by the same front end too
  C04t_float_index  (numform; a reading of the same: counted apart so that it can be dropped) the call is rejected only
                    because an INTEGRAL FLOAT argument ends up as a qubit index (`at 2.0` with `macro at i { X q[i] }`):
                    written out literally `X q[2.0]` is no Jaqal, written out by value it is `X q[2]`; the pass documents
                    (filter_float) that it takes the second reading
  C04t_no_calls     no statement anywhere in the result's body calls a macro
  C04t_meaning      meaning of the result == reference meaning of the original (numbers by value, same-kind blocks spliced;
                    EMPTY non-subcircuit blocks are ignored on both sides - they hold no gate application - but loops
                    keep their count and subcircuits their annotation even when empty)
  C04t_header       usepulses, constants, registers and aliases, native gates equal those of the same pipeline without
                    macro expansion
  C04t_gate_def     (derived) every expanded gate still carries the definition its name has in the circuit's gate table
  C04t_results      run_jaqal_circuit(c) and run_jaqal_circuit(expand_macros(c)): number of subcircuits and of readouts
                    as counted on the reference, probabilities equal to those of the macro-free reference program
  C04t_arity        a call with the wrong number of arguments raises JaqalError (also when the program has a second defect
                    that comes later in expansion order)
  C04t_unchanged    the input circuit of a (failed or successful) call dumps to the same value afterwards
  C04t_same_again   a failed call repeated on the same object fails in the same way
"""
import argparse
import json
import os
import random
import sys
import tempfile
from collections import Counter

DEFAULT_DRIVER = "/verif/lean/.lake/build/bin/jaqal-model"


def _imports():
    global E, S, np, dump, GATES, DERIVED
    global parse_jaqal_string, expand_macros, expand_subcircuits, fill_in_let, build, run_jaqal_circuit
    global parse_jaqal_output_list, Circuit
    global GateStatement, BlockStatement, LoopStatement, Parameter, Constant, NamedQubit, Register, Macro, JaqalError
    os.environ["JAQALPAQ_RUN_EMULATOR"] = "1"
    import numpy as np
    from harness.agents import c04_entry as E
    from harness.agents import c04_scale as S
    E._imports()
    S._imports()
    from harness import dump
    from harness.gates import GATES, U_CZ
    from jaqalpaq.parser import parse_jaqal_string
    from jaqalpaq.core.algorithm import expand_macros, expand_subcircuits, fill_in_let
    from jaqalpaq.core.circuitbuilder import build
    from jaqalpaq.core.circuit import Circuit
    from jaqalpaq.run import run_jaqal_circuit
    from jaqalpaq.core.result import parse_jaqal_output_list
    from jaqalpaq.core.gate import GateStatement
    from jaqalpaq.core.gatedef import IdleGateDefinition
    from jaqalpaq.core.block import BlockStatement, LoopStatement
    from jaqalpaq.core.parameter import Parameter, ParamType
    from jaqalpaq.core.constant import Constant
    from jaqalpaq.core.register import NamedQubit, Register
    from jaqalpaq.core.macro import Macro
    from jaqalpaq.error import JaqalError
    D = dict(GATES)
    D["X2"] = GATES["X"].copy(name="X2")
    D["I_Y"] = IdleGateDefinition(GATES["Y"])
    D["I_I_Z"] = IdleGateDefinition(IdleGateDefinition(GATES["Z"]))
    D["I_X2"] = IdleGateDefinition(D["X2"])
    D["Zi"] = IdleGateDefinition(GATES["Z"]).copy(name="Zi")
    D["SXc"] = GATES["SX"].copy(name="SXc", parameters=[Parameter("t", ParamType.QUBIT)],
                                ideal_unitary=GATES["SX"].ideal_unitary)
    D["P"] = GATES["P"].copy(parameters=[Parameter("qq", ParamType.QUBIT), Parameter("kk", ParamType.INT)])
    D["CX"] = GATES["CX"].copy(ideal_unitary=U_CZ)
    DERIVED = D


DERIVED_RENAMES = {"X": ["X2", "I_X2", "X"], "Y": ["I_Y", "Y"], "Z": ["Zi", "I_I_Z"], "SX": ["SXc", "SX"]}

# ------------------------------------------------------------------------------------------------
# AST helpers (format of c04_entry; a literal may carry a third element: the FORM it takes in an s-expression)


def lit(v, form=None):
    return ["lit", v] if form is None else ["lit", v, form]


def par(n):
    return ["par", n]


def let(n):
    return ["let", n]


def rq(reg, i):
    return ["idx", ["reg", reg], i if isinstance(i, list) else ["lit", i]]


def G(name, *args):
    return ["g", name, list(args)]


def B(stmts, par=False, sub=False, it=None):
    return ["blk", bool(par), bool(sub), it, list(stmts)]


def L(count, body):
    return ["loop", count, body if body[0] == "blk" else B([body])]


def fresh(s):
    """an equal string that is a new object (never the interned one)"""
    return "".join(list(s)) if len(s) > 1 else (s + "_")[:1]


def formed(t):
    v = t[1]
    f = t[2] if len(t) > 2 else None
    if f is None:
        return v
    if f == "bool":
        return bool(v)
    return getattr(np, f)(v)


def sx_term(t):
    k = t[0]
    if k == "lit":
        return formed(t)
    if k in ("let", "par", "reg", "qa"):
        return fresh(t[1])
    if k == "idx":
        return ("array_item", sx_term(t[1]), sx_term(t[2]))
    raise ValueError(t)


def sx_stmt(s):
    if s[0] == "g":
        return ("gate", fresh(s[1])) + tuple(sx_term(a) for a in s[2])
    if s[0] == "loop":
        return ("loop", sx_term(s[1]), sx_stmt(s[2]))
    _, par_, sub, it, body = s
    inner = tuple(sx_stmt(x) for x in body)
    if sub:
        return ("subcircuit_block", None if it is None else sx_term(it)) + inner
    return ("parallel_block" if par_ else "sequential_block",) + inner


def sexpr_of(p, with_macros=True, body=None):
    out = ["circuit"]
    out += [("usepulses", fresh(u), "*") for u in p["usepulses"]]
    out += [("let", fresh(n), v) for n, v in p["lets"]]
    out.append(("register", fresh(p["reg"][0]), sx_term(p["reg"][1])))
    for n, src in p["maps"]:
        if src[0] == "slice":
            out.append(("map", fresh(n), fresh(src[1][1])) + tuple(None if x is None else sx_term(x) for x in src[2:]))
        elif src[0] == "idx":
            out.append(("map", fresh(n), fresh(src[1][1]), sx_term(src[2])))
        else:
            out.append(("map", fresh(n), fresh(src[1])))
    if with_macros:
        for name, params, _cls, blk in p["macros"]:
            out.append(("macro", fresh(name)) + tuple(fresh(q) for q, _ in params) + (sx_stmt(blk),))
    out += [sx_stmt(s) for s in (p["body"] if body is None else body)]
    return tuple(out)


def share(x, memo):
    """the same s-expression with EQUAL sub-tuples replaced by ONE object"""
    if not isinstance(x, tuple):
        return x
    y = tuple(share(e, memo) for e in x)
    try:
        key = repr(y)
    except Exception:  # noqa
        return y
    return memo.setdefault(key, y)


# ------------------------------------------------------------------------------------------------
# meaning: c04_entry's evaluator; empty plain blocks ignored; lifting tolerant of numpy numbers and bools (by value)

def prune(m):
    if "g" in m:
        return m
    if "l" in m:
        return {"l": m["l"], "body": prune(m["body"])}
    b = [prune(x) for x in m["b"]]
    b = [x for x in b if not ("b" in x and not x["sub"] and not x["b"])]
    return {"b": b, "par": m["par"], "sub": m["sub"], "it": m["it"]}


def ref_meaning(p, flat, vals):
    return prune(E.ref_meaning(p, flat, vals))


def lift_term(v):
    if isinstance(v, np.generic):
        v = v.item()
    if isinstance(v, bool):
        return ["lit", int(v)]
    if isinstance(v, (int, float)):
        return ["lit", v]
    if isinstance(v, Constant):
        x = v.value
        while isinstance(x, Constant):
            x = x.value
        if isinstance(x, np.generic):
            x = x.item()
        return ["const", v.name, x]
    if isinstance(v, Parameter):
        return ["par", v.name]
    if isinstance(v, NamedQubit):
        return ["idx", lift_term(v.alias_from), lift_term(v.alias_index)]
    if isinstance(v, Register):
        if v.fundamental:
            return ["freg", v.name, lift_term(v._size)]
        sl = v.alias_slice
        if sl is None:
            return lift_term(v.alias_from)
        return ["slice", lift_term(v.alias_from)] + [None if x is None else lift_term(x) for x in (sl.start, sl.stop, sl.step)]
    raise E.RefError(f"cannot lift {type(v).__name__}")


def lift_stmt(s):
    if isinstance(s, GateStatement):
        return ["g", s.name, [lift_term(v) for v in s.parameters.values()]]
    if isinstance(s, LoopStatement):
        return ["loop", lift_term(s.iterations), lift_stmt(s.statements)]
    if isinstance(s, BlockStatement):
        return ["blk", bool(s.parallel), bool(s.subcircuit), lift_term(s.iterations), [lift_stmt(x) for x in s.statements]]
    raise E.RefError(f"cannot lift statement {type(s).__name__}")


def lifted_reference(c, vals=None):
    macros = {n: ([q.name for q in m.parameters], lift_stmt(m.body)) for n, m in c.macros.items()}
    return prune(E.norm(E.meaning(E.expand_stmt(lift_stmt(c.body), {}, macros), vals or {})))


def result_meaning(c):
    return prune(E.norm(E.meaning(lift_stmt(c.body), {})))


def strictly_typed(stmts, lets):
    """does the macro-free program hold a Python int (or an int constant) at every loop / subcircuit count, a Python
    number at every index, and no numpy number other than float64 (a Python float) anywhere?  Only for such programs is
    a rejection by the library a matter of C04: an s-expression front end turns `loop 2.0` into `loop 2` when it is
    written out, but a macro ARGUMENT 2.0 stays a float, and a float is no loop count."""
    def count_ok(t):
        if t is None:
            return True
        if t[0] == "lit":
            return (len(t) < 3 or t[2] in (None, "bool")) and isinstance(t[1], int)
        if t[0] == "let":
            return isinstance(lets.get(t[1]), int)
        return False

    def term_ok(t):
        if t[0] == "lit":
            return len(t) < 3 or t[2] in (None, "bool", "float64")
        if t[0] == "idx":
            return term_ok(t[1]) and term_ok(t[2])
        return True

    def ok(s):
        if s[0] == "g":
            return all(term_ok(a) for a in s[2])
        if s[0] == "loop":
            return count_ok(s[1]) and ok(s[2])
        return count_ok(s[3]) and all(ok(x) for x in s[4])

    return all(ok(s) for s in stmts)


def int_indices(s):
    """the statement with integral float literals at index positions written as integers"""
    def t_(t):
        if t[0] == "idx":
            i = t[2]
            if i[0] == "lit" and isinstance(i[1], float) and (len(i) < 3 or i[2] in (None, "float64")) and i[1] == int(i[1]):
                i = ["lit", int(i[1])]
            return ["idx", t_(t[1]), i]
        return t

    if s[0] == "g":
        return ["g", s[1], [t_(a) for a in s[2]]]
    if s[0] == "loop":
        return ["loop", s[1], int_indices(s[2])]
    return ["blk", s[1], s[2], s[3], [int_indices(x) for x in s[4]]]


def count_subcircuits(m, mult=1):
    """-> (static number of subcircuit blocks, number of readouts = executions of a subcircuit, loops unrolled)"""
    if "g" in m:
        return 0, 0
    if "l" in m:
        a, b = count_subcircuits(m["body"], mult * max(0, m["l"]))
        return a, b
    st, dy = (1, mult) if m["sub"] else (0, 0)
    for x in m["b"]:
        a, b = count_subcircuits(x, mult)
        st, dy = st + a, dy + b
    return st, dy


def gate_statements(s):
    if isinstance(s, GateStatement):
        yield s
    elif isinstance(s, LoopStatement):
        yield from gate_statements(s.statements)
    else:
        for x in s.statements:
            yield from gate_statements(x)


# ------------------------------------------------------------------------------------------------
# generators

def gen_empty(rng, thorough):
    """programs full of empty containers; every gate inside a subcircuit (runnable)"""
    R = rng.randrange(2, 5)
    nm = rng.choice([["nop", "nopq", "nop2"], ["e", "e1", "e11"], ["V", "VV", "V_V"], ["skip", "ski", "sk"]])
    n0, n1, n2 = nm
    p = {"usepulses": rng.choice([[], ["qscout.v1.std"]]), "lets": [["n", rng.randrange(1, 4)], ["z", 0]],
         "reg": ["r", lit(R)], "maps": [], "macros": [], "body": []}
    if rng.random() < 0.4:
        p["maps"].append(["a", ["slice", ["reg", "r"], lit(1), None, None]])
    M = p["macros"]
    M.append([n0, [], "plain", B([])])
    M.append([n1, [["x", "q"]], "plain", B([], par=rng.random() < 0.25)])
    M.append([n2, [["x", "q"], ["y", "i"]], "plain", B(rng.sample([G(n1, par("x")), G(n0), G(n0), G(n1, par("x"))], rng.randrange(0, 4)))])
    M.append(["act", [["x", "q"]], "plain", B([G(rng.choice(["X", "Y", "SX"]), par("x"))])])
    M.append(["mix", [["x", "q"]], "plain", B(rng.sample([G(n1, par("x")), G("X", par("x")), G(n0), G(n2, par("x"), lit(1))], rng.randrange(2, 5)))])
    M.append(["lpm", [["c", "i"], ["x", "q"]], "plain", B([L(par("c"), B(rng.choice([[], [G(n0)], [G(n1, par("x"))], [G(n0), G(n0)]])))])])
    M.append(["subm", [["c", "i"]], "subby", B([B(rng.choice([[], [G(n0)], [G(n2, rq("r", 0), lit(0))]]), sub=True, it=par("c"))])])
    M.append(["subl", [["c", "i"]], "subby", B([L(par("c"), B([B(rng.choice([[], [G(n0)]]), sub=True)]))])])
    if rng.random() < 0.5:
        rng.shuffle(M)   # all of them call earlier ones only if order kept; so shuffle only those without inner calls
        order = {m[0]: i for i, m in enumerate(M)}
        M.sort(key=lambda m: (0 if m[0] in (n0, n1) else 1 if m[0] == n2 else 2, order[m[0]]))

    def q():
        return rq("r", rng.randrange(R)) if not p["maps"] or rng.random() < 0.7 else rq("a", rng.randrange(R - 1))

    def cnt(top=4, zero=True):
        c = rng.random()
        if c < 0.25:
            return let("n")
        if zero and c < 0.35:
            return rng.choice([lit(0), let("z")])
        return lit(rng.randrange(1, top))

    def empties():
        """statements that expand to nothing"""
        k = rng.randrange(0, 4)
        return [rng.choice([G(n0), G(n1, q()), G(n2, q(), lit(rng.randrange(3)))]) for _ in range(k)]

    def subit():
        c = rng.random()
        return None if c < 0.4 else let("n") if c < 0.55 else lit(rng.randrange(1, 9))

    def inner_of_sub():
        """statements of a subcircuit"""
        c = rng.random()
        if c < 0.35:
            return empties()
        if c < 0.45:
            return [B(empties(), par=True)]
        if c < 0.55:
            return [L(cnt(), B(empties()))]
        if c < 0.62:
            return [G("lpm", cnt(), q())]
        if c < 0.7:
            return [B([B(empties()), G("act", q())], par=True)]
        if c < 0.78:
            return [B([B(empties()), B(empties())], par=True)]
        out = empties() + [rng.choice([G("act", q()), G("mix", q()), G("X", q())])] + empties()
        rng.shuffle(out)
        return out

    def item():
        c = rng.random()
        if c < 0.45:
            return B(inner_of_sub(), sub=True, it=subit())
        if c < 0.6:
            body = [B(inner_of_sub(), sub=True, it=subit()) for _ in range(rng.randrange(1, 3))] + empties()
            rng.shuffle(body)
            s = L(cnt(), B(body))
            return L(cnt(3), B([s])) if rng.random() < 0.3 else s
        if c < 0.68:
            return G("subm", cnt(6, zero=False))
        if c < 0.76:
            return G("subl", cnt())
        if c < 0.82:
            return L(cnt(), B([G("subm", cnt(4, zero=False))] + empties()))
        if c < 0.88:
            return L(cnt(), B(empties()))
        if c < 0.94:
            return rng.choice([G(n0), G(n1, q())])
        return B(empties())

    k = rng.choice([0, 1, 2, 3, 4, 5, 6] if not thorough else [0, 1, 3, 5, 7, 9])
    p["body"] = [item() for _ in range(k)]
    return p


FORMS_TEXT = ["int", "float", "let"]
FORMS_SX = ["int", "float", "let", "int64", "int32", "float64", "float32", "bool"]


def gen_numform(rng, sx):
    R = 4
    k, m = rng.randrange(0, 3), rng.randrange(1, 4)
    p = {"usepulses": [], "lets": [["k", k], ["m", m], ["w", rng.choice([0.5, 1.5, -2.25])]], "reg": ["r", lit(R)],
         "maps": [["a", ["slice", ["reg", "r"], lit(1), None, None]]], "macros": [], "body": []}
    if rng.random() < 0.5:
        p["lets"].reverse()
    M = p["macros"]
    M.append(["at", [["i", "i"]], "plain", B([G("X", rq("r", par("i")))])])
    M.append(["via", [["g", "r"], ["j", "i"]], "plain", B([G("at", par("j")), G("P", ["idx", par("g"), par("j")], par("j"))])])
    M.append(["lp", [["c", "i"], ["t", "q"]], "plain", B([L(par("c"), B([G("Y", par("t"))]))])])
    M.append(["sc", [["c", "i"], ["t", "q"]], "subby", B([B([G("SX", par("t")), G("lp", par("c"), par("t"))], sub=True, it=par("c"))])])
    M.append(["ph", [["f", "f"], ["t", "q"]], "plain", B([G("PF", par("f"), par("t"))])])
    M.append(["deep", [["i", "i"], ["f", "f"]], "plain", B([G("via", ["reg", "a"], par("i")), G("ph", par("f"), rq("r", par("i"))),
                                                            L(par("i"), B([G("at", par("i"))]))])])
    M.append(["own", [], "plain", B([G("X", rq("r", let("k"))), G("at", let("k"))])])   # q[k] written in the body itself

    def val(v, role):
        forms = FORMS_SX if sx else FORMS_TEXT
        f = rng.choice(forms)
        if rng.random() < 0.85:
            # mostly the forms that are legal at that place (a float is no loop count, a numpy integer no index)
            legal = ["int", "let", "bool"] if role == "count" else ["int", "let", "bool", "float", "float64"] if role == "index" else forms
            f = rng.choice([x for x in legal if x in forms])
        if f == "let":
            name = "k" if v == k else "m" if v == m else None
            if name:
                return let(name)
            f = "int"
        if f == "int":
            return lit(v)
        if f == "float":
            if v == 0 and rng.random() < 0.5:
                return lit(-0.0)
            return lit(float(v))
        if f == "bool":
            return lit(v, "bool") if v in (0, 1) else lit(v)
        return lit(float(v) if f.startswith("float") else v, f)

    def q():
        return rq("r", rng.randrange(R))

    def num():
        c = rng.random()
        if c < 0.3:
            return let("w")
        if c < 0.8:
            return val(rng.randrange(0, 4), "float")
        return lit(rng.choice([0.25, -1.5, 2.5]), rng.choice([None, "float64"]) if sx else None)

    def call():
        c = rng.randrange(7)
        if c == 0:
            return G("at", val(rng.choice([k, m, 0, 1, 2]), "index"))
        if c == 1:
            return G("via", ["reg", rng.choice(["r", "a"])], val(rng.choice([k, 0, 1, 2]), "index"))
        if c == 2:
            return G("lp", val(rng.choice([k, m, 0, 1, 3]), "count"), q())
        if c == 3:
            return ("sub", G("sc", val(rng.choice([m, 1, 2, 5]), "count"), q()))
        if c == 4:
            return G("ph", num(), q())
        if c == 5:
            return G("deep", val(rng.choice([k, 0, 1, 2]), "count"), num())
        return G("own")

    body = []
    for _ in range(rng.randrange(1, 5)):
        s = call()
        if isinstance(s, tuple):
            body.append(s[1])
        else:
            body.append(B([s], sub=True) if rng.random() < 0.7 else L(val(rng.choice([m, 1, 2]), "count"), B([B([s], sub=True)])))
    p["body"] = body
    ov = {}
    if rng.random() < 0.8:
        ov["k"] = rng.choice([x for x in (0, 1, 2, 3) if x != k])
    if rng.random() < 0.4:
        ov["m"] = rng.choice([1, 2, 3, 4])
    if rng.random() < 0.3:
        ov["w"] = rng.choice([0.75, 3])
    return p, ov


def gen_err_template(rng):
    """-> (valid program, list of (defect name, faulty program)); every defect fires INSIDE a macro body"""
    names = rng.choice([["at", "rot", "both", "echo", "lp"], ["a", "ab", "abc", "b", "ba"], ["M", "M1", "M10", "M2", "M20"],
                        ["g", "gg", "g_", "G", "g0"]])
    at, rot, both, echo, lp = names
    R = rng.randrange(3, 6)
    p = {"usepulses": [], "lets": [["n", 2]], "reg": ["r", lit(R)], "maps": [], "macros": [], "body": []}
    M = p["macros"]
    M.append([at, [["i", "i"]], "plain", B([G("SX", rq("r", par("i")))])])
    M.append([rot, [["t", "q"], ["k", "i"]], "plain", B([G("P", par("t"), par("k"))])])
    M.append([both, [["i", "i"], ["k", "i"]], "plain", B([G(at, par("i")), B([G(rot, rq("r", par("i")), par("k")), B([G(at, lit(0))])], par=True)])])
    M.append([echo, [["t", "q"], ["k", "i"]], "plain", B([G(rot, par("t"), par("k")), L(lit(2), B([G(rot, par("t"), lit(1))]))])])
    M.append([lp, [["c", "i"], ["t", "q"]], "plain", B([L(par("c"), B([G(echo, par("t"), par("c"))]))])])
    depth = rng.randrange(0, 3)       # forwarding wrappers around `both`: the failure sits deeper
    outer = both
    for d in range(depth):
        w = f"{both}w{d}"
        M.append([w, [["u", "i"], ["v", "i"]], "plain", B([G(outer, par("u"), par("v"))] + ([G(at, lit(1))] if rng.random() < 0.5 else []))])
        outer = w

    def wrap(s):
        c = rng.random()
        if c < 0.3:
            return s
        if c < 0.55:
            return L(let("n"), B([s]))
        if c < 0.8:
            return B([s, G("X", rq("r", 0))], sub=True, it=lit(rng.randrange(1, 5)))
        return L(lit(2), B([B([s], sub=True)]))

    good = [G(outer, lit(rng.randrange(R)), lit(rng.randrange(4))), G(echo, rq("r", 1), lit(3)), G(lp, let("n"), rq("r", 0)), G(at, lit(1))]
    rng.shuffle(good)
    p["body"] = [wrap(s) for s in good[:rng.randrange(2, 5)]]
    if not any(g[1] == outer for s in p["body"] for g in E.walk_gates(s)):
        p["body"].append(wrap(G(outer, lit(0), lit(1))))
    defects = {
        "index out of range after substitution": G(outer, lit(R + rng.randrange(0, 5)), lit(1)),
        "number where the body needs a qubit": G(echo, lit(1.5), lit(1)),
        "qubit where the body needs a number": G(rot, rq("r", 0), rq("r", 1)),
        "qubit as index": G(outer, rq("r", 0), lit(1)),
        "non-integer loop count": G(lp, lit(1.5), rq("r", 0)),
        "non-integer index": G(outer, lit(0.5), lit(1)),
        "negative loop count": G(lp, lit(-1), rq("r", 0)),
    }
    bad = []
    for name, s in defects.items():
        q = json.loads(json.dumps(p))
        pos = rng.randrange(len(q["body"]) + 1)
        q["body"].insert(pos, wrap(s))
        if rng.random() < 0.3:      # two defects
            other = rng.choice(list(defects.values()))
            q["body"].insert(rng.randrange(len(q["body"]) + 1), wrap(other))
            name += " + a second defect"
        bad.append([name, q])
    rng.shuffle(bad)
    return p, bad


def break_program(rng, p):
    """replace one argument of one macro call (in the body or in a macro body) by a value of the wrong sort"""
    q = json.loads(json.dumps(p))
    kinds = {m[0]: [k for _, k in m[1]] for m in q["macros"]}
    sites = [g for s in q["body"] for g in E.walk_gates(s) if g[1] in kinds and g[2]]
    inner = [g for m in q["macros"] for g in E.walk_gates(m[3]) if g[1] in kinds and g[2]]
    pool = sites + (inner if rng.random() < 0.5 else [])
    if not pool:
        return None
    g = rng.choice(pool)
    i = rng.randrange(len(g[2]))
    kind = kinds[g[1]][i]
    reg = q["reg"][0]
    wrong = {"q": rng.choice([lit(1.5), lit(2), ["reg", reg]]), "i": rng.choice([lit(99), lit(0.5), ["idx", ["reg", reg], lit(0)], lit(-7)]),
             "f": ["idx", ["reg", reg], lit(0)], "r": rng.choice([lit(2), ["idx", ["reg", reg], lit(0)]])}[kind]
    g[2][i] = wrong
    return [f"argument of kind {kind} replaced by {wrong[0]} in a call " + ("in the body" if any(g is x for x in sites) else "inside a macro"), q]


CONFUSABLE_GLOBALS = [
    {"r": "q", "a": "qq", "b": "q0", "c": "qqq", "d": "q_", "n": "nn", "k": "n", "t": "n0", "sz": "nnn"},
    {"r": "z", "a": "y", "b": "x1", "c": "x", "d": "w", "n": "v", "k": "u", "t": "u0", "sz": "t"},
    {"r": "reg", "a": "re", "b": "r", "c": "regi", "d": "r_", "n": "le", "k": "l", "t": "let_", "sz": "lets"},
    {"r": "X_", "a": "XX", "b": "SX_", "c": "CXX", "d": "Pq", "n": "I_", "k": "I_X_", "t": "PFF", "sz": "N_"},
]
CONFUSABLE_PARAMS = ["p", "pp", "p0", "p00", "pa", "par", "p_", "P_", "i", "ii", "i0", "j", "ij", "ji", "s", "ss", "s0", "s_s"]
CONFUSABLE_MACROS = [["m", "m1", "m10", "m01", "mm", "m_", "m11"], ["Z9", "Y9", "Y8", "X9", "W", "V1", "V"],
                     ["XX", "X_X", "SXX", "CX_", "PFF", "I_X", "NN"], ["at", "a_t", "att", "ata", "t_at", "atat", "at_"]]


def rename_program(rng, p, ov):
    gm = dict(rng.choice(CONFUSABLE_GLOBALS))
    macs = list(rng.choice(CONFUSABLE_MACROS))
    if rng.random() < 0.5:
        rng.shuffle(macs)
    mm = {m[0]: macs[i] for i, m in enumerate(p["macros"])}
    params = sorted({q for m in p["macros"] for q, _ in m[1]})
    pool = [x for x in CONFUSABLE_PARAMS if x not in gm.values()]
    rng.shuffle(pool)
    pm = {}
    for q in params:
        pm[q] = gm[q] if q in gm else pool.pop()

    def t_(t):
        if t is None:
            return None
        k = t[0]
        if k == "let" or k in ("reg", "qa"):
            return [k, gm.get(t[1], t[1])]
        if k == "par":
            return ["par", pm[t[1]]]
        if k == "idx":
            return ["idx", t_(t[1]), t_(t[2])]
        if k == "slice":
            return ["slice", t_(t[1])] + [t_(x) for x in t[2:]]
        return t

    def s_(s):
        if s[0] == "g":
            return ["g", mm.get(s[1], s[1]), [t_(a) for a in s[2]]]
        if s[0] == "loop":
            return ["loop", t_(s[1]), s_(s[2])]
        return ["blk", s[1], s[2], t_(s[3]), [s_(x) for x in s[4]]]

    q = {"usepulses": p["usepulses"], "lets": sorted([[gm.get(n, n), v] for n, v in p["lets"]], reverse=rng.random() < 0.7),
         "reg": [gm.get(p["reg"][0], p["reg"][0]), t_(p["reg"][1])], "maps": [[gm.get(n, n), t_(src)] for n, src in p["maps"]],
         "macros": [[mm[m[0]], [[pm[a], k] for a, k in m[1]], m[2], s_(m[3])] for m in p["macros"]], "body": [s_(s) for s in p["body"]]}
    return q, {gm.get(n, n): v for n, v in ov.items()}


def rename_gates(rng, p):
    q = json.loads(json.dumps(p))
    used = Counter()

    def s_(s):
        if s[0] == "g":
            if s[1] in DERIVED_RENAMES:
                s[1] = rng.choice(DERIVED_RENAMES[s[1]])
            used[s[1]] += 1
        elif s[0] == "loop":
            s_(s[2])
        else:
            for x in s[4]:
                s_(x)

    for m in q["macros"]:
        s_(m[3])
    for s in q["body"]:
        s_(s)
    return q


TWEAKS = ["dup_stmt", "dup_stmt_in_loop", "share_block", "share_args", "table_reuse", "feed_back", "none"]
ENTRIES = ["pass", "pass_true", "flag", "flag_let_ov", "let_after", "let_before", "twice", "twice_plain", "subc_first"]


def gen_case(rng, idx, thorough):
    fam = ["empty", "empty", "numform", "errors", "errors", "names", "shared", "derived"][idx % 8]
    case = {"id": idx, "family": fam, "steps": []}

    def step(p, ov=None, front="text", gates="std", run=False, entries=None, **kw):
        q = json.loads(json.dumps(p))
        s = {"p": q, "ov": dict(ov or {}), "front": front, "gates": gates, "run": run,
             "entries": entries if entries is not None else ["pass"] + rng.sample(ENTRIES[1:], 3),
             "order": rng.choice(["int_first", "str_first"])}
        s.update(kw)
        return s

    def egen(runnable=None, mapsafe=False):
        place = rng.choice(E.PLACES)
        if runnable is None:
            runnable = rng.random() < 0.5
        if place in ("par", "seqinpar"):
            runnable = False
        for _ in range(8):
            g = E.Gen(rng, place, runnable, thorough, mapsafe)
            p = g.program()
            if E.expanded_size(p) <= 200:
                break
        return g, p, runnable

    if fam == "empty":
        p = gen_empty(rng, thorough)
        ov = {"n": rng.randrange(1, 4)} if rng.random() < 0.5 else {}
        case["steps"].append(step(p, ov, front=rng.choice(["text", "text", "sexpr"]), run=True))
    elif fam == "numform":
        sx = rng.random() < 0.6
        p, ov = gen_numform(rng, sx)
        case["steps"].append(step(p, ov, front="sexpr" if sx else "text", run=rng.random() < 0.5,
                                  entries=["pass", "let_after", "let_before"] + rng.sample(["flag_let_ov", "pass_true", "twice", "flag"], 2)))
    elif fam == "errors":
        if rng.random() < 0.6:
            p, bad = gen_err_template(rng)
            valid = lambda: p   # noqa
            runnable = False
        else:
            g, p, runnable = egen()
            bad = []
            for _ in range(3):
                b = break_program(rng, p)
                if b:
                    bad.append(b)
            arity = E.make_bad(rng, p)
            if arity:
                bad.append(["wrong arity", None, arity])
                b2 = break_program(rng, p)
                if b2 and rng.random() < 0.7:
                    # two defects: the arity defect of `arity` on top of a program with another defect
                    ar2 = E.make_bad(rng, b2[1])
                    if ar2:
                        bad.append(["wrong arity + " + b2[0], None, ar2])
            rng.shuffle(bad)

            def valid():
                if rng.random() < 0.5:
                    g.fill_macros(p)
                return p
        case["steps"].append(step(p, run=runnable, entries=["pass"] + rng.sample(ENTRIES[1:4], 1), keep="before"))
        for b in bad[: rng.randrange(1, 4 if not thorough else 6)]:
            s = step(b[1] if b[1] is not None else p, expect="defect", defect=b[0],
                     entries=[rng.choice(["pass", "pass_true", "flag", "run", "output_list", "flag_let"])])
            if len(b) > 2:
                s["bad"] = b[2]
            case["steps"].append(s)
            case["steps"].append(step(valid(), run=runnable and rng.random() < 0.3,
                                      entries=rng.sample(["pass", "pass_true", "flag", "twice"], 2), reuse="before" if rng.random() < 0.5 else None))
    elif fam == "names":
        g, p, runnable = egen()
        q, ov = rename_program(rng, p, g.ov)
        case["steps"].append(step(q, ov, front=rng.choice(["text", "sexpr"]), run=runnable))
    elif fam == "shared":
        g, p, runnable = egen()
        tw = rng.choice(TWEAKS)
        front = "sexpr_shared" if rng.random() < 0.5 or tw == "none" else "text"
        case["steps"].append(step(p, g.ov, front=front, run=runnable, tweak=tw, tweak_seed=rng.randrange(1 << 30),
                                  entries=["pass"] + rng.sample(["pass_true", "twice", "twice_plain", "let_after", "let_before"], 2)))
    else:
        g, p, runnable = egen(mapsafe=False)
        q = rename_gates(rng, p)
        case["steps"].append(step(q, g.ov, front=rng.choice(["text", "sexpr"]), gates="derived", run=runnable))
    return case


def gen_cases(seed, n, thorough):
    rng = random.Random(seed * 1000003 + 4006)
    return [gen_case(rng, i, thorough) for i in range(n)]


# ------------------------------------------------------------------------------------------------
# checking

class Checker:
    def __init__(self):
        self.oracle = {}
        self.dist = Counter()

    def rec(self, name, ok, case, detail=""):
        o = self.oracle.setdefault(name, {"cases": 0, "failures": []})
        o["cases"] += 1
        if not ok:
            o["failures"].append({"case": case, "detail": detail})


def table(step):
    return DERIVED if step["gates"] == "derived" else GATES


def front_end(step, p, with_macros=True, body=None, **kw):
    """-> thunk building the circuit of `p` through the step's front end"""
    g = table(step)
    if step["front"] == "text" or kw:
        text = E.program_text(p, with_macros=with_macros, body=body)
        return lambda: parse_jaqal_string(text, inject_pulses=g, autoload_pulses=False, **kw)
    sx = sexpr_of(p, with_macros=with_macros, body=body)
    if step["front"] == "sexpr_shared":
        sx = share(sx, {})
    return lambda: build(sx, inject_pulses=g)


def text_ok(p):
    """can the program be written as text (no numpy / bool forms)?"""
    return "\"int64\"" not in (s := json.dumps(p)) and "\"int32\"" not in s and "\"float64\"" not in s and "\"float32\"" not in s and "\"bool\"" not in s


def apply_tweak(c, name, seed, ck):
    """change / rebuild the circuit on the objects; -> list of circuits to expand in this order (the last is the main)"""
    r = random.Random(seed)
    body = c.body.statements
    if name == "dup_stmt" and body:
        s = r.choice(body)
        body.insert(r.randrange(len(body) + 1), s)
    elif name == "dup_stmt_in_loop" and body:
        cands = [s for s in body if not isinstance(s, GateStatement) or True]
        s = r.choice(cands)
        has_sub = any(isinstance(x, BlockStatement) and x.subcircuit for x in _walk_blocks(s, c))
        blk = BlockStatement(statements=[s])
        body.append(LoopStatement(r.randrange(0, 3), blk))
        if not has_sub:
            body.append(BlockStatement(subcircuit=True, iterations=2, statements=[s, s]))
    elif name == "share_block":
        blocks = [s for s in body if isinstance(s, BlockStatement) and not s.subcircuit and not s.parallel] or \
                 [s.statements for s in body if isinstance(s, LoopStatement)]
        if blocks:
            b = r.choice(blocks)
            body.append(LoopStatement(2, b))
            body.append(LoopStatement(3, b))
    elif name == "share_args":
        calls = [g for g in gate_statements(c.body) if g.name in c.macros]
        if calls:
            g = r.choice(calls)
            args = list(g.parameters.values())
            new = c.macros[g.name](*args)
            has_sub = any(isinstance(x, BlockStatement) and x.subcircuit for x in _walk_blocks(g, c))
            body.append(new)
            if not has_sub:
                body.append(BlockStatement(subcircuit=True, statements=[new, g]))
    elif name == "table_reuse":
        b = Circuit(native_gates=c.native_gates)
        b.macros.update(c.macros)
        b.constants.update(c.constants)
        b.registers.update(c.registers)
        b.usepulses.extend(c.usepulses)
        picked = [r.choice(body) for _ in range(r.randrange(1, 4))] if body else []
        b.body.statements.extend(picked)
        ck.dist["shared: tables of A reused for B, expanded A, B, A"] += 1
        return [c, b, c, b]
    elif name == "feed_back":
        # statements of the expanded circuit placed (as objects) into the circuit that still has the macros
        out = E.guarded(lambda: expand_macros(c))
        if out[0] == "ok" and out[1].body.statements:
            st = out[1].body.statements
            for s in r.sample(list(st), min(len(st), 2)):
                body.insert(r.randrange(len(body) + 1), s)
    ck.dist[f"shared: tweak {name}"] += 1
    return [c]


def _walk_blocks(s, c, seen=None):
    """all block statements below s, through macro calls"""
    seen = set() if seen is None else seen
    if isinstance(s, GateStatement):
        if s.name in c.macros and s.name not in seen:
            seen.add(s.name)
            yield from _walk_blocks(c.macros[s.name].body, c, seen)
    elif isinstance(s, LoopStatement):
        yield from _walk_blocks(s.statements, c, seen)
    else:
        yield s
        for x in s.statements:
            yield from _walk_blocks(x, c, seen)


def safe_dump(c):
    try:
        return json.dumps(dump.circuit(c), sort_keys=True, default=str)
    except Exception as e:  # noqa
        return f"undumpable: {type(e).__name__}"


def results_of(res, order):
    probs = []
    for sc in res.subcircuits:
        if order == "str_first":
            by_str = dict(sc.simulated_probability_by_str)
            by_int = [float(x) for x in sc.simulated_probability_by_int]
            n = max(1, len(by_int)).bit_length() - 1
            # (the two views describe one distribution; by_str keys are qubit 0 first)
            probs.append(by_int)
            if abs(sum(by_str.values()) - sum(by_int)) > 1e-9:
                probs[-1] = ["views disagree"]
        else:
            probs.append([float(x) for x in sc.simulated_probability_by_int])
    return probs, len(res.readouts)


def check_result(ck, fam, label, out, expect, base, case, step_no, names, hand_rejected, gate_table_of=None):
    where = f"step {step_no}, {label}: "
    ck.dist[f"{fam} entry: {label}"] += 1
    if out[0] == "err":
        legit = hand_rejected() if out[1] == "JaqalError" else False
        if legit is True:
            ck.dist[f"{fam}: rejected like the hand-substituted program"] += 1
            return None
        if legit == "float index":
            ck.rec(f"C04t_float_index@{fam}", False, case, where + f"an integral float that ends up as a qubit index is refused: {out[2]}")
            return None
        ck.rec(f"C04t_yields@{fam}", False, case, where + f"{out[1]}: {out[2]}")
        return None
    ck.rec(f"C04t_yields@{fam}", True, case)
    if fam == "numform":
        ck.rec(f"C04t_float_index@{fam}", True, case)
    c = out[1]
    left = E.calls_left(c, names)
    ck.rec(f"C04t_no_calls@{fam}", not left, case, where + f"macro calls left in the body: {left[:4]}")
    if not left and expect is not None:
        try:
            got = result_meaning(c)
        except E.RefError as e:
            got = f"unreadable result: {e}"
        ck.rec(f"C04t_meaning@{fam}", got == expect, case,
               where + f"reference {json.dumps(expect)[:500]} / result {json.dumps(got)[:500]}")
    if base is not None:
        try:
            ok = E.header_of(c) == E.header_of(base)
            det = "header differs from the same pipeline without macro expansion"
        except Exception as e:  # noqa
            ok, det = False, f"header not dumpable: {type(e).__name__} {e}"
        ck.rec(f"C04t_header@{fam}", ok, case, where + det)
    if gate_table_of is not None and not left:
        badg = []
        for g in gate_statements(c.body):
            d = gate_table_of.native_gates.get(g.name)
            if d is None or type(d) is not type(g.gate_def) or dump.gatedef(d) != dump.gatedef(g.gate_def) \
                    or getattr(d, "ideal_unitary", None) is not getattr(g.gate_def, "ideal_unitary", None):
                badg.append(g.name)
        ck.rec(f"C04t_gate_def@{fam}", not badg, case, where + f"gates whose definition is not the table's: {badg[:5]}")
    return c


def check_step(ck, case, i, state):
    step = case["steps"][i]
    fam = case["family"]
    p, ov = step["p"], step.get("ov") or {}
    G_ = E.guarded
    if step.get("expect") == "defect":
        return check_defect(ck, case, i, state)
    # --- reference from the AST
    try:
        flat = E.reference(p)
        M = ref_meaning(p, flat, {})
        Mov = ref_meaning(p, flat, ov) if ov else M
    except E.RefError as e:
        ck.dist[f"generator: reference undefined ({str(e)[:40]})"] += 1
        flat = M = Mov = None
    made = G_(front_end(step, p))
    hand_memo = {}

    def hand_rejected():
        """is the program with the calls written out by hand rejected by the same front end?  -> True (legitimate
        rejection) | False | "float index" (rejected as written, accepted once every INTEGRAL FLOAT that stands at an
        index position after substitution is written as the integer it represents - what the pass's filter_float does)"""
        if "v" not in hand_memo:
            try:
                fl = E.splice(E.reference(p), False)
            except E.RefError:
                hand_memo["v"] = True      # the reference itself calls the program meaningless
                return True
            if not strictly_typed(fl, dict((n, v) for n, v in p["lets"])):
                hand_memo["v"] = True      # a float / numpy number where only an integer may stand
                ck.dist[f"{fam}: substituted program has a non-integer count / numpy number"] += 1
                return True
            o = G_(front_end(step, p, with_macros=False, body=fl))
            hand_memo["v"] = o[0] == "err" and o[1] == "JaqalError"
            if hand_memo["v"]:
                fl2 = [int_indices(x) for x in fl]
                if fl2 != fl:
                    o = G_(front_end(step, p, with_macros=False, body=fl2))
                    if o[0] == "ok":
                        hand_memo["v"] = "float index"
        return hand_memo["v"]

    if made[0] == "err":
        # the front end itself (no expansion involved) rejects: nothing to say about C04
        ck.dist[f"{fam}: front end rejects ({made[1]}: {made[2][:50]})"] += 1
        return
    c0 = made[1]
    if step.get("reuse") and state.get(step["reuse"]) is not None and state.get(step["reuse"] + "_text") == json.dumps(p):
        c0 = state[step["reuse"]]        # the object made BEFORE the failed calls
        ck.dist["errors: valid step on a circuit object made before the failure"] += 1
    if step.get("keep"):
        state[step["keep"]] = c0
        state[step["keep"] + "_text"] = json.dumps(p)
    names = set(c0.macros)
    circuits = [c0]
    tweak = step.get("tweak")
    if tweak and tweak != "none":
        circuits = apply_tweak(c0, tweak, step["tweak_seed"], ck)
        M = Mov = flat = None      # the AST no longer describes the circuit(s)
    elif M is not None:
        # the AST reference is used only when the plain front end, lifted, agrees with it
        try:
            if lifted_reference(c0) != M:
                ck.dist["SELFCHECK (step skipped): AST reference != reference on the lifted circuit"] += 1
                return
        except E.RefError as e:
            ck.dist[f"SELFCHECK (step skipped): lifted reference undefined ({str(e)[:40]})"] += 1
            return
    ck.dist[f"{fam}: steps checked"] += 1
    for c in circuits:
        before = safe_dump(c)
        try:
            L0 = lifted_reference(c)
            L0ov = lifted_reference(c, ov) if ov else L0
        except E.RefError as e:
            if M is None:
                ck.dist[f"{fam}: reference of the circuit undefined ({str(e)[:40]})"] += 1
                # a program without meaning: expansion may reject it, nothing else is claimed
                continue
            L0, L0ov = M, Mov
        ref, refov = (M, Mov) if M is not None else (L0, L0ov)
        gt = c if step["gates"] == "derived" else None

        def res(label, out, expect, base):
            return check_result(ck, fam, label, out, expect, base, case, i, names, hand_rejected if M is not None else (lambda: False), gt)

        for entry in step["entries"]:
            if entry == "pass":
                res("expand_macros(c)", G_(lambda: expand_macros(c)), ref, c)
            elif entry == "pass_true":
                res("expand_macros(c, preserve_definitions=True)", G_(lambda: expand_macros(c, preserve_definitions=True)), ref, c)
            elif entry == "twice":
                res("expand_macros(expand_macros(c, True))", G_(lambda: expand_macros(expand_macros(c, preserve_definitions=True))), ref, c)
            elif entry == "twice_plain":
                res("expand_macros(expand_macros(c))", G_(lambda: expand_macros(expand_macros(c))), ref, c)
            elif entry == "flag" and M is not None and text_ok(p) and c is c0:
                res("parse_jaqal_string(expand_macro=True)", G_(front_end(step, p, expand_macro=True)), ref, c)
            elif entry in ("let_after", "let_before", "flag_let_ov"):
                base = G_(lambda: fill_in_let(c, dict(ov)))
                if base[0] == "err":
                    ck.dist[f"{fam}: fill_in_let itself rejects ({base[1]})"] += 1
                    continue
                if entry == "let_after":
                    res("fill_in_let(expand_macros(c), ov)", G_(lambda: fill_in_let(expand_macros(c), dict(ov))), refov, base[1])
                elif entry == "let_before":
                    res("expand_macros(fill_in_let(c, ov))", G_(lambda: expand_macros(fill_in_let(c, dict(ov)))), refov, base[1])
                elif M is not None and text_ok(p) and c is c0:
                    b2 = G_(front_end(step, p, expand_let=True, override_dict=dict(ov)))
                    if b2[0] == "ok":
                        res("parse_jaqal_string(expand_macro=True, expand_let=True, override_dict)",
                            G_(front_end(step, p, expand_macro=True, expand_let=True, override_dict=dict(ov))), refov, b2[1])
            elif entry == "subc_first":
                x = G_(lambda: expand_subcircuits(c))
                if x[0] == "ok":
                    try:
                        ex = lifted_reference(x[1])
                    except E.RefError:
                        continue
                    X = x[1]
                    check_result(ck, fam, "expand_macros(expand_subcircuits(c))", G_(lambda: expand_macros(X)), ex, X, case, i,
                                 names, lambda: False, None)
        after = safe_dump(c)
        ck.rec(f"C04t_unchanged@{fam}", before == after, case, f"step {i}: the input circuit changed while it was expanded")
        if step.get("run") and c is circuits[-1]:
            check_run(ck, case, i, c, ref, step, p if M is not None else None, flat)


def check_run(ck, case, i, c, ref, step, p, flat):
    fam = case["family"]
    G_ = E.guarded
    order = step.get("order", "int_first")
    try:
        want = count_subcircuits(ref)
    except Exception:  # noqa
        return

    def run(x):
        np.random.seed(12345)
        return results_of(run_jaqal_circuit(x), order)

    a = G_(lambda: run(c))
    e = G_(lambda: expand_macros(c))
    b = G_(lambda: run(e[1])) if e[0] == "ok" else e
    cref = None
    if p is not None:
        cr = G_(front_end(step, p, with_macros=False, body=E.splice(flat, False)))
        if cr[0] == "ok":
            cref = G_(lambda: run(cr[1]))
    ck.dist[f"{fam} entry: run_jaqal_circuit(c) and run_jaqal_circuit(expand_macros(c))"] += 1
    for label, o in (("run_jaqal_circuit(c)", a), ("run_jaqal_circuit(expand_macros(c))", b)):
        if o[0] == "err":
            if o[1] == "JaqalError" and p is not None and not strictly_typed(flat, dict((n, v) for n, v in p["lets"])):
                ck.dist[f"{fam}: emulator rejects a non-integer count / numpy number"] += 1
                continue
            if cref is not None and cref[0] == "err" and cref[1] == o[1]:
                ck.dist[f"{fam}: emulator rejects the reference program too ({o[1]}: {o[2][:40]})"] += 1
                continue
            if cref is None and a[0] == b[0] == "err" and a[1] == b[1]:
                ck.dist[f"{fam}: emulator rejects original and expansion alike ({o[2][:40]})"] += 1
                continue
            ck.rec(f"C04t_results@{fam}", False, case, f"step {i}: {label} -> {o[1]}: {o[2][:200]}, reference program -> {str(cref)[:120]}")
            continue
        probs, nread = o[1]
        ok = (len(probs), nread) == want
        det = f"step {i}: {label} reports {len(probs)} subcircuits / {nread} readouts, the reference has {want[0]} / {want[1]}"
        if ok and cref is not None and cref[0] == "ok":
            ok = E.close_enough(probs, cref[1][0]) if all(isinstance(x, list) and x and not isinstance(x[0], str) for x in probs) else False
            det = f"step {i}: {label} probabilities {json.dumps(probs)[:200]} vs macro-free reference program {json.dumps(cref[1][0])[:200]}"
        elif ok and cref is None and a[0] == "ok" and b[0] == "ok":
            ok = E.close_enough(a[1][0], b[1][0])
            det = f"step {i}: original and expansion give other probabilities: {json.dumps(a[1][0])[:200]} vs {json.dumps(b[1][0])[:200]}"
        ck.rec(f"C04t_results@{fam}", ok, case, det)
        ck.dist[f"{fam}: emulator results compared, subcircuits=" + str(min(want[0], 5)) + ("+" if want[0] > 5 else "")] += 1


def check_defect(ck, case, i, state):
    """a program that cannot be expanded; what C04 says: wrong arity -> JaqalError.  Everything else is only recorded;
    the call must leave its input alone and fail the same way when repeated"""
    step = case["steps"][i]
    fam = case["family"]
    G_ = E.guarded
    entry = step["entries"][0]
    bad = step.get("bad")
    p = step["p"]
    ck.dist[f"errors: defect = {step['defect'].split(' replaced')[0][:60]}"] += 1
    ck.dist[f"errors: failing call through {entry}"] += 1
    g = table(step)
    if bad is not None:
        # wrong arity: in the text, and made on the objects of the valid program
        if entry in ("flag", "flag_let"):
            kw = {"expand_let": True} if entry == "flag_let" else {}
            o = G_(lambda: parse_jaqal_string(bad["text"], inject_pulses=g, autoload_pulses=False, expand_macro=True, **kw))
            ck.rec(f"C04t_arity@{fam}", o[0] == "err" and o[1] == "JaqalError", case,
                   f"step {i}: wrong arity in the text, parse flag -> " + ("a circuit" if o[0] == "ok" else f"{o[1]}: {o[2][:200]}"))
            return
        made = G_(lambda: parse_jaqal_string(E.program_text(p), inject_pulses=g, autoload_pulses=False))
        if made[0] == "err":
            return
        c = made[1]
        if E.mutate(c, bad["which"], bad["how"]) is None:
            return
        must = "JaqalError"
    else:
        if entry in ("flag", "flag_let"):
            kw = {"expand_let": True} if entry == "flag_let" else {}
            o = G_(front_end(step, p, expand_macro=True, **kw))
            ck.dist[f"errors: faulty program through the parse flag -> {o[1] if o[0] == 'err' else 'accepted'}"] += 1
            if o[0] == "ok":
                accepted(ck, case, i, p, o[1], "parse_jaqal_string(expand_macro=True)")
            return
        made = G_(front_end(step, p))
        if made[0] == "err":
            ck.dist[f"errors: faulty program rejected by the plain front end ({made[1]})"] += 1
            return
        c = made[1]
        must = None
    f = {"pass": lambda: expand_macros(c), "pass_true": lambda: expand_macros(c, preserve_definitions=True),
         "run": lambda: run_jaqal_circuit(c), "output_list": lambda: parse_jaqal_output_list(c, [])}[entry]
    before = safe_dump(c)
    o1 = G_(f)
    mid = safe_dump(c)
    o2 = G_(f)
    ck.dist[f"errors: faulty program -> {o1[1] if o1[0] == 'err' else 'accepted'}"] += 1
    if must:
        ck.rec(f"C04t_arity@{fam}", o1[0] == "err" and o1[1] == must, case,
               f"step {i}: wrong arity made on the objects, {entry} -> " + ("returned" if o1[0] == "ok" else f"{o1[1]}: {o1[2][:200]}"))
    ck.rec(f"C04t_unchanged@{fam}", before == mid, case, f"step {i}: the input of the failed call ({entry}) changed")
    same = (o1[0] == o2[0]) and (o1[0] == "ok" or o1[1:] == o2[1:])
    ck.rec(f"C04t_same_again@{fam}", same, case, f"step {i}: the same call on the same object: first {str(o1)[:150]}, then {str(o2)[:150]}")
    if o1[0] == "ok" and must is None and entry in ("pass", "pass_true"):
        accepted(ck, case, i, p, o1[1], entry)


def accepted(ck, case, i, p, c, label):
    """a 'faulty' program the library expands (e.g. the wrong argument is never used): if the reference gives it a
    meaning, the result must have that meaning"""
    try:
        M = ref_meaning(p, E.reference(p), {})
    except E.RefError:
        ck.dist["errors: faulty program accepted, reference undefined (outside C04)"] += 1
        return
    try:
        got = result_meaning(c)
    except E.RefError as e:
        got = f"unreadable result: {e}"
    ck.rec(f"C04t_meaning@{case['family']}", got == M, case,
           f"step {i}, {label}: reference {json.dumps(M)[:400]} / result {json.dumps(got)[:400]}")


# ------------------------------------------------------------------------------------------------

def describe(case, dist):
    dist[f"case family={case['family']}"] += 1
    dist[f"history length {len(case['steps'])}"] += 1
    for s in case["steps"]:
        dist[f"front end {s['front']}"] += 1
        if s.get("ov"):
            dist["steps with let overrides"] += 1
        txt = json.dumps(s["p"])
        if '["blk", false, true, ' in txt and ', []]' in txt:
            dist["programs with an empty block / subcircuit / macro body"] += 1
        for f in ("int64", "int32", "float64", "float32", "bool"):
            if f'"{f}"' in txt:
                dist[f"programs with a {f} argument"] += 1
        if "-0.0" in txt:
            dist["programs with negative zero"] += 1


def run_cases(cases, ck):
    for case in cases:
        describe(case, ck.dist)
        state = {}
        for i in range(len(case["steps"])):
            check_step(ck, case, i, state)


def run(seed: int, n: int, driver: str = DEFAULT_DRIVER, thorough: bool = False) -> dict:
    _imports()
    if thorough:
        n = n * 8
    old = sys.getrecursionlimit()
    sys.setrecursionlimit(max(old, 3000))
    cases = gen_cases(seed, n, thorough)
    ck = Checker()
    run_cases(cases, ck)
    for v in ck.oracle.values():
        # self-contained histories first (a failure at a later step of a history shows in a fresh process too)
        v["failures"] = sorted(v["failures"], key=lambda f: not (len(f["case"]["steps"]) > 1 and "step 0" not in f["detail"][:12]))[:20]
    distinct = {json.dumps(s["p"], sort_keys=True) for c in cases for s in c["steps"]}
    return {"corr": {}, "oracle": dict(sorted(ck.oracle.items())), "distribution": dict(sorted(ck.dist.items())),
            "samples": [{"family": c["family"], "texts": [E.program_text(s["p"]) if text_ok(s["p"]) else json.dumps(s["p"])[:600]
                                                            for s in c["steps"]]} for c in cases[:8]],
            "nontrivial": len(distinct)}


def replay(case: dict, driver: str = DEFAULT_DRIVER) -> dict:
    _imports()
    sys.setrecursionlimit(max(sys.getrecursionlimit(), 3000))
    ck = Checker()
    run_cases([case], ck)
    fails = {k: v["failures"][0]["detail"] for k, v in ck.oracle.items() if v["failures"]}
    return {"model": None, "impl": None, "oracle_ok": not fails,
            "detail": "all oracles hold" if not fails else json.dumps(fails)[:3000]}


def main():
    ap = argparse.ArgumentParser()
    ap.add_argument("--driver", default=DEFAULT_DRIVER)
    ap.add_argument("--seed", type=int, default=0)
    ap.add_argument("--n", type=int, default=40)
    ap.add_argument("--thorough", action="store_true")
    ap.add_argument("--quiet", action="store_true")
    a = ap.parse_args()
    r = run(a.seed, a.n, a.driver, a.thorough)
    bad = 0
    for k, v in r["oracle"].items():
        print(f"oracle {k}: {v['cases']} cases, {len(v['failures'])} failures")
        bad += len(v["failures"])
        for d in v["failures"][:2]:
            print("  FAIL", d["detail"][:700])
            for s in d["case"]["steps"]:
                print("      |", (E.program_text(s["p"]) if text_ok(s["p"]) else json.dumps(s["p"])).replace("\n", " ; ")[:900])
    if not a.quiet:
        for k, v in r["distribution"].items():
            print(f"  {k}: {v}")
    print("nontrivial:", r["nontrivial"])
    sys.exit(1 if bad else 0)


if __name__ == "__main__":
    main()
