#!/venv/bin/python
"""C15 at SCALE, under unusual IDENTIFIERS, and through every DEFAULT / VALUE KIND (fourth round of seeded regressions).

The other C15 streams (`res_diff.py`, `props/c15.py`, `c15_history.py`, `c15_edge.py`) run the EMULATOR on registers of at most
5 (a few 12) qubits with one-qubit gates, programs of a handful of statements whose subcircuits all differ, plain names (`q`, `r`,
`c0`, `blk0`), `run_jaqal_circuit(circuit)` / `backend(circuit)` with no optional argument, and output lists of Python ints and
strs.  A regression that appears only beyond a SIZE (a fast path for >= 10 qubits, a table that is reused from the 129th
subcircuit on, a memo keyed by the gate sequence that hands ONE result object to two subcircuits), only for a SPELLING (a dotted
or dunder name, a name that starts like `prepare_all`), or only under an OPTION (`backend=`, `emulator_backend=`, `force_sim=`,
`expand_let_map=`, an autoloaded gate set, numpy integers in the output list) is invisible there.  This script states the same
property on such inputs, through the public entry points only.

Every case is ONE program (text) together with what an independent reference -- a classical bit-level evaluation of the program
written in this file: it never calls the library -- says about it:
    expect.subs[j]  = [base, umask]   the distribution of subcircuit j (flat order): outcome k has probability 2^-popcount(umask)
                                      when k and base agree outside umask, else 0 (umask = qubits left in an equal superposition)
    expect.order    = the flat index of the subcircuit of every readout, in execution order
and a list of calls made on it:
    emu    run_jaqal_circuit(circuit) with backend / emulator_backend / force_sim spelled or defaulted, run_jaqal_string /
           run_jaqal_file on the same text with an AUTOLOADED gate set (`from .c15s_pulses usepulses *`, possibly repeated),
           backend(expanded circuit).execute() once or twice (the job's subcircuit objects accumulate)
    parse  parse_jaqal_output_list(circuit, outputs): outputs chosen by the generator, given as int, str, numpy integer kinds
           (int8 .. uint64, intp), numpy.str_, mixtures, alternations; in a list, a tuple or an ndarray
both on circuits parsed with every combination of expand_macro / expand_let / expand_let_map / return_usepulses / override_dict
None vs {} / injected vs autoloaded gates.

streams (`stream` of a case; every stream is present for every seed)
    regsize   the emulator on registers of 8..14 qubits (one case at least for each of 9..14 in both tiers): X / Y flips on a
              NON-PALINDROMIC set of qubits, diagonal gates, the argument-symmetric two-qubit gates SWAP / ISWAP / CZ, `SX SX`
              and `HH HH` pairs (= X, = identity) and up to three qubits left in an equal superposition by a final SX
    scale     registers of 1..4 qubits; ONE dimension crosses 8, 16, 32, 64, 128, 256 (1000 where cheap; also 9..12, 20, 33, 34, 40,
              49, 65, 100, 130, 200) while the rest stays small: loop nesting depth, block nesting depth ({ < { < ...), gate-loop
              nesting depth, macro chain length (parameters swapped at random levels), alias chain length (with slices), number of
              lets / map aliases / macros in the header, statements in one subcircuit, subcircuits in one program (drawn from a
              pool of 2-4, 9, 17 or size/3 gate sequences, so many are IDENTICAL), iterations of a loop around subcircuits, iterations of a gate
              loop, length of every name (8..1000 characters)
    dup       3..9 subcircuits (a quarter: 14..24 drawn from 9..12 distinct gate sequences) of which several consist of the SAME gates: textually identical, identical only after expansion
              (one through a macro, one through an alias, one through a let), before / inside / after loops (counts 0..3), one
              block macro `prepare_all ... measure_all` called at two places, `subcircuit` blocks
    ident     small programs whose register, lets, aliases, macros, macro parameters and GATES have unusual legal spellings:
              dotted (`cal.q`, `q.x`, `a.b.c`, `q.0`), pairs differing by a dotted prefix / suffix (`q` and `q.q`, `m` and `m.m`),
              dunder (`__r0`, `__macro__`, `__in_context__`), beginnings / extensions of keywords and of prepare_all / measure_all
              (`prepare`, `prepare_all_`, `measure_all2`, `loops`, `let_`, `registers`, `subcircuits`), `_`, `__`
    defaults  small programs; the calls cycle through every entry point / option combination / value kind listed above

oracles (real code alone; "corr" is empty).  key(k, n) = the n characters "01"[(k >> i) & 1], i = 0..n-1 (qubit 0 leftmost).
    scale_readout_str_int       every readout r: r.as_int is an integer in 0..2^n-1, r.as_str == key(r.as_int, n)
    scale_views_integer_order   every *_by_int view has 2^n entries; every *_by_str view has the keys [key(k, n) for k in range(2^n)]
                                in that order with the entries of the *_by_int view as values; probability_by_* are the simulated_*
                                views when the subcircuit has them, the relative_frequency_* views otherwise
    scale_freq_are_counts       every subcircuit sc: relative_frequency_by_int[k] == number of r in sc.readouts with r.as_int == k;
                                and, attributing the readouts of the result(s) to subcircuits by EXECUTION ORDER (the reference's
                                `order`), result.subcircuits[j].relative_frequency_by_int is the histogram of the readouts that
                                subcircuit j produced (over all executions of the job so far) -- two subcircuits made of the same
                                gates keep separate counts.  (If an emulator result has another NUMBER of subcircuits / readouts
                                than the reference, the attribution is not judged: how many readouts are taken is not C15.)
    scale_outputs_str_int_same  parse: [r.as_int] == the outcomes given, whatever kind each was given in; the same outcomes given in
                                another kind / container give the same readouts and tables, and are accepted alike
    scale_prob_normalised       simulated probabilities: all >= 0, |sum - 1| <= 1e-12
    scale_emulator_qubit_order  the simulated distribution of subcircuit j is the reference distribution (|difference| <= 1e-9 at
                                every by_int index k and at by_str key key(k, n)); a readout of it is an outcome the reference
                                gives non-zero probability (equal to base when umask == 0).  Only one-qubit gates and gates whose
                                matrix is symmetric under exchange of their two arguments are used: no argument-order convention
                                enters, only "qubit i is bit i of the integer and character i of the string".
    scale_call_returns          every call on these inputs returns, or raises JaqalError / the documented RuntimeError "Error in
                                probabilities"; any other exception, a hang, or an exception while the views are read fails WITH
                                the input.  (A JaqalError -- e.g. "Program is nested too deeply" beyond ~190 levels -- is a
                                legitimate rejection; the same program must then be rejected whatever the output kind.)

A case is a JSON object {"stream", "dim", "size", "n", "text", "expect": {"subs", "order"}, "calls": [...], "oseed", "npseed"};
`replay(case)` needs nothing else.

`n` scales the work (see `_budget`; the scale grid -- every dimension x every threshold -- is run once in the quick tier whatever n;
alias chains stop at 66 links in the quick tier, 130 in the thorough one: the library resolves them in cubic time).
Recommended n: 300 quick (291 cases, about 9 s; 10-25 s were seen at load 25 on 16 cores), 2000 thorough (1500 cases, about 40 s;
3000: 2400 cases, 65-85 s, up to 3.5 min under the same load).

CLI:    PYTHONPATH=/verif /venv/bin/python /verif/harness/agents/c15_scale.py [--seed S] [--n N] [--thorough]
Module: harness.agents.c15_scale.run(seed, n, driver, thorough) -> dict ; replay(case, driver) -> dict
"""
import os, sys, json, math, random, signal, argparse, warnings

os.environ.setdefault("JAQALPAQ_RUN_EMULATOR", "1")
_ROOT = os.path.dirname(os.path.dirname(os.path.dirname(os.path.abspath(__file__))))
if _ROOT not in sys.path:
    sys.path.insert(0, _ROOT)

DEFAULT_DRIVER = "/verif/lean/.lake/build/bin/jaqal-model"

ORACLES = [
    "scale_readout_str_int",
    "scale_views_integer_order",
    "scale_freq_are_counts",
    "scale_outputs_str_int_same",
    "scale_prob_normalised",
    "scale_emulator_qubit_order",
    "scale_call_returns",
]

PULSE_MODULE = "c15s_pulses"

# extra native gates with unusual names: name -> the gate of harness.gates it copies
GATE_ALIASES = {
    "cal.X": "X", "X.cal": "X", "__X__": "X", "prepare_all_x": "X", "measure_allx": "X", "prepare": "X", "q.X": "Y",
    "loop_": "Z", "cal.Z": "Z", "measure": "S", "cal.SWAP": "SWAP", "SWAP.SWAP": "SWAP", "cal.P": "P", "__cz": "CZ",
}

_LIB = {}


def extended_gates():
    """harness.gates.GATES plus copies under unusual names (also what the autoloaded pulse module exports)."""
    from harness.gates import GATES
    from jaqalpaq.core import GateDefinition

    G = dict(GATES)
    for new, old in GATE_ALIASES.items():
        g = GATES[old]
        G[new] = GateDefinition(new, list(g.parameters), ideal_unitary=g.ideal_unitary)
    return G


def lib():
    """Lazy imports (no work at import time)."""
    if _LIB:
        return _LIB
    warnings.filterwarnings("ignore")
    import numpy
    from harness import timeouts
    from jaqalpaq.parser import parse_jaqal_string
    from jaqalpaq.core.algorithm import expand_macros, fill_in_let, expand_subcircuits
    from jaqalpaq.core.result import parse_jaqal_output_list
    from jaqalpaq.emulator import run_jaqal_circuit, run_jaqal_string, run_jaqal_file, UnitarySerializedEmulator
    from jaqalpaq.error import JaqalError

    np = numpy
    GATES = extended_gates()
    _LIB.update(locals())
    return _LIB


_PULSE_DIR = []


def pulse_dir():
    """A directory holding the module `c15s_pulses` (jaqal_gates.ALL_GATES = extended_gates()) for relative usepulses imports."""
    if not _PULSE_DIR:
        import tempfile, atexit, shutil

        d = tempfile.mkdtemp(prefix="c15_scale_")
        atexit.register(shutil.rmtree, d, True)
        with open(os.path.join(d, PULSE_MODULE + ".py"), "w") as f:
            f.write("import sys\nsys.path.insert(0, %r) if %r not in sys.path else None\nfrom harness.agents.c15_scale import extended_gates\n\n\nclass jaqal_gates:\n    ALL_GATES = extended_gates()\n" % (_ROOT, _ROOT))
        _PULSE_DIR.append(d)
    return _PULSE_DIR[0]


class Hang(Exception):
    pass


def _alarm(*a):
    raise Hang()


# ------------------------------------------------------------------------------------------------ ground truth

_KEYS = {0: [""]}


def key(k, n):
    return "".join("1" if (k >> i) & 1 else "0" for i in range(n))


def keys(n):
    """[key(k, n) for k in range(2^n)], built by doubling: bit n-1 is the LAST character and the slowest to change."""
    if n not in _KEYS:
        prev = keys(n - 1)
        _KEYS[n] = [s + "0" for s in prev] + [s + "1" for s in prev]
    return _KEYS[n]


def mirror(k, n):
    return sum(1 << (n - 1 - i) for i in range(n) if (k >> i) & 1)


# ------------------------------------------------------------------------------------------------ programs (generation time only)
#
# prog  = {"n", "reg", "regsize": None | let name, "lets": [[name, value]], "aliases": [[name, src, spec]], "macros": [[name, params, body, block]],
#          "body": [item], "use": [module names] | None}
# spec  = None (whole) | ["i", index] | ["s", start, stop, step]
# item  = ["sub", style, [gate], cnt] | ["subcall", macro, [arg]] | ["loop", k, [item]]          style "pm" | "sc"
# gate  = ["g", name, [qarg], [carg]] | ["loop", k, [gate]] | ["seq", [gate]] | ["par", [gate]] | ["call", macro, [arg]]
# qarg  = ["r", name, index | None | let name] | parameter name (str)
# k / carg / index: int or the name of a let

SEM = {"X": "flip", "Y": "flipy", "Z": "diag", "S": "diag", "P": "diag", "N": "none", "CZ": "diag", "SWAP": "swap", "ISWAP": "swap", "SX": "sx", "HH": "hh"}
for _new, _old in GATE_ALIASES.items():
    SEM[_new] = SEM[_old]
FLIPS = [g for g, s in SEM.items() if s in ("flip", "flipy")]
KEYWORDS = {"register", "map", "let", "macro", "loop", "import", "usepulses", "from", "as", "branch", "subcircuit", "prepare_all", "measure_all"}


class Unsupported(Exception):
    """The reference cannot evaluate this gate sequence (generator bug: the case is dropped)."""


def _num(v):
    return v if isinstance(v, str) else repr(v)


def _qtext(a):
    if isinstance(a, str):
        return a
    return a[1] if a[2] is None else f"{a[1]}[{_num(a[2])}]"


def _gtext(g):
    t = g[0]
    if t == "g":
        return " ".join([g[1]] + [_qtext(a) for a in g[2]] + [_num(c) for c in g[3]])
    if t == "loop":
        return f"loop {_num(g[1])} {{ " + "; ".join(_gtext(x) for x in g[2]) + " }"
    if t == "seq":
        return "{ " + "; ".join(_gtext(x) for x in g[1]) + " }"
    if t == "par":
        return "< " + " | ".join(_gtext(x) for x in g[1]) + " >"
    if t == "call":
        return " ".join([g[1]] + [_qtext(a) if isinstance(a, (list, str)) and not _is_num(a) else _num(a) for a in g[2]])
    raise ValueError(t)


def _is_num(a):
    return isinstance(a, (int, float))


def render(prog):
    out = []
    for m in prog.get("use") or []:
        out.append(f"from {m} usepulses *")
    for nm, v in prog["lets"]:
        out.append(f"let {nm} {_num(v)}")
    out.append(f"register {prog['reg']}[{prog['regsize'] or prog['n']}]")
    for nm, src, spec in prog["aliases"]:
        if spec is None:
            out.append(f"map {nm} {src}")
        elif spec[0] == "i":
            out.append(f"map {nm} {src}[{_num(spec[1])}]")
        else:
            out.append(f"map {nm} {src}[{spec[1]}:{spec[2]}" + (f":{spec[3]}]" if spec[3] != 1 else "]"))
    for nm, params, body, block in prog["macros"]:
        stm = [_gtext(g) for g in body]
        if block:
            stm = ["prepare_all"] + stm + ["measure_all"]
        out.append(f"macro {nm} {' '.join(params)}{' ' if params else ''}{{ " + "; ".join(stm) + " }")

    def emit(items, ind):
        for it in items:
            if it[0] == "loop":
                out.append(f"{ind}loop {_num(it[1])} {{")
                emit(it[2], ind + " ")
                out.append(ind + "}")
            elif it[0] == "subcall":
                out.append(ind + _gtext(["call", it[1], it[2]]))
            elif it[1] == "sc":
                out.append(f"{ind}subcircuit{'' if it[3] is None else ' ' + _num(it[3])} {{")
                out.extend(ind + " " + _gtext(g) for g in it[2])
                out.append(ind + "}")
            else:
                out.append(ind + "prepare_all")
                out.extend(ind + _gtext(g) for g in it[2])
                out.append(ind + "measure_all")

    emit(prog["body"], "")
    return "\n".join(out) + "\n"


class Ref:
    """The independent reference: classical evaluation of a prog."""

    def __init__(self, prog):
        self.n = prog["n"]
        self.lets = {nm: v for nm, v in prog["lets"]}
        self.table = {prog["reg"]: None}
        for nm, src, spec in prog["aliases"]:
            self.table[nm] = (src, spec)
        self.macros = {nm: (params, body, block) for nm, params, body, block in prog["macros"]}

    def val(self, v):
        return self.lets[v] if isinstance(v, str) else v

    def resolve(self, name, idx):
        idx = None if idx is None else self.val(idx)
        while True:
            ent = self.table[name]
            if ent is None:
                if idx is None or not (0 <= idx < self.n):
                    raise Unsupported("index")
                return idx
            src, spec = ent
            if spec is None:
                name = src
            elif spec[0] == "i":
                if idx is not None:
                    raise Unsupported("index of a qubit alias")
                name, idx = src, self.val(spec[1])
            else:
                if idx is None or not (0 <= idx < len(range(spec[1], spec[2], spec[3]))):
                    raise Unsupported("slice index")
                name, idx = src, spec[1] + idx * spec[3]

    def length(self, name):
        ent = self.table[name]
        if ent is None:
            return self.n
        src, spec = ent
        if spec is None:
            return self.length(src)
        return None if spec[0] == "i" else len(range(spec[1], spec[2], spec[3]))

    def arg(self, a, env):
        if isinstance(a, str):
            if a in env:
                return env[a]
            return ("c", self.val(a))
        if isinstance(a, list):
            return ("q", self.resolve(a[1], a[2]))
        return ("c", a)

    # state: per qubit ["c", bit] | ["h", bit] (one SX applied, nothing else since but flips) | ["u"] (equal superposition for good)
    def run_sub(self, gates, env=None):
        st = {"q": [["c", 0] for _ in range(self.n)], "hh": None}
        self.gates(gates, env or {}, st)
        if st["hh"] is not None:
            raise Unsupported("unpaired HH")
        base = sum(1 << i for i, s in enumerate(st["q"]) if s[0] == "c" and s[1])
        umask = sum(1 << i for i, s in enumerate(st["q"]) if s[0] != "c")
        return [base, umask]

    def gates(self, gs, env, st):
        for g in gs:
            t = g[0]
            if t == "g":
                qs = []
                for a in g[2]:
                    kind, v = self.arg(a, env)
                    if kind != "q":
                        raise Unsupported("classical value where a qubit is needed")
                    qs.append(v)
                self.apply(SEM[g[1]], qs, st)
            elif t == "loop":
                for _ in range(max(0, self.val(g[1]))):
                    self.gates(g[2], env, st)
            elif t in ("seq", "par"):
                self.gates(g[1], env, st)
            elif t == "call":
                params, body, block = self.macros[g[1]]
                self.gates(body, {p: self.arg(a, env) for p, a in zip(params, g[2])}, st)
            else:
                raise ValueError(t)

    def apply(self, sem, qs, st):
        Q = st["q"]
        if sem == "hh":
            pair = frozenset(qs)
            if len(pair) != 2:
                raise Unsupported("HH on one qubit")
            if st["hh"] is None:
                st["hh"] = pair
            elif st["hh"] == pair:
                st["hh"] = None
            else:
                raise Unsupported("HH pair interrupted")
            return
        if st["hh"] is not None:
            raise Unsupported("HH pair interrupted")
        if sem == "none":
            return
        if sem in ("flip", "flipy"):
            s = Q[qs[0]]
            if s[0] == "h" and sem == "flipy":  # Y = i X Z: the Z part ends the SX SX pairing
                Q[qs[0]] = ["u"]
            elif s[0] != "u":
                s[1] ^= 1
        elif sem == "diag":
            for q in qs:
                if Q[q][0] == "h":
                    Q[q] = ["u"]
        elif sem == "swap":
            if qs[0] == qs[1]:
                raise Unsupported("swap of a qubit with itself")
            Q[qs[0]], Q[qs[1]] = Q[qs[1]], Q[qs[0]]
        elif sem == "sx":
            s = Q[qs[0]]
            if s[0] == "c":
                Q[qs[0]] = ["h", s[1]]
            elif s[0] == "h":
                Q[qs[0]] = ["c", s[1] ^ 1]
            else:
                raise Unsupported("SX on a qubit in superposition")
        else:
            raise ValueError(sem)

    def program(self, body):
        """-> (subs, order): flat-order distributions and the execution order of the flat indices."""
        subs = []

        def walk(items):
            order = []
            for it in items:
                if it[0] == "sub":
                    subs.append(self.run_sub(it[2]))
                    order.append(len(subs) - 1)
                elif it[0] == "subcall":
                    params, mbody, block = self.macros[it[1]]
                    subs.append(self.run_sub(mbody, {p: self.arg(a, {}) for p, a in zip(params, it[2])}))
                    order.append(len(subs) - 1)
                else:
                    inner = walk(it[2])
                    order += inner * max(0, self.val(it[1]))
            return order

        order = walk(body)
        return subs, order


# ------------------------------------------------------------------------------------------------ names

REG_NAMES = ["q", "q", "r", "reg", "data", "Q", "_", "__", "__r0", "__macro__", "__in_context__", "q.x", "cal.q", "a.b.c", "q.0", "q_.x",
             "prepare", "prepare_all_", "prepare_all.x", "x.prepare_all", "measure_all2", "measure_al", "loops", "lo", "let_", "lets",
             "mapx", "ma", "macro_", "registers", "register_", "subcircuits", "subcircuit.x", "from_", "imports", "usepulses_", "branch_", "as_", "a"]
WORDS = ["c", "n", "k", "cal.c", "cal.n", "n.n", "__c10", "__c", "loop_n", "prepare_all_n", "measure_all.k", "let.let", "x", "x.x", "m", "m.m",
         "cal.m", "__macro__", "__m", "X_", "X.x", "blk", "blk.0", "g", "sub", "a", "a.b", "b", "b.a", "__a", "al", "al.al", "t", "t0", "_0", "_a"]
_CHARS = "abcdefghijklmnopqrstuvwxyzABCDEFGHIJKLMNOPQRSTUVWXYZ0123456789_"


def long_name(rng, length, dots=True):
    """A legal identifier of exactly `length` characters: [a-zA-Z_](\\.?[a-zA-Z0-9_])*"""
    out = [rng.choice("abcxyzQ_")]
    while len(out) < length:
        if dots and len(out) < length - 1 and out[-1] != "." and rng.random() < 0.05:
            out.append(".")
        else:
            out.append(rng.choice(_CHARS))
    return "".join(out)


class Names:
    """Distinct names, none of them a keyword or a gate."""

    def __init__(self, rng, style="plain", length=None):
        self.rng, self.style, self.length, self.used = rng, style, length, set(KEYWORDS) | set(SEM) | {"CX", "CCX", "ROT3", "NS", "PF"}

    def _ok(self, nm):
        if nm in self.used:
            return False
        self.used.add(nm)
        return True

    def reg(self):
        if self.length:
            return self.new("q")
        if self.style == "plain":
            return self.new(self.rng.choice(["q", "q", "r", "reg"]))
        return self.new(self.rng.choice(REG_NAMES))

    def new(self, base):
        rng = self.rng
        if self.length:
            while True:
                nm = long_name(rng, self.length)
                if self._ok(nm):
                    return nm
        if self.style == "plain":
            cands = [base]
        else:
            w = rng.choice(WORDS)
            cands = [w, base + "." + w, w + "." + base, base + "_", "__" + base, base + base, base + ".0", "cal." + base, base + "." + base, rng.choice(REG_NAMES)]
            rng.shuffle(cands)
        for nm in cands:
            if self._ok(nm):
                return nm
        i = 0
        while True:
            nm = f"{cands[0]}{i}" if self.style == "plain" or rng.random() < 0.5 else f"{cands[0]}.{i}"
            if self._ok(nm):
                return nm
            i += 1


# ------------------------------------------------------------------------------------------------ program builder


class PB:
    def __init__(self, rng, n, names=None, reg=None):
        self.rng, self.n = rng, n
        self.names = names or Names(rng)
        self.prog = {"n": n, "reg": reg or self.names.reg(), "regsize": None, "lets": [], "aliases": [], "macros": [], "body": [], "use": None}
        self.sp = {i: [["r", self.prog["reg"], i]] for i in range(n)}  # spellings of each flat qubit

    @property
    def reg(self):
        return self.prog["reg"]

    def let(self, base, value):
        nm = self.names.new(base)
        self.prog["lets"].append([nm, value])
        return nm

    def alias(self, base, src, spec, use=True):
        nm = self.names.new(base)
        self.prog["aliases"].append([nm, src, spec])
        if use:
            ref = Ref(self.prog)
            L = ref.length(nm)
            if L is None:
                self.sp[ref.resolve(nm, None)].append(["r", nm, None])
            else:
                for j in range(L):
                    self.sp[ref.resolve(nm, j)].append(["r", nm, j])
        return nm

    def macro(self, base, params, body, block=False):
        nm = self.names.new(base)
        self.prog["macros"].append([nm, params, body, block])
        return nm

    def q(self, i, direct=False):
        a = self.sp[i][0] if direct else self.rng.choice(self.sp[i])
        a = list(a)
        if a[2] is not None and not isinstance(a[2], str) and self.rng.random() < 0.15:
            for nm, v in self.prog["lets"]:
                if v == a[2] and isinstance(v, int):
                    a[2] = nm
                    break
        return a

    def g(self, name, *qs, c=()):
        return ["g", name, [self.q(i) if isinstance(i, int) else i for i in qs], list(c)]

    # random gate sequences ------------------------------------------------------------------------------------------------
    def flip(self, i):
        return self.g(self.rng.choice(["X", "X", "X", "Y"] + (FLIPS if self.names.style != "plain" else [])), i)

    def rand_gates(self, maxg, kinds=("flip", "flip", "diag", "sym2", "sxpair", "hhpair", "gloop", "block"), ming=0, lone_sx=0, qubits=None):
        rng, n = self.rng, self.n
        qs = list(range(n)) if qubits is None else list(qubits)
        fancy = self.names.style != "plain"
        out = []
        for _ in range(rng.randint(ming, maxg)):
            k = rng.choice(kinds)
            a = rng.choice(qs)
            if k == "flip":
                out.append(self.flip(a))
            elif k == "diag":
                nm = rng.choice(["Z", "S", "P", "N"] + (["loop_", "cal.Z", "measure", "cal.P"] if fancy else []))
                out.append(self.g(nm, a, c=[rng.choice([0, 1, 2, 3, 7])] if SEM[nm] == "diag" and nm in ("P", "cal.P") else []))
            elif k == "sym2" and len(qs) >= 2:
                a, b = rng.sample(qs, 2)
                out.append(self.g(rng.choice(["SWAP", "SWAP", "ISWAP", "CZ"] + (["cal.SWAP", "SWAP.SWAP", "__cz"] if fancy else [])), a, b))
            elif k == "sxpair":
                out += [self.g("SX", a), self.g("SX", a)]
            elif k == "hhpair" and len(qs) >= 2:
                a, b = rng.sample(qs, 2)
                out += [self.g("HH", a, b), self.g("HH", *rng.choice([(a, b), (b, a)]))]
            elif k == "gloop":
                out.append(["loop", rng.choice([0, 1, 2, 3, 3, 5]), [self.flip(rng.choice(qs)) for _ in range(rng.randint(1, 2))]])
            elif k == "block":
                if len(qs) >= 2 and rng.random() < 0.5:
                    a, b = rng.sample(qs, 2)
                    out.append(["par", [self.flip(a), self.g("Z", b) if rng.random() < 0.5 else self.flip(b)]])
                else:
                    # a sequential block may not stand directly in a sequential block (a loop / subcircuit body): wrap it
                    out.append(["par", [["seq", [self.flip(a), self.flip(rng.choice(qs))]]]])
        for a in rng.sample(qs, min(lone_sx, len(qs))):
            out.append(self.g("SX", a))
        return out

    def finish(self):
        ref = Ref(self.prog)
        subs, order = ref.program(self.prog["body"])
        return render(self.prog), {"subs": subs, "order": order}


def _sub(gates, style="pm", cnt=None):
    return ["sub", style, gates, cnt]


# ------------------------------------------------------------------------------------------------ generators

SIZES = [8, 9, 10, 11, 12, 16, 17, 20, 32, 33, 34, 40, 49, 64, 65, 100, 128, 129, 130, 200, 256, 257, 1000, 1001]
THRESH = [8, 16, 32, 64, 128, 256, 1000]
DIM_MAX = {
    "loop_depth": 257, "block_depth": 257, "gate_loop_depth": 257, "macro_chain": 257, "alias_chain": 130, "lets": 1001, "aliases": 257,
    "macros": 1001, "gates_in_sub": 1001, "subs": 1001, "loop_iter": 1001, "gate_loop_iter": 1001, "name_len": 1001,
}


def pick_size(rng, dim, t):
    """A size just at / beyond threshold t (or one of the in-between sizes the seeds mention)."""
    cap = DIM_MAX[dim]
    s = t + rng.choice([1, 1, 1, 2, 3, 0])  # mostly just BEYOND the threshold: `>= t` and `> t` cut-offs both apply
    if rng.random() < 0.25:
        near = [x for x in SIZES if t <= x < 2 * t]
        s = rng.choice(near) if near else s
    return max(2, min(s, cap))


def gen_regsize(rng, n, heavy):
    pb = PB(rng, n, Names(rng, rng.choice(["plain", "plain", "fancy"])))
    if rng.random() < 0.3:
        pb.alias("al", pb.reg, None)
    if n >= 4 and rng.random() < 0.3:
        pb.alias("ev", pb.reg, ["s", 0, n, 2])
    nsub = rng.choice([1, 1, 2, 3]) if not heavy else 1  # the emulator is a Python loop over 2^n rows per gate
    for _ in range(nsub):
        while True:
            k = rng.randint(1, min(n, 5))
            fl = rng.sample(range(n), k)
            base = sum(1 << i for i in fl)
            if mirror(base, n) != base:
                break
        gs = [pb.flip(i) for i in fl]
        extra = pb.rand_gates(2 if n >= 13 else 5, kinds=("diag", "sym2", "sym2", "sxpair", "hhpair", "flip", "gloop"))
        pos = rng.randint(0, len(gs))
        gs = gs[:pos] + extra + gs[pos:]
        if rng.random() < 0.4:
            gs += pb.rand_gates(0, lone_sx=rng.randint(1, 3))
        pb.prog["body"].append(_sub(gs, rng.choice(["pm", "pm", "sc"])))
    if rng.random() < 0.3:
        pb.prog["body"] = [["loop", rng.choice([2, 3]), pb.prog["body"]]]
    return pb, {"stream": "regsize", "dim": "register_size", "size": n}


def gen_scale(rng, dim, size):
    n = rng.choice([1, 2, 2, 3, 3, 4])
    if dim in ("block_depth", "macro_chain", "alias_chain", "aliases"):
        n = max(n, 2)
    names = Names(rng, "plain", length=size if dim == "name_len" else None)
    pb = PB(rng, n, names)
    body = pb.prog["body"]
    small = lambda: pb.rand_gates(3, ming=1, lone_sx=rng.choice([0, 0, 0, 1]))
    if dim == "loop_depth":
        inner = [_sub(small())] + ([_sub(small(), "sc")] if rng.random() < 0.5 else [])
        special = set(rng.sample(range(size), min(size, 2)))
        sib = set(rng.sample(range(size), min(size, 2)))
        cur = inner
        for lvl in range(size):
            k = rng.choice([2, 3]) if lvl in special else 1
            if rng.random() < 0.1 and lvl not in special:
                k = pb.let("c", 1)
            cur = [["loop", k, cur]]
            if lvl in sib:
                cur = ([_sub(small())] + cur) if rng.random() < 0.5 else (cur + [_sub(small())])
        body += cur
    elif dim == "block_depth":
        a, b = rng.sample(range(n), 2)
        cur = [pb.flip(a)]
        for lvl in range(size):
            kind = "par" if (size - lvl) % 2 == 1 else "seq"  # the outermost block (lvl = size-1) is parallel: legal in any body
            if kind == "seq" and rng.random() < 0.08:
                cur = cur + [pb.flip(rng.choice([a, b]))] if rng.random() < 0.5 else [pb.flip(rng.choice([a, b]))] + cur
            elif kind == "par" and rng.random() < 0.05:
                cur = cur + [pb.flip(b)] if not _touches(cur, pb, b) else cur
            cur = [[kind, cur]]
        body.append(_sub(small() + cur + small()))
    elif dim == "gate_loop_depth":
        a = rng.randrange(n)
        cur = [pb.flip(a)]
        special = set(rng.sample(range(size), min(size, 3)))
        for lvl in range(size):
            k = 3 if lvl in special else 1
            if lvl % 7 == 3 and rng.random() < 0.5:
                cur = cur + [pb.flip(rng.randrange(n))]
            cur = [["loop", k, cur]]
        body.append(_sub(small() + cur))
        body.append(_sub(small()))
    elif dim == "macro_chain":
        a, b = rng.sample(range(n), 2)
        prev = pb.macro("m", ["a", "b"], [["g", "X", ["a"], []], ["g", "Z", ["b"], []]])
        for i in range(1, size):
            args = ["b", "a"] if rng.random() < 0.5 else ["a", "b"]
            bodym = [["call", prev, args]]
            if rng.random() < 0.04:
                bodym.append(["g", "X", [rng.choice(["a", "b"])], []])
            prev = pb.macro("m", ["a", "b"], bodym)
        body.append(_sub(small() + [["call", prev, [pb.q(a), pb.q(b)]]]))
        mid = pb.prog["macros"][rng.randrange(len(pb.prog["macros"]))][0]
        body.append(_sub([["call", mid, [pb.q(b), pb.q(a)]]] + small()))
    elif dim == "alias_chain":
        prev, plen = pb.reg, n
        for i in range(size):
            if plen >= 3 and rng.random() < 2.0 / size:
                prev = pb.alias("a", prev, ["s", 1, plen, 1], use=(i % 16 == 0 or i >= size - 2))
                plen -= 1
            else:
                prev = pb.alias("a", prev, None, use=(i % 16 == 0 or i >= size - 2))
        last = [s for i in range(n) for s in pb.sp[i] if s[1] == prev]
        body.append(_sub([["g", "X", [rng.choice(last)], []]] + small()))
        body.append(_sub(small()))
    elif dim == "lets":
        for i in range(size):
            pb.let("c", rng.choice([i % 5, i % 3, 2, 3, 1]) if rng.random() < 0.9 else round(rng.random(), 3))
        ints = [nm for nm, v in pb.prog["lets"] if isinstance(v, int)]
        if rng.random() < 0.5:
            cands = [nm for nm, v in pb.prog["lets"] if v == n and isinstance(v, int)]
            if cands:
                pb.prog["regsize"] = rng.choice(cands)
        k = rng.choice([nm for nm in ints if 1 <= dict(pb.prog["lets"])[nm] <= 3] or [2])
        body.append(["loop", k, [_sub(small())]])
        body.append(_sub(small() + [pb.g("P", rng.randrange(n), c=[rng.choice(ints)])]))
    elif dim == "aliases":
        for i in range(size):
            r = rng.random()
            if r < 0.5:
                pb.alias("z", pb.reg, ["i", i % n], use=rng.random() < 0.1)
            elif r < 0.8:
                pb.alias("w", pb.reg, None, use=rng.random() < 0.1)
            else:
                st = rng.randrange(n - 1)
                pb.alias("s", pb.reg, ["s", st, n, 1], use=rng.random() < 0.1)
        body.append(_sub(small()))
        body.append(_sub(small()))
    elif dim == "macros":
        ms = []
        for i in range(size):
            bodym = rng.choice([[["g", "X", ["a"], []]], [["g", "Z", ["a"], []]], [["g", "X", ["a"], []], ["g", "X", ["a"], []]], [["g", "Y", ["a"], []], ["g", "S", ["a"], []]]])
            ms.append(pb.macro("g", ["a"], bodym))
        for _ in range(2):
            body.append(_sub(small() + [["call", rng.choice(ms), [pb.q(rng.randrange(n))]] for _ in range(rng.randint(1, 3))]))
    elif dim == "gates_in_sub":
        gs = []
        while len(gs) < size:
            gs += pb.rand_gates(1, kinds=("flip", "flip", "diag", "sym2"), ming=1)
        body.append(_sub(gs[:size] + pb.rand_gates(0, lone_sx=rng.choice([0, 1]))))
        body.append(_sub(small()))
    elif dim == "subs":
        # mostly a few gate sequences repeated many times; sometimes many distinct ones AND repetitions among them
        pool = [pb.rand_gates(3, kinds=("flip", "flip", "diag", "sym2"), ming=1) for _ in range(rng.choice([2, 3, 4, 9, 17, max(2, size // 3)]))]
        styles = ["pm"] if rng.random() < 0.5 else ["pm", "pm", "sc"]
        for i in range(size):
            body.append(_sub(rng.choice(pool) if rng.random() < 0.9 else [], rng.choice(styles)))
        if rng.random() < 0.5:
            j = rng.randrange(size)
            body[j:j + 2] = [["loop", rng.choice([0, 2, 3]), body[j:j + 2]]]
    elif dim == "loop_iter":
        inner = [_sub(small())] + ([_sub(small())] if rng.random() < 0.4 else [])
        k = size if rng.random() < 0.6 else pb.let("c", size)
        body.append(["loop", k, inner])
        if rng.random() < 0.5:
            body.append(_sub(small()))
    elif dim == "gate_loop_iter":
        k = size if rng.random() < 0.6 else pb.let("c", size)
        body.append(_sub(small() + [["loop", k, [pb.flip(rng.randrange(n))] + ([pb.g("Z", rng.randrange(n))] if rng.random() < 0.3 else [])]]))
        body.append(_sub(small()))
    elif dim == "name_len":
        c = pb.let("c", 2)
        al = pb.alias("a", pb.reg, None)
        m = pb.macro("m", [names.new("p")], [])
        pb.prog["macros"][-1][2] = [["g", "X", [pb.prog["macros"][-1][1][0]], []]]
        body.append(["loop", c, [_sub(small() + [["call", m, [pb.q(rng.randrange(n))]]])]])
        body.append(_sub(small()))
    else:
        raise ValueError(dim)
    return pb, {"stream": "scale", "dim": dim, "size": size}


def _touches(gs, pb, q):
    """Does the gate list mention flat qubit q (only register / alias references occur in block nests)?"""
    ref = Ref(pb.prog)
    for g in gs:
        if g[0] == "g":
            if any(ref.resolve(a[1], a[2]) == q for a in g[2]):
                return True
        elif g[0] in ("seq", "par"):
            if _touches(g[1], pb, q):
                return True
        else:
            return True
    return False


def gen_dup(rng):
    n = rng.choice([1, 2, 2, 3, 3, 4])
    pb = PB(rng, n, Names(rng, rng.choice(["plain", "plain", "fancy"])))
    al = pb.alias("al", pb.reg, None, use=False)
    lets = [pb.let("c", v) for v in range(min(n, 2))]
    pool = []
    big = rng.random() < 0.25  # many distinct gate sequences and repetitions among them
    for _ in range(rng.choice([1, 2, 2, 3]) if not big else rng.randint(9, 12)):
        pool.append(pb.rand_gates(3, kinds=("flip", "flip", "diag", "sym2", "sxpair", "gloop"), ming=1, lone_sx=rng.choice([0, 0, 1])))
    blk = None
    if rng.random() < 0.5:
        blk = pb.macro("blk", [], rng.choice(pool), block=True)
    wrap = None
    if rng.random() < 0.5:
        wrap = (pb.macro("w", [], pool[0]), 0)

    def respell(gs):
        """The same gates spelled another way: through the alias, with a let index (same after expansion)."""
        out = []
        for g in gs:
            if g[0] == "g":
                qa = []
                for a in g[2]:
                    a = list(a)
                    r = rng.random()
                    if r < 0.3 and a[1] == pb.reg:
                        a[1] = al
                    if r > 0.7 and isinstance(a[2], int) and a[2] < len(lets):
                        a[2] = lets[a[2]]
                    qa.append(a)
                out.append(["g", g[1], qa, g[3]])
            elif g[0] == "loop":
                out.append(["loop", g[1], respell(g[2])])
            else:
                out.append([g[0], respell(g[1])])
        return out

    def one():
        i = rng.randrange(len(pool))
        r = rng.random()
        if blk is not None and r < 0.25:
            return ["subcall", blk, []]
        if wrap is not None and i == wrap[1] and r < 0.5:
            return _sub([["call", wrap[0], []]], rng.choice(["pm", "sc"]))
        gs = pool[i] if r < 0.8 else respell(pool[i])
        return _sub(gs, rng.choice(["pm", "pm", "sc"]), rng.choice([None, None, None, 1]))

    items = []
    for _ in range(rng.randint(3, 9) if not big else rng.randint(14, 24)):
        r = rng.random()
        if r < 0.3:
            items.append(["loop", rng.choice([0, 1, 2, 3, 3]), [one() for _ in range(rng.randint(1, 2))]])
        else:
            items.append(one())
    pb.prog["body"] = items
    return pb, {"stream": "dup", "dim": "identical_subcircuits", "size": len(items)}


def gen_small(rng, stream):
    """A small program; stream "ident": every name has an unusual spelling."""
    n = rng.choice([1, 2, 2, 3, 3, 4, 5])
    pb = PB(rng, n, Names(rng, "fancy" if stream == "ident" else rng.choice(["plain", "fancy"])))
    for v in rng.sample(range(4), rng.randint(0, 3)):
        pb.let("c", v)
    if rng.random() < 0.4 and any(v == n for _, v in pb.prog["lets"]):
        pb.prog["regsize"] = next(nm for nm, v in pb.prog["lets"] if v == n)
    if rng.random() < 0.6:
        a = pb.alias("al", pb.reg, None)
        if rng.random() < 0.5:
            pb.alias("al", a, None)
    if n >= 2 and rng.random() < 0.5:
        st = rng.randrange(n - 1)
        pb.alias("s", pb.reg, ["s", st, n, rng.choice([1, 1, 2])])
    if rng.random() < 0.5:
        pb.alias("z", pb.reg, ["i", rng.randrange(n)])
    ms = []
    for _ in range(rng.randint(0, 2)):
        p = pb.names.new("a")
        ms.append(pb.macro("m", [p], [["g", rng.choice(FLIPS if pb.names.style != "plain" else ["X", "Y"]), [p], []]] + ([["g", "Z", [p], []]] if rng.random() < 0.3 else [])))
    items = []
    for _ in range(rng.randint(1, 4)):
        gs = pb.rand_gates(4, ming=0, lone_sx=rng.choice([0, 0, 1, 2]))
        if ms and rng.random() < 0.6:
            gs.insert(rng.randint(0, len(gs) - (1 if gs and gs[-1][1] == "SX" else 0)) if gs else 0, ["call", rng.choice(ms), [pb.q(rng.randrange(n))]])
        it = _sub(gs, rng.choice(["pm", "pm", "sc"]))
        if rng.random() < 0.3:
            k = rng.choice([0, 1, 2, 3])
            ks = [nm for nm, v in pb.prog["lets"] if v == k]
            it = ["loop", rng.choice(ks) if ks and rng.random() < 0.5 else k, [it]]
        items.append(it)
    pb.prog["body"] = items
    return pb, {"stream": stream, "dim": "none", "size": 0}


# ------------------------------------------------------------------------------------------------ calls

ENTRIES = ["run", "run_backend_none", "run_backend", "run_emulator_backend", "run_force_sim", "run_spelled_defaults", "job", "job2", "run_string", "run_file"]
GATESRC = ["inject", "inject", "inject_noauto_default", "autoload", "autoload_twice", "both"]
NPKINDS = ["int8", "uint8", "int16", "uint16", "int32", "uint32", "int64", "uint64", "intp"]
FORMS = ["int", "str", "npstr", "mixed", "mixed_np", "alt_int_first", "alt_str_first"] + ["np:" + k for k in NPKINDS]


def np_fits(kind, n):
    bits = {"int8": 7, "uint8": 8, "int16": 15, "uint16": 16, "int32": 31, "uint32": 32, "int64": 63, "uint64": 64, "intp": 63}[kind]
    return n <= bits


def rand_popts(rng, plain=False):
    if plain:
        return {"gates": "inject"}
    o = {"gates": rng.choice(GATESRC)}
    for k in ("expand_macro", "expand_let", "expand_let_map", "return_usepulses"):
        if rng.random() < 0.3:
            o[k] = rng.random() < 0.8
    if rng.random() < 0.3:
        o["override_dict"] = rng.choice(["none", "empty"])
    return o


def rand_forms(rng, n, k):
    ok = [f for f in FORMS if not f.startswith("np:") or np_fits(f[3:], n)]
    return rng.sample(ok, min(k, len(ok)))


def make_calls(rng, n, stream, i, heavy=False):
    """One emulator call and one parse call per case; the `defaults` stream cycles through every entry point / kind."""
    calls = []
    if stream == "defaults":
        entry = ENTRIES[i % len(ENTRIES)]
        forms = [FORMS[i % len(FORMS)], FORMS[(i * 7 + 3) % len(FORMS)], rng.choice(FORMS)]
        forms = [f for f in dict.fromkeys(forms) if not f.startswith("np:") or np_fits(f[3:], n)] or ["int"]
        popts = rand_popts(rng)
        popts["gates"] = GATESRC[i % len(GATESRC)]
    else:
        entry = rng.choice(ENTRIES)
        forms = rand_forms(rng, n, 1 if heavy else rng.choice([2, 3]))
        popts = rand_popts(rng, plain=heavy or rng.random() < 0.4)
    e = {"kind": "emu", "entry": entry, "popts": popts}
    if entry in ("run_string", "run_file"):
        e["popts"] = {"gates": rng.choice(["autoload", "autoload_twice"])}
    calls.append(e)
    cont = rng.choice(["list", "list", "tuple", "ndarray"])
    calls.append({"kind": "parse", "popts": rand_popts(rng, plain=heavy or rng.random() < 0.4), "forms": forms, "container": cont})
    return calls


def outcomes(case):
    """The outcomes handed to parse_jaqal_output_list: one per readout, deterministic in the case."""
    n = case["n"]
    rng = random.Random(case["oseed"])
    full = (1 << n) - 1
    special = [0, 0, full, 1, 1 << (n - 1), full - 1 if n > 1 else 0, 0x5555555555 & full, 0x2AAAAAAAAA & full, 1 | (1 << (n // 2)), 6 & full]
    return [rng.choice(special) if rng.random() < 0.6 else rng.randrange(1 << n) for _ in case["expect"]["order"]]


def in_form(ints, n, form, fseed, np):
    K = keys(n)
    rng = random.Random(fseed)
    if form == "int":
        return list(ints)
    if form == "str":
        return [K[v] for v in ints]
    if form == "npstr":
        return [np.str_(K[v]) for v in ints]
    if form.startswith("np:"):
        t = getattr(np, form[3:])
        return [t(v) for v in ints]
    if form == "alt_int_first":
        return [v if j % 2 == 0 else K[v] for j, v in enumerate(ints)]
    if form == "alt_str_first":
        return [K[v] if j % 2 == 0 else v for j, v in enumerate(ints)]
    if form == "mixed":
        return [v if rng.random() < 0.5 else K[v] for v in ints]
    if form == "mixed_np":
        kinds = [k for k in NPKINDS if np_fits(k, n)]
        out = []
        for v in ints:
            r = rng.random()
            out.append(v if r < 0.25 else K[v] if r < 0.5 else np.str_(K[v]) if r < 0.6 else getattr(np, rng.choice(kinds))(v))
        return out
    raise ValueError(form)


def in_container(outs, form, container, np):
    if container == "tuple":
        return tuple(outs)
    if container == "ndarray" and (form in ("int", "str", "npstr") or form.startswith("np:")):
        return np.array(outs)  # elements come back as numpy.int64 / numpy.str_ / the given integer kind
    return outs


# ------------------------------------------------------------------------------------------------ the property on results


def check(results, n, expect, tag, mode, ints=None, feat=None):
    """All C15 relations on the result(s) of one call.  `results`: the ExecutionResults obtained so far from ONE job (they share the
    job's subcircuit objects) or the single result of a run / parse call.  -> {oracle: None | detail of the first violation}"""
    L = lib()
    np = L["np"]
    dim = 1 << n
    K = keys(n)
    out = {o: None for o in ORACLES[:6]}
    judged = set(["scale_readout_str_int", "scale_views_integer_order", "scale_freq_are_counts"])
    int_types = (int, np.integer)

    def fail(o, msg):
        if out[o] is None:
            out[o] = f"{tag}: {msg}"

    def value_of(r, where):
        v = r.as_int
        if v is True or v is False or not isinstance(v, int_types) or not (0 <= v < dim):
            fail("scale_readout_str_int", f"{where}: as_int = {v!r} is not an integer in 0..2^{n}-1")
            return None
        v = int(v)
        s = r.as_str
        if s != K[v]:
            fail("scale_readout_str_int", f"{where}: as_int = {v} has as_str = {s!r}, expected {K[v]!r} ({n} characters, qubit 0 leftmost)")
        return v

    R = results[-1]
    subs = list(R.subcircuits)
    flat = [r for res in results for r in res.readouts]
    flat_vals = [value_of(r, f"result readout #{i}") for i, r in enumerate(flat)]
    vals = dict(zip(map(id, flat), flat_vals))
    esubs, order = expect["subs"], expect["order"] * len(results)
    same_shape = len(subs) == len(esubs) and len(flat) == len(order)

    sub_vals = []
    for si, sc in enumerate(subs):
        w = f"subcircuit {si}"
        if len(sc.measured_qubits) != n:
            fail("scale_views_integer_order", f"{w}: {len(sc.measured_qubits)} measured qubits, the register has {n}")
        rf = sc.relative_frequency_by_int
        sim = sc.simulated_probability_by_int if hasattr(sc, "simulated_probability_by_int") else None
        want_int, want_name = (sim, "simulated_probability") if sim is not None else (rf, "relative_frequency")
        views = [("relative_frequency", rf, sc.relative_frequency_by_str)]
        if sim is not None:
            views.append(("simulated_probability", sim, sc.simulated_probability_by_str))
        views.append(("probability(deprecated alias of %s)" % want_name, sc.probability_by_int, sc.probability_by_str if n < 13 else None))
        for name, by_int, by_str in views:
            if len(by_int) != dim:
                fail("scale_views_integer_order", f"{w}: {name}_by_int has {len(by_int)} entries, expected 2^{n} = {dim}")
                continue
            if by_str is None:
                continue
            ks = list(by_str.keys())
            if ks != K:
                bad = next((j for j, (a, b) in enumerate(zip(ks, K)) if a != b), min(len(ks), len(K)))
                fail("scale_views_integer_order", f"{w}: {name}_by_str has {len(ks)} keys (expected {dim}); first wrong key at outcome {bad}: {ks[bad] if bad < len(ks) else None!r} != {K[bad] if bad < len(K) else None!r}")
            elif not np.array_equal(np.asarray(list(by_str.values())), np.asarray(by_int)):
                fail("scale_views_integer_order", f"{w}: the values of {name}_by_str are not the entries of {name}_by_int")
        if len(want_int) == dim and not np.array_equal(np.asarray(sc.probability_by_int), np.asarray(want_int)):
            fail("scale_views_integer_order", f"{w}: probability_by_int differs from {want_name}_by_int")
        recorded = list(sc.readouts)
        mine = [vals[id(r)] if id(r) in vals else value_of(r, f"{w} readout #{j}") for j, r in enumerate(recorded)]
        sub_vals.append(mine)
        if None not in mine and len(rf) == dim:
            counts = np.bincount(np.asarray(mine, dtype=np.int64), minlength=dim) if mine else np.zeros(dim, dtype=np.int64)
            rfa = np.asarray(rf)
            if not np.array_equal(rfa, counts):
                k = int(np.nonzero(rfa != counts)[0][0])
                fail("scale_freq_are_counts", f"{w}: relative_frequency_by_int[{k}] = {rf[k]} but {int(counts[k])} of its {len(recorded)} recorded readouts have as_int == {k}")
        if sim is not None and len(sim) == dim:
            judged.add("scale_prob_normalised")
            p = np.asarray(sim, dtype=float)
            if not (p.min() >= 0) or not abs(math.fsum(p.tolist()) - 1.0) <= 1e-12:
                fail("scale_prob_normalised", f"{w}: simulated probabilities min {p.min()!r} sum {math.fsum(p.tolist())!r}")
            if mode == "emu" and len(subs) == len(esubs):
                judged.add("scale_emulator_qubit_order")
                base, umask = esubs[si]
                ubits = [i for i in range(n) if (umask >> i) & 1]
                exp = np.zeros(dim)
                supp = []
                for m in range(1 << len(ubits)):
                    k = base & ~umask
                    for j, b in enumerate(ubits):
                        if (m >> j) & 1:
                            k |= 1 << b
                    supp.append(k)
                exp[supp] = 1.0 / len(supp)
                if not np.abs(p - exp).max() <= 1e-9:
                    k = int(np.argmax(np.abs(p - exp)))
                    got = int(np.argmax(p))
                    fail("scale_emulator_qubit_order", f"{w}: the reference gives outcome {k} = {K[k]!r} probability {exp[k]!r} (flipped qubits {K[base]!r}, qubits in superposition {K[umask]!r}) but simulated_probability_by_int[{k}] = {p[k]!r}; the largest mass is at outcome {got} = {K[got]!r}")
                else:
                    sbs = sc.simulated_probability_by_str
                    for k in supp[:8]:
                        v = sbs.get(K[k])
                        if v is None or not abs(float(v) - exp[k]) <= 1e-9:
                            fail("scale_emulator_qubit_order", f"{w}: simulated_probability_by_str[{K[k]!r}] = {v!r}, the reference gives {exp[k]!r}")
                    bad = next((j for j, v in enumerate(mine) if v is not None and (v & ~umask) != (base & ~umask)), None)
                    if bad is not None:
                        fail("scale_emulator_qubit_order", f"{w}: its readout #{bad} is {mine[bad]} = {K[mine[bad]]!r}, an outcome the reference gives probability 0 (flipped qubits {K[base]!r}, in superposition {K[umask]!r})")

    if mode == "parse":
        judged.add("scale_outputs_str_int_same")
        if flat_vals != ints:
            j = next((j for j, (a, b) in enumerate(zip(flat_vals, ints)) if a != b), min(len(flat_vals), len(ints)))
            fail("scale_outputs_str_int_same", f"{len(flat_vals)} readouts for {len(ints)} outputs; first difference at output #{j}: as_int {flat_vals[j] if j < len(flat_vals) else None!r}, given {ints[j] if j < len(ints) else None!r}")
        if len(subs) != len(esubs):
            fail("scale_freq_are_counts", f"{len(subs)} subcircuits in the result, the program has {len(esubs)}")
    if same_shape:
        per = [[] for _ in subs]
        for v, s in zip(flat_vals, order):
            per[s].append(v)
        for si, sc in enumerate(subs):
            mine = per[si]
            if None in mine:
                continue
            hist = np.bincount(np.asarray(mine, dtype=np.int64), minlength=dim) if mine else np.zeros(dim, dtype=np.int64)
            rfa = np.asarray(sc.relative_frequency_by_int)
            if len(rfa) == dim and not np.array_equal(rfa, hist):
                k = int(np.nonzero(rfa != hist)[0][0])
                twin = next((sj for sj in range(len(subs)) if sj != si and subs[sj] is sc), None)
                fail("scale_freq_are_counts", f"subcircuit {si}: relative_frequency_by_int[{k}] = {rfa[k]} but outcome {k} was read out {int(hist[k])} times in the {len(mine)} executions of this subcircuit (readouts attributed by execution order)" + (f"; result.subcircuits[{si}] is result.subcircuits[{twin}] (one object for two subcircuits)" if twin is not None else ""))
            elif sub_vals[si] != mine:
                fail("scale_freq_are_counts", f"subcircuit {si}: its {len(sub_vals[si])} recorded readouts are not the {len(mine)} readouts it produced, in execution order")
    elif mode == "emu" and feat is not None:
        feat["emu_shape_differs_from_reference(attribution not judged)"] = feat.get("emu_shape_differs_from_reference(attribution not judged)", 0) + 1
    return out, judged


# ------------------------------------------------------------------------------------------------ running one case

USE_LINE = f"from .{PULSE_MODULE} usepulses *\n"


def _summary(R):
    return ([int(r.as_int) for r in R.readouts], [r.as_str for r in R.readouts], [[float(x) for x in sc.relative_frequency_by_int] for sc in R.subcircuits])


def run_case(case):
    """-> {"evals": {oracle: n}, "fails": {oracle: detail}, "feat": {feature: n}}"""
    L = lib()
    np, T, JaqalError = L["np"], L["timeouts"], L["JaqalError"]
    evals = {o: 0 for o in ORACLES}
    fails = {}
    feat = {}
    n, text, expect = case["n"], case["text"], case["expect"]

    def bump(k, d=1):
        feat[k] = feat.get(k, 0) + d

    def call(f, *a, **k):
        signal.alarm(int(T.limit()))
        try:
            return f(*a, **k)
        finally:
            signal.alarm(0)

    def guarded(what, f, *a, **k):
        evals["scale_call_returns"] += 1
        try:
            return "ok", call(f, *a, **k)
        except Hang:
            T.saw_hang()
            fails.setdefault("scale_call_returns", f"{what}: no result within the time limit")
        except RecursionError:
            # the passes and walkers recurse over the nesting of blocks; run_jaqal_circuit / parse_jaqal_output_list turn this into
            # JaqalError("Program is nested too deeply"), the bare passes and backends used by the job path do not: a rejection
            bump("rejected:RecursionError")
            return "rejected", "RecursionError"
        except JaqalError as e:
            import re

            bump("rejected:JaqalError:" + re.sub(r"^<string>:\d+:\d+: ", "", str(e))[:40])
            return "rejected", f"JaqalError: {e}"[:200]
        except RuntimeError as e:
            if str(e).startswith("Error in probabilities"):
                bump("rejected:RuntimeError_probabilities")
                return "rejected", "RuntimeError: Error in probabilities"
            fails.setdefault("scale_call_returns", f"{what}: RuntimeError: {e}"[:400])
        except Exception as e:
            fails.setdefault("scale_call_returns", f"{what}: {type(e).__name__}: {e}"[:400])
        return "fail", None

    def judge(results, tag, mode, ints=None):
        signal.alarm(int(T.limit(2)))
        try:
            got, judged = check(results, n, expect, tag, mode, ints=ints, feat=feat)
        except Hang:
            T.saw_hang()
            got, judged = {"scale_call_returns": f"{tag}: reading the views: no result within the time limit"}, {"scale_call_returns"}
        except Exception as e:
            got, judged = {"scale_call_returns": f"{tag}: reading the views raised {type(e).__name__}: {e}"[:400]}, {"scale_call_returns"}
        finally:
            signal.alarm(0)
        for o in judged:
            evals[o] += 1
        for o, d in got.items():
            if d is not None:
                fails.setdefault(o, d)

    def circuit(popts):
        """parse_jaqal_string with the options of the call -> ("ok", circuit) | ("rejected" | "fail", ...)"""
        ck = json.dumps(popts, sort_keys=True)
        if ck in circ_cache:  # two calls with the same options share ONE circuit object
            return "ok", circ_cache[ck]
        src = popts.get("gates", "inject")
        kw = {k: popts[k] for k in ("expand_macro", "expand_let", "expand_let_map", "return_usepulses") if k in popts}
        if "override_dict" in popts:
            kw["override_dict"] = None if popts["override_dict"] == "none" else {}
        t = text
        if src == "inject":
            kw.update(inject_pulses=L["GATES"], autoload_pulses=False)
        elif src == "inject_noauto_default":
            kw.update(inject_pulses=L["GATES"])  # autoload_pulses defaults to True; the program has no usepulses statement
        elif src in ("autoload", "autoload_twice"):
            t = USE_LINE * (2 if src == "autoload_twice" else 1) + text
            kw.update(autoload_pulses=True, import_path=pulse_dir())
        elif src == "both":
            t = USE_LINE + text
            kw.update(inject_pulses=L["GATES"], autoload_pulses=True, import_path=pulse_dir())
        stt, c = guarded(f"parse_jaqal_string({', '.join(sorted(kw))})", L["parse_jaqal_string"], t, **kw)
        if stt == "ok" and kw.get("return_usepulses"):
            c = c[0]
        if stt == "ok":
            circ_cache[ck] = c
        return stt, c

    circ_cache = {}

    old = signal.signal(signal.SIGALRM, _alarm)
    st = np.random.get_state()
    try:
        for ci, c in enumerate(case["calls"]):
            if fails:
                break
            np.random.seed((case.get("npseed", 0) + ci) % (2 ** 32))
            if c["kind"] == "emu":
                entry = c["entry"]
                bump("emu_entry:" + entry)
                B = L["UnitarySerializedEmulator"]
                if entry in ("run_string", "run_file"):
                    t = USE_LINE * (2 if c["popts"].get("gates") == "autoload_twice" else 1) + text
                    if entry == "run_string":
                        stt, R = guarded("run_jaqal_string(import_path=...)", L["run_jaqal_string"], t, import_path=pulse_dir())
                    else:
                        fn = os.path.join(pulse_dir(), "prog.jaqal")
                        with open(fn, "w") as f:
                            f.write(t)
                        stt, R = guarded("run_jaqal_file", L["run_jaqal_file"], fn)
                    if stt == "ok":
                        judge([R], entry, "emu")
                    continue
                stt, circ = circuit(c["popts"])
                if stt != "ok":
                    continue
                if entry in ("job", "job2"):
                    stt, e = guarded("expand", lambda: L["expand_macros"](L["fill_in_let"](L["expand_subcircuits"](circ))))
                    if stt == "ok":
                        stt, job = guarded("UnitarySerializedEmulator()(circuit)", lambda: B()(e))
                    if stt == "ok":
                        got = []
                        for x in range(2 if entry == "job2" else 1):
                            stt, R = guarded(f"job.execute() #{x + 1}", job.execute)
                            if stt != "ok":
                                break
                            got.append(R)
                            judge(got, f"job.execute() #{x + 1}", "emu")
                            if fails:
                                break
                    continue
                kw = {
                    "run": {}, "run_backend_none": {"backend": None}, "run_backend": {"backend": "B"}, "run_emulator_backend": {"emulator_backend": "B"},
                    "run_force_sim": {"force_sim": True}, "run_spelled_defaults": {"backend": None, "force_sim": False, "emulator_backend": None},
                }[entry]
                kw = {k: (B() if v == "B" else v) for k, v in kw.items()}
                stt, R = guarded(f"run_jaqal_circuit({', '.join(sorted(kw))})", L["run_jaqal_circuit"], circ, **kw)
                if stt == "ok":
                    judge([R], f"run_jaqal_circuit({', '.join(sorted(kw))})", "emu")
            else:
                stt, circ = circuit(c["popts"])
                if stt != "ok":
                    continue
                ints = outcomes(case)
                seen = []
                for fi, form in enumerate(c["forms"]):
                    outs = in_container(in_form(ints, n, form, case["oseed"] + fi, np), form, c["container"], np)
                    bump("parse_form:" + form)
                    bump("parse_container:" + type(outs).__name__)
                    stt, R = guarded(f"parse_jaqal_output_list(outputs as {form} in a {type(outs).__name__})", L["parse_jaqal_output_list"], circ, outs)
                    if stt == "fail":
                        break
                    if stt == "ok":
                        judge([R], f"outputs as {form} in a {type(outs).__name__}", "parse", ints=ints)
                        if fails:
                            break
                        seen.append((form, "ok", _summary(R) if len(c["forms"]) > 1 else None))
                    else:
                        seen.append((form, R, None))
                if not fails and len(seen) > 1:
                    evals["scale_outputs_str_int_same"] += 1
                    f0, s0, r0 = seen[0]
                    for f1, s1, r1 in seen[1:]:
                        if (s0 == "ok") != (s1 == "ok"):
                            fails.setdefault("scale_outputs_str_int_same", f"the same outcomes given as {f0} -> {s0}, given as {f1} -> {s1}")
                        elif s0 == "ok" and r0 != r1:
                            fails.setdefault("scale_outputs_str_int_same", f"the same outcomes given as {f0} and as {f1} give different readouts / tables")
    finally:
        signal.alarm(0)
        signal.signal(signal.SIGALRM, old)
        np.random.set_state(st)
    return {"evals": evals, "fails": fails, "feat": feat}


# ------------------------------------------------------------------------------------------------ protocol


def _budget(n, thorough):
    return {
        "regsize": max(8, n // 40) if not thorough else max(21, n // 75),
        "scale_reps": max(1, n // 300) if not thorough else max(2, n // 750),
        "dup": max(10, n // 5),
        "ident": max(20, n // 4),
        "defaults": max(2 * len(ENTRIES), n // 5),
    }


def _make(rng, gen, stream_i=0, thorough=True):
    """Generate until the reference can evaluate the program (a generator that leaves its own sub-language is retried)."""
    for _ in range(50):
        try:
            pb, meta = gen()
            text, expect = pb.finish()
        except Unsupported:
            continue
        if len(expect["order"]) > 6000:
            continue
        n = pb.n
        heavy = len(expect["order"]) > 300 or len(expect["subs"]) > 300 or n >= 12 or (meta["dim"] == "alias_chain" and meta["size"] >= 60) or (meta["dim"] in ("loop_depth", "block_depth", "gate_loop_depth", "macro_chain") and meta["size"] >= 100)
        calls = make_calls(rng, n, meta["stream"], stream_i, heavy)
        if heavy and not thorough and meta["stream"] == "scale":
            calls = [rng.choice(calls)]  # quick tier: the expensive programs get the emulator OR the output parser
        case = dict(meta, n=n, text=text, expect=expect, calls=calls, oseed=rng.randrange(2 ** 31), npseed=rng.randrange(2 ** 31))
        return case
    raise RuntimeError("generator never produced an evaluable program")


def gen_cases(seed, n, thorough):
    rng = random.Random(f"c15_scale:{seed}:{int(bool(thorough))}")
    b = _budget(n, thorough)
    cases = []
    sizes = [10, 11, 12, 13, 14, 9, 10, 8, 12, 11, 14, 13]
    for i in range(b["regsize"]):
        nq = sizes[i % len(sizes)]
        cases.append(_make(rng, lambda: gen_regsize(rng, nq, nq >= 13)))
    for rep in range(b["scale_reps"]):
        for dim, cap in DIM_MAX.items():
            for t in THRESH:
                if t > cap:
                    continue
                size = pick_size(rng, dim, t)
                if dim == "alias_chain" and not thorough:
                    size = min(size, 66)  # the library resolves alias chains in cubic time: 100 links cost 2-4 s, 130 links 4-8 s
                cases.append(_make(rng, lambda: gen_scale(rng, dim, size), thorough=thorough))
        for dim in ("subs", "macros", "lets", "aliases"):  # 10..12 items: where "item 10" first sorts before "item 2"
            size = rng.choice([10, 11, 11, 12])
            cases.append(_make(rng, lambda: gen_scale(rng, dim, size), thorough=thorough))
    for i in range(b["dup"]):
        cases.append(_make(rng, lambda: gen_dup(rng)))
    for i in range(b["ident"]):
        cases.append(_make(rng, lambda: gen_small(rng, "ident")))
    for i in range(b["defaults"]):
        cases.append(_make(rng, lambda: gen_small(rng, "defaults"), stream_i=i + seed))
    return cases


def _features(case, dist):
    def bump(k, d=1):
        dist[k] = dist.get(k, 0) + d

    bump("stream:" + case["stream"])
    n = case["n"]
    bump("register_size=%d" % n)
    if case["stream"] == "scale":
        s = case["size"]
        bump("scale:%s>=%d" % (case["dim"], max([t for t in THRESH if t <= s + 1] or [0])))
    subs, order = case["expect"]["subs"], case["expect"]["order"]
    nsub = len(subs)
    bump("subcircuits_per_program:%s" % (nsub if nsub < 8 else "8-15" if nsub < 16 else "16-255" if nsub < 256 else ">=256"))
    if len(set(map(tuple, subs))) < nsub:
        bump("program_with_subcircuits_of_equal_distribution")
    if any(u for _, u in subs):
        bump("program_with_superposition_subcircuit")
    if any(mirror(bv, n) != bv for bv, _ in subs):
        bump("program_with_non_palindromic_outcome")
    if any(s not in order for s in range(nsub)):
        bump("subcircuit_with_zero_readouts")
    bump("readouts_per_execution:%s" % (len(order) if len(order) < 8 else "8-63" if len(order) < 64 else "64-999" if len(order) < 1000 else ">=1000"))
    for c in case["calls"]:
        for k, v in c["popts"].items():
            bump(f"popt:{k}={v}")
    import re

    m = re.search(r"^register ([^\[]*)\[", case["text"], re.M)
    if m and "." in m.group(1):
        bump("dotted_register_name")
    if "__" in case["text"]:
        bump("dunder_name_in_program")


def run(seed: int, n: int, driver: str = DEFAULT_DRIVER, thorough: bool = False) -> dict:
    cases = gen_cases(seed, n, thorough)
    orc = {o: {"cases": 0, "failures": []} for o in ORACLES}
    dist = {}
    samples = []
    distinct = set()
    seen_streams = set()
    for case in cases:
        distinct.add(case["text"])
        _features(case, dist)
        try:
            r = run_case(case)
        except Exception as e:  # never let the script itself crash: report the case
            r = {"evals": {"scale_call_returns": 1}, "fails": {"scale_call_returns": f"harness could not finish the case: {type(e).__name__}: {e}"[:400]}, "feat": {}}
        for o, k in r["evals"].items():
            orc[o]["cases"] += k
        for k, v in r["feat"].items():
            dist[k] = dist.get(k, 0) + v
        for o, d in r["fails"].items():
            orc[o]["cases"] = max(orc[o]["cases"], 1)
            if len(orc[o]["failures"]) < 20:
                orc[o]["failures"].append({"case": case, "detail": d[:800]})
        if r["fails"]:
            dist["failing_cases"] = dist.get("failing_cases", 0) + 1
        sk = (case["stream"], case["dim"])
        if sk not in seen_streams and len(case["text"]) < 1500 and len(samples) < 8:
            seen_streams.add(sk)
            samples.append(case)
    dist["cases"] = len(cases)
    return {"corr": {}, "oracle": orc, "distribution": dist, "samples": samples, "nontrivial": len(distinct)}


def replay(case: dict, driver: str = DEFAULT_DRIVER) -> dict:
    r = run_case(case)
    if r["fails"]:
        return {"oracle_ok": False, "detail": "; ".join(f"{o}: {d}" for o, d in r["fails"].items())[:3000]}
    return {"oracle_ok": True, "detail": "all relations hold (%d evaluations)" % sum(r["evals"].values())}


def main():
    import time

    ap = argparse.ArgumentParser()
    ap.add_argument("--driver", default=DEFAULT_DRIVER)
    ap.add_argument("--seed", type=int, default=0)
    ap.add_argument("--n", type=int, default=300)
    ap.add_argument("--thorough", action="store_true")
    a = ap.parse_args()
    t0 = time.time()
    res = run(a.seed, a.n, a.driver, a.thorough)
    bad = 0
    for name, e in res["oracle"].items():
        print("oracle %-28s %7d cases %4d failures" % (name, e["cases"], len(e["failures"])))
        for d in e["failures"][:3]:
            print("   FAIL", d["detail"][:600])
            c = dict(d["case"])
            c["text"] = c["text"][:500]
            c["expect"] = {"subs": c["expect"]["subs"][:10], "order": c["expect"]["order"][:20]}
            print("        ", json.dumps(c)[:1500])
        bad += len(e["failures"])
    print("distribution:", json.dumps(res["distribution"], sort_keys=True))
    print("nontrivial distinct cases:", res["nontrivial"], " wall %.1fs" % (time.time() - t0))
    sys.exit(1 if bad else 0)


if __name__ == "__main__":
    main()
