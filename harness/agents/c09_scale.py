#!/venv/bin/python
"""C09 at SCALE, with UNUSUAL IDENTIFIERS, and through every DEFAULT / optional parameter of the public functions.

pass1_diff and extra_c09 generate programs of at most a handful of statements, nesting depth <= 3, four macros,
plain names (r, m0, a), and observe them through `expand_subcircuits(c)`, `run_jaqal_circuit(c)` and
`parse_jaqal_output_list(c, [ints])` only.  Here one abstract program (a JSON tree) is generated so that ONE dimension
crosses the sizes 8, 16, 32, 64, 128, 256 (1000 where cheap) while everything else stays small:

    depth    nesting depth 8 .. 128 of loops (and, on the object level, of sequential blocks) around a subcircuit
             block, inside a macro body, inside the subcircuit body, with subcircuits at several levels on the way down
    chain    chains of 8 .. 130 macros (the subcircuit block at the bottom, in the middle, at every third level;
             parameters passed through / swapped), of plain macros called inside a subcircuit, of register aliases
    header   8 .. 1000 let constants / register aliases / macros / macro parameters, of which the first, the 10th/11th,
             the last and a few random ones are used as loop counts, subcircuit iteration counts, qubit indices, calls
    wide     8 .. 1000 statements in ONE block (top level, loop body, macro body, subcircuit body): subcircuit blocks,
             explicit prepare_all/measure_all sections, empty subcircuits, loops with count 0/1/2, macro calls
    iter     loop counts and `subcircuit N { }` iteration counts 8 .. 1000 (literal, let, macro parameter, products
             of nested loops, loops INSIDE a subcircuit body whose parity decides the outcome)
    qubits   registers of 8 .. 14 qubits in the emulator (16 for the output parser alone)
    names    every user-chosen name (register, lets, aliases, macros, macro parameters) is an unusual but legal
             spelling: dotted, pairs that differ by a dotted prefix / suffix only, dunder names, prefixes / extensions
             of keywords and of prepare_all / measure_all, `prepare_all` / `measure_all` themselves where the name
             space is not the gate name space, a parameter that shadows a global name, names of 255 .. 1000 characters;
             NATIVE gates with such names too (`cal.X q[0]`, `__X__`, `prepare_all.x`, `measure_al`, `subcircuit.X`)
    defaults small programs with everything in them (a third of them with SX / HH); like all other cases they cycle
             through the call variants below with co-prime strides, so every variant meets every stream

Every program is rendered in two spellings - `subcircuit k { B }` and `prepare_all; B; measure_all` - through one of
two construction paths (text -> parse_jaqal_string; S-expression -> circuitbuilder.build), and observed through

    expand_subcircuits   (c) | (c, None, None) | (c, prepare_def=None, measure_def=None) | names of the native gates |
                         the native definition objects | names that are not native | the caller's own GateDefinition
                         objects | only one of the two supplied | a circuit without native gates
    run_jaqal_circuit    (c) | backend=UnitarySerializedEmulator() | emulator_backend=... | force_sim=True |
                         backend=None, emulator_backend=None | a recording subclass of the emulator |
                         run_jaqal_string(text, import_path=, [backend=]) | run_jaqal_file(file, [emulator_backend=]) with
                         one or two (repeated) usepulses statements and autoload_pulses=True
    parse_jaqal_output_list  outputs as ints | bit strings | numpy integers | a mix | a tuple | a numpy array

The expectation comes from an independent reference computed from the JSON tree: macro substitution, static numbering of
the prepare/measure sections in flat order, the unrolled visit sequence, and the measured bits of every section (the
gates used are classical permutations and diagonal gates, so each section has ONE possible outcome; a few cases add
SX / HH and are compared between the two spellings only).

oracle (corr is empty):
  scale_terminates          every library call returns within the alarm
  scale_accepted            building the valid program (either spelling, either path) raises nothing
  scale_expand_shape        dump(expand_subcircuits(c, ...)) == the dump of c with every subcircuit block replaced by a
                            sequential block [prepare, *body, measure] and NOTHING else changed (statements, nesting, loop
                            counts, registers, aliases, lets, macros and their order, usepulses, native gates); on the
                            S-expression path additionally == the dump of the explicit program built with such blocks
  scale_no_subcircuit_left  no subcircuit block is reachable from the result (body, macros, definitions behind macro calls)
  scale_bounding_gates      the inserted statements carry the expected names, and the definition is the circuit's native
                            one when present (identity) / the caller's object when supplied
  scale_run_like_explicit   same call on both spellings: same outcome class (result / JaqalError); same number of
                            subcircuits, identical probability vectors, same visit sequence, same sampled outcomes under the
                            same numpy seed; what a recording backend is handed is the same flat program for both
                            spellings and contains no subcircuit block; and where the explicit spelling meets the reference
                            (sections, visits, the one possible outcome) the subcircuit spelling meets it too
  scale_output_like_explicit same for parse_jaqal_output_list with one output per reference visit: same outcome class,
                            same (subcircuit, value) per readout, same per-subcircuit frequencies; reference attribution
A call that the library refuses for the explicit spelling (`Program is nested too deeply` beyond its nesting limit, an
output kind the parser does not take, anything else) is no failure of this property: it is counted in the distribution
(`explicit_spelling_refused:*`) and only demands that the subcircuit spelling is refused as well.

Recommended n: 100 (quick; every size of every stream at least once from n = 113 on), 800 (thorough).

CLI: c09_scale.py [--seed S] [--n N] [--thorough]
"""
import os, sys, json, random, signal, argparse, tempfile, hashlib

DEFAULT_DRIVER = "/verif/lean/.lake/build/bin/jaqal-model"
ORACLES = ("scale_terminates", "scale_accepted", "scale_expand_shape", "scale_no_subcircuit_left", "scale_bounding_gates",
           "scale_run_like_explicit", "scale_output_like_explicit")
STREAMS = ("depth", "chain", "header", "wide", "iter", "qubits", "names", "defaults")
SIZES = {
    "depth": [8, 12, 15, 16, 17, 20, 24, 31, 32, 33, 40, 48, 63, 64, 65, 100, 120, 128],
    "chain": [8, 15, 16, 17, 32, 33, 34, 64, 65, 100, 128, 130],
    "header": [8, 11, 16, 32, 49, 64, 100, 128, 255, 256, 257, 1000],
    "wide": [8, 11, 16, 32, 64, 128, 200, 256, 1000],
    "iter": [8, 16, 32, 34, 64, 100, 128, 256, 1000],
    "qubits": [8, 9, 10, 11, 12, 13, 14, 16],
    "names": [0],
    "defaults": [0],
}
SHAPES = {
    "depth": ["loops", "loops_siblings", "macro", "inside_sub", "half", "blocks"],
    "chain": ["macro_bottom", "macro_levels", "macro_swap", "plain_in_sub", "alias", "alias_macro"],
    "header": ["lets", "maps", "macros", "params", "mixed"],
    "wide": ["top", "loop_body", "macro_body", "sub_body", "last_item", "seq_top"],
    "iter": ["loop", "sub_count", "product", "macro_param", "inside", "let_count"],
    "qubits": ["small"],
    "names": ["odd", "pairs", "long", "shadow", "bounding"],
    "defaults": ["small"],
}
RUN_VARIANTS = ("default", "backend", "emulator_backend", "force_sim", "none_none", "recording", "backend_force_sim",
                "string", "string_backend", "string_two_usepulses", "file", "file_emulator_backend")
EXPAND_VARIANTS = ("default", "none_none", "kw_none", "str_native", "obj_native", "str_other", "obj_other", "prepare_only",
                   "measure_only", "no_native")
OUT_KINDS = ("int", "str", "np_int64", "np_mixed", "mixed", "tuple", "np_array")
# native gates with unusual but legal names (all of them act like X); the same source builds them for inject_pulses= and
# inside the pulse-definition package that the autoloading entry points import
XLIKE = ("cal.X", "X.cal", "__X__", "prepare_all.x", "measure_al", "x.measure_all", "subcircuit.X")
EXTRA_SRC = """
from jaqalpaq.core import GateDefinition as _GD, Parameter as _P, ParamType as _PT
from harness.gates import GATES_IDLE as _GI, U_X as _UX
ALL_GATES = dict(_GI)
for _n in %r:
    ALL_GATES[_n] = _GD(_n, [_P("q", _PT.QUBIT)], ideal_unitary=_UX)
""" % (XLIKE,)
MAX_VISITS = 1100
NEST_LIMIT = 130      # up to this nesting depth / chain length the unchanged library runs every program of this script
_real = {}


class Hang(Exception):
    pass


def _alarm(signum, frame):
    raise Hang()


def _load():
    """import jaqalpaq lazily (no work at import time)"""
    if _real:
        return _real
    os.environ["JAQALPAQ_RUN_EMULATOR"] = "1"
    root = os.path.dirname(os.path.dirname(os.path.dirname(os.path.abspath(__file__))))
    if not os.path.isfile(os.path.join(root, "harness", "gates.py")):
        root = "/verif"
    if root not in sys.path:
        sys.path.insert(0, root)
    import warnings
    warnings.filterwarnings("ignore")
    import numpy
    ns = {}
    exec(EXTRA_SRC, ns)
    GI = ns["ALL_GATES"]
    from harness import timeouts as T
    from jaqalpaq.parser import parse_jaqal_string
    from jaqalpaq.run import run_jaqal_circuit, run_jaqal_string, run_jaqal_file
    from jaqalpaq.emulator.unitary import UnitarySerializedEmulator
    from jaqalpaq.core.algorithm import expand_subcircuits
    from jaqalpaq.core.result import parse_jaqal_output_list
    from jaqalpaq.core import circuitbuilder as CB
    from jaqalpaq.core import GateDefinition, Macro, Parameter, Constant, Register, NamedQubit
    from jaqalpaq.core.gate import GateStatement
    from jaqalpaq.core.block import BlockStatement, LoopStatement
    from jaqalpaq.error import JaqalError

    class RecordingEmulator(UnitarySerializedEmulator):
        """the default emulator, remembering what run_jaqal_circuit hands it"""
        received = None

        def __call__(self, circ):
            self.received = circ
            return super().__call__(circ)

    # a pulse-definition package for the entry points that load the gates themselves (autoload_pulses=True)
    d = tempfile.mkdtemp(prefix="c09scale_")
    import atexit, shutil
    atexit.register(shutil.rmtree, d, True)
    for pkg, extra in (("c09gates", ""), ("c09more", "ALL_GATES['X2'] = ALL_GATES['X']\n")):
        os.makedirs(os.path.join(d, pkg))
        with open(os.path.join(d, pkg, "__init__.py"), "w") as f:
            f.write("")
        with open(os.path.join(d, pkg, "jaqal_gates.py"), "w") as f:
            f.write(f"import sys\nsys.path.insert(0, {root!r}) if {root!r} not in sys.path else None\n" + EXTRA_SRC + extra)
    _real.update(GI=GI, T=T, np=numpy, parse=parse_jaqal_string, run=run_jaqal_circuit, run_string=run_jaqal_string,
                 run_file=run_jaqal_file, USE=UnitarySerializedEmulator, Rec=RecordingEmulator, expand=expand_subcircuits,
                 outlist=parse_jaqal_output_list, build=CB.build, GateDefinition=GateDefinition, Macro=Macro,
                 Parameter=Parameter, Constant=Constant, Register=Register, NamedQubit=NamedQubit, GateStatement=GateStatement,
                 BlockStatement=BlockStatement, LoopStatement=LoopStatement, JaqalError=JaqalError, pulse_dir=d)
    return _real


# ------------------------------------------------------------------------------------------------------------------
# abstract programs
#   prog = {"reg": name, "nq": int, "lets": [[name, int]], "maps": [[name, src, None | idx]], "macros": [[name, [params], [stmt]]],
#           "body": [stmt], "sexpr_only": bool}
#   stmt = ["g", gate, [arg]] | ["c", macro, [arg]] | ["loop", count, [stmt]] | ["par", [stmt]] | ["seq", [stmt]]
#        | ["sub", None | count, [stmt]] | ["P"] | ["M"]
#   arg  = ["r", register_or_alias, idx] | ["n", name] | ["i", int]            count / idx = int | name of a let or parameter
# ------------------------------------------------------------------------------------------------------------------
ONE_Q = ("X", "X", "X", "Z", "S")
TWO_Q = ("CX", "SWAP", "CZ")


def gate_list(rng, pool, k, quantum=False):
    """k ordinary statements for the inside of a section.  pool = [(arg, key)], key identifies the physical qubit."""
    out = []
    for _ in range(k):
        c = rng.random()
        keys = sorted({key for _, key in pool}, key=str)
        if c < 0.55 or len(keys) < 2:
            g = rng.choice(ONE_Q + (("SX",) if quantum else ()))
            out.append(["g", g, [rng.choice(pool)[0]]])
        elif c < 0.8:
            a, b = pick2(rng, pool)
            out.append(["g", rng.choice(TWO_Q + (("HH",) if quantum else ())), [a, b]])
        elif c < 0.87:
            a, b = pick2(rng, pool)
            out.append(["par", [["g", "X", [a]], ["g", rng.choice(("X", "Z")), [b]]]])
        elif c < 0.92:
            a, b = pick2(rng, pool)
            out.append(["par", [["seq", [["g", "X", [a]], ["g", "X", [a]], ["g", "X", [a]]]], ["g", "S", [b]]]])
        elif c < 0.96:
            out.append(["g", "P", [rng.choice(pool)[0], ["i", rng.randrange(0, 7)]]])
        else:
            out.append(["loop", rng.randrange(0, 4), [["g", "X", [rng.choice(pool)[0]]]]])
    return out


def pick2(rng, pool):
    a = rng.choice(pool)
    others = [p for p in pool if p[1] != a[1]]
    return a[0], rng.choice(others)[0]


def qpool(reg, nq):
    return [(["r", reg, i], i) for i in range(nq)]


def base_prog(nq=2, reg="q"):
    return {"reg": reg, "nq": nq, "lets": [], "maps": [], "macros": [], "body": [], "sexpr_only": False}


def a_sub(rng, pool, cnt=None, k=None, quantum=False):
    return ["sub", cnt, gate_list(rng, pool, rng.randrange(0, 4) if k is None else k, quantum)]


def a_section(rng, pool, k=None):
    return [["P"]] + gate_list(rng, pool, rng.randrange(0, 4) if k is None else k) + [["M"]]


def nest_loops(inner, counts):
    for c in reversed(counts):
        inner = [["loop", c, inner]]
    return inner


def depth_counts(rng, d):
    counts = [1] * d
    for _ in range(rng.randrange(0, 3)):
        counts[rng.randrange(d)] = 2
    if rng.random() < 0.15:
        counts[rng.randrange(d)] = 3
    return counts


def gen_depth(rng, shape, d):
    p = base_prog(rng.choice((2, 2, 3)))
    pool = qpool("q", p["nq"])
    if shape == "loops":
        p["body"] = nest_loops([a_sub(rng, pool)], depth_counts(rng, d))
    elif shape == "loops_siblings":
        # subcircuits at several levels on the way down, the innermost one at depth d
        inner = [a_sub(rng, pool, k=1)]
        for lvl in range(d, 0, -1):
            body = inner
            if lvl in (1, 7, 14, 15, 16, 17, 19, 31, 33, d - 1) or rng.random() < 0.04:
                extra = a_sub(rng, pool, k=1) if rng.random() < 0.6 else None
                body = ([extra] if extra else a_section(rng, pool, 1)) + body if rng.random() < 0.5 else body + ([extra] if extra else a_section(rng, pool, 1))
            inner = [["loop", 1, body]]
        p["body"] = inner
    elif shape == "macro":
        mp = [(["n", "a"], "a"), (["n", "b"], "b")]
        p["macros"].append(["deep", ["a", "b"], nest_loops([a_sub(rng, mp)], depth_counts(rng, d))])
        p["body"] = [["c", "deep", [["r", "q", 1], ["r", "q", 0]]]]
        if rng.random() < 0.5:
            p["body"].append(["loop", 2, [["c", "deep", [["r", "q", 0], ["r", "q", 1]]]]])
    elif shape == "inside_sub":
        # the nesting is INSIDE the subcircuit body; a second subcircuit follows it
        g = nest_loops(gate_list(rng, pool, 2), [1] * (d - 1) + [rng.choice((1, 3))])
        p["body"] = [["sub", rng.choice((None, 5)), g], a_sub(rng, pool, k=1)]
    elif shape == "half":
        h = d // 2
        g = nest_loops(gate_list(rng, pool, 1), [1] * (d - h))
        p["body"] = nest_loops([["sub", None, g + gate_list(rng, pool, 1)]] + a_section(rng, pool, 1), depth_counts(rng, h))
    else:  # blocks: sequential blocks nested in each other and in loops (object level only)
        inner = [a_sub(rng, pool, k=1)]
        for lvl in range(d):
            inner = [["seq", inner]] if rng.random() < 0.6 else [["loop", 1, inner]]
            if rng.random() < 0.05:
                inner = inner + [a_sub(rng, pool, k=1)]
        p["body"] = inner
        p["sexpr_only"] = True
    return p


def gen_chain(rng, shape, k):
    p = base_prog(2)
    if shape in ("macro_bottom", "macro_levels", "macro_swap"):
        mp = [(["n", "a"], "a"), (["n", "b"], "b")]
        p["macros"].append(["m0", ["a", "b"], [a_sub(rng, mp, k=2)]])
        special = {k // 2, k - 1, 16, 17, 33}
        for i in range(1, k):
            args = [["n", "b"], ["n", "a"]] if shape == "macro_swap" else [["n", "a"], ["n", "b"]]
            body = [["c", f"m{i-1}", args]]
            if shape == "macro_levels" and (i % 29 == 3 or (i in special and rng.random() < 0.5)):
                body = ([a_sub(rng, mp, k=1)] + body) if rng.random() < 0.5 else (body + a_section(rng, mp, 1))
            if shape == "macro_levels" and i == k // 3:
                body = [["loop", 2, body]]
            p["macros"].append([f"m{i}", ["a", "b"], body])
        tops = [k - 1] + rng.sample(range(k), 2)
        for t in tops:
            p["body"].append(["c", f"m{t}", [["r", "q", 0], ["r", "q", 1]] if rng.random() < 0.5 else [["r", "q", 1], ["r", "q", 0]]])
    elif shape == "plain_in_sub":
        mp = [(["n", "a"], "a")]
        p["macros"].append(["g0", ["a"], gate_list(rng, mp, 1) + [["g", "X", [["n", "a"]]]]])
        for i in range(1, k):
            p["macros"].append([f"g{i}", ["a"], [["c", f"g{i-1}", [["n", "a"]]]] + (gate_list(rng, mp, 1) if i % 17 == 0 else [])])
        p["body"] = [["sub", None, [["c", f"g{k-1}", [["r", "q", 1]]]]], ["P"], ["c", f"g{k//2}", [["r", "q", 0]]], ["M"],
                     ["loop", 2, [["sub", 3, [["c", "g0", [["r", "q", 0]]], ["c", f"g{k-1}", [["r", "q", 1]]]]]]]]
    else:  # alias chains
        p["nq"] = 3
        p["maps"].append(["a0", "q", None])
        for i in range(1, k):
            p["maps"].append([f"a{i}", f"a{i-1}", None])
        p["maps"].append(["one", f"a{k-1}", 2])
        pool = [(["r", f"a{k-1}", 0], 0), (["r", f"a{k//2}", 1], 1), (["n", "one"], 2), (["r", "a0", 0], 0), (["r", "q", 1], 1)]
        if k > 40:      # the library's cost per reference to a long alias chain is cubic in its length: few references
            pool = [(["r", f"a{k-1}", 0], 0), (["r", "q", 1], 1), (["r", "q", 2], 2)]
        if shape == "alias" and k > 40:
            p["body"] = [["loop", 2, [["sub", None, [["g", "X", [["r", f"a{k-1}", 2]]]] + gate_list(rng, pool[1:], 2)]]]]
        elif shape == "alias":
            p["body"] = [a_sub(rng, pool, k=3), ["loop", 2, [a_sub(rng, pool, k=2)]]] + a_section(rng, pool, 2)
        else:
            mp = [(["n", "x"], "x"), (["n", "y"], "y")]
            p["macros"].append(["viaalias", ["x", "y"], [a_sub(rng, mp, k=3 if k <= 40 else 1)]])
            p["body"] = [["c", "viaalias", [["r", f"a{k-1}", 2], ["r", f"a{k//2}" if k <= 40 else "q", 0]]]]
            if k <= 40:
                p["body"].append(["c", "viaalias", [["n", "one"], ["r", "q", 1]]])
    return p


def gen_header(rng, shape, n):
    p = base_prog(3)
    pool = qpool("q", 3)
    picks = sorted({0, min(9, n - 1), min(10, n - 1), n - 1, n - 2, rng.randrange(n), rng.randrange(n)})
    if shape in ("lets", "mixed"):
        for i in range(n):
            p["lets"].append([f"c{i}", rng.randrange(0, 3)])
        for i in picks:
            j = rng.choice(picks)
            qa = ["r", "q", f"c{i}"]
            p["body"].append(["loop", f"c{j}", [["sub", f"c{i}", [["g", "X", [qa]]] + gate_list(rng, pool, 1)]]])
        p["body"].append(["sub", f"c{n-1}", []])
    if shape in ("maps", "mixed"):
        whole = []
        for i in range(n):
            c = rng.random()
            if i == 0 or c < 0.4:
                p["maps"].append([f"a{i}", "q", None])
                whole.append(f"a{i}")
            elif c < 0.7:
                p["maps"].append([f"a{i}", rng.choice(whole[-3:]), None])
                whole.append(f"a{i}")
            else:
                p["maps"].append([f"a{i}", rng.choice(["q"] + whole[-2:]), rng.randrange(3)])
        amap = {m[0]: m for m in p["maps"]}
        apool = []
        for i in picks:
            m = amap[f"a{i}"]
            if m[2] is None:
                k = rng.randrange(3)
                apool.append((["r", m[0], k], k))
            else:
                apool.append((["n", m[0]], m[2]))
        p["body"] += [a_sub(rng, apool, k=3), ["loop", 2, [a_sub(rng, apool + pool, k=2)]]] + a_section(rng, apool, 2)
    if shape in ("macros", "mixed"):
        mp = [(["n", "a"], "a"), (["n", "b"], "b")]
        kinds = []
        for i in range(n):
            sectioning = rng.random() < 0.6 or i in picks
            kinds.append(sectioning)
            if sectioning:
                body = [a_sub(rng, mp, cnt=rng.choice((None, None, 4)), k=rng.randrange(0, 3))]
                if rng.random() < 0.15:
                    body = body + a_section(rng, mp, 1)
                if rng.random() < 0.15:
                    body = [["loop", rng.randrange(0, 3), body]]
                callee = [j for j in range(max(0, i - 4), i) if kinds[j]]
                if callee and rng.random() < 0.2:
                    body.append(["c", f"m{rng.choice(callee)}", [["n", "b"], ["n", "a"]]])
            else:
                body = gate_list(rng, mp, rng.randrange(1, 3))
            p["macros"].append([f"m{i}", ["a", "b"], body])
        for i in picks:
            p["body"].append(["c", f"m{i}", [["r", "q", rng.choice((0, 1))], ["r", "q", 2]]])
        plain = [i for i in range(n) if not kinds[i]]
        if plain:
            p["body"].append(["sub", None, [["c", f"m{plain[-1]}", [["r", "q", 0], ["r", "q", 1]]], ["c", f"m{plain[0]}", [["r", "q", 2], ["r", "q", 1]]]]])
    if shape == "params":
        n = min(n, 257)
        names = [f"p{i}" for i in range(n)]
        used = sorted({0, min(10, n - 1), n - 1})
        p["macros"].append(["many", names, [["sub", None, [["g", "X", [["n", names[i]]]] for i in used]],
                                           ["loop", 2, [["sub", 2, [["g", "X", [["n", names[-1]]]]]]]]]])
        args = [["r", "q", 0]] * n
        args = [list(a) for a in args]
        args[used[-1]] = ["r", "q", 2]
        if len(used) > 1:
            args[used[-2]] = ["r", "q", 1] if used[-2] != used[-1] else args[used[-2]]
        p["body"] = [["c", "many", args]]
    return p


def wide_items(rng, pool, n, macro=None):
    items = []
    while len(items) < n:
        c = rng.random()
        if c < 0.45:
            items.append(a_sub(rng, pool, cnt=rng.choice((None, None, None, 2)), k=rng.randrange(0, 3)))
        elif c < 0.6 and len(items) + 3 <= n:
            items += a_section(rng, pool, 1)
        elif c < 0.7:
            items.append(["sub", None, []])
        elif c < 0.8:
            items.append(["loop", rng.choice((0, 1, 2)), [a_sub(rng, pool, k=1)]])
        elif c < 0.85:
            items.append(["loop", rng.choice((0, 2)), []])
        elif macro and c < 0.95:
            items.append(["c", macro, [rng.choice(pool)[0]]])
        else:
            items.append(a_sub(rng, pool, k=1))
    return items


def gen_wide(rng, shape, n):
    p = base_prog(2)
    pool = qpool("q", 2)
    p["macros"].append(["flip", ["a"], [["sub", None, [["g", "X", [["n", "a"]]]]]]])
    if shape == "top":
        p["body"] = wide_items(rng, pool, n, "flip")
    elif shape == "seq_top":
        p["body"] = [a_sub(rng, pool, k=1), ["seq", wide_items(rng, pool, n, "flip")], a_sub(rng, pool, k=1)]
    elif shape == "loop_body":
        p["body"] = [["loop", 1 if n > 300 else rng.choice((1, 2)), wide_items(rng, pool, n, "flip")]]
    elif shape == "macro_body":
        mp = [(["n", "a"], "a"), (["n", "b"], "b")]
        p["macros"].append(["big", ["a", "b"], wide_items(rng, mp, n)])
        p["body"] = [["c", "big", [["r", "q", 1], ["r", "q", 0]]], a_sub(rng, pool, k=1)]
    elif shape == "sub_body":
        p["body"] = [a_sub(rng, pool, k=1), ["sub", rng.choice((None, 7)), gate_list(rng, pool, n)], a_sub(rng, pool, k=1)]
    else:  # last_item: n-1 fillers that are no subcircuit blocks, the only subcircuit block in the last / first position
        fill = []
        while len(fill) + 3 <= n - 1:
            fill += a_section(rng, pool, 1)
        while len(fill) < n - 1:
            fill.append(["loop", 2, []])
        s = a_sub(rng, pool, k=2)
        p["body"] = fill + [s] if rng.random() < 0.6 else [s] + fill
    return p


def gen_iter(rng, shape, n):
    p = base_prog(2)
    pool = qpool("q", 2)
    if shape == "loop":
        p["body"] = [["loop", n, [a_sub(rng, pool, k=2)]], a_sub(rng, pool, k=1)]
    elif shape == "sub_count":
        p["body"] = [["sub", n, gate_list(rng, pool, 2)], ["loop", 2, [["sub", n + 1, gate_list(rng, pool, 1)]]], ["sub", None, []]]
    elif shape == "product":
        a = rng.choice([x for x in (2, 3, 4, 8) if x <= n])
        p["body"] = [["loop", a, [["loop", max(1, n // a), [a_sub(rng, pool, k=1)]], a_sub(rng, pool, k=1)]]]
    elif shape == "macro_param":
        p["macros"].append(["rep", ["k", "a"], [["loop", "k", [["sub", "k", [["g", "X", [["n", "a"]]]]]]]]])
        p["body"] = [["c", "rep", [["i", n], ["r", "q", 1]]], ["c", "rep", [["i", 0], ["r", "q", 0]]], ["c", "rep", [["i", 1], ["r", "q", 0]]]]
    elif shape == "inside":
        # a loop of n (and n+1) flips inside the section: parity decides the outcome
        p["body"] = [["sub", None, [["loop", n, [["g", "X", [["r", "q", 0]]]]], ["loop", n + 1, [["g", "X", [["r", "q", 1]]]]]]],
                     ["P"], ["loop", n + 1, [["g", "X", [["r", "q", 0]]]]], ["M"],
                     ["loop", 2, [["sub", 3, [["loop", n, [["g", "CX", [["r", "q", 0], ["r", "q", 1]]], ["g", "X", [["r", "q", 0]]]]]]]]]]
    else:  # let_count
        p["lets"] = [["big", n], ["zero", 0], ["one", 1]]
        p["body"] = [["loop", "big", [["sub", "big", gate_list(rng, pool, 1)]]], ["loop", "zero", [a_sub(rng, pool, cnt="big", k=1)]],
                     ["loop", "one", [a_sub(rng, pool, cnt="zero", k=1)]]]
    return p


def gen_small(rng, nq=None, names=None, quantum=False):
    """a small program with everything in it; names: None or a function kind,i -> identifier"""
    nm = names or (lambda kind, i: {"reg": "q", "let": f"c{i}", "map": f"a{i}", "single": f"s{i}", "macro": f"m{i}", "plain": f"g{i}", "param": "xyzw"[i]}[kind])
    nq = nq or rng.choice((2, 2, 3))
    reg = nm("reg", 0)
    p = base_prog(nq, reg)
    p["lets"] = [[nm("let", 0), 2], [nm("let", 1), 0], [nm("let", 2), 1]][: rng.randrange(1, 4)]
    let = lambda: rng.choice(p["lets"])
    pool = qpool(reg, nq)
    if rng.random() < 0.7:
        p["maps"].append([nm("map", 0), reg, None])
        pool += [(["r", nm("map", 0), i], i) for i in range(nq)]
        if rng.random() < 0.5:
            p["maps"].append([nm("map", 1), nm("map", 0), None])
            pool.append((["r", nm("map", 1), nq - 1], nq - 1))
    if rng.random() < 0.6:
        k = rng.randrange(nq)
        p["maps"].append([nm("single", 0), reg, k])
        pool.append((["n", nm("single", 0)], k))
    ones = [l for l in p["lets"] if l[1] < nq]
    if ones:
        l = rng.choice(ones)
        pool.append((["r", reg, l[0]], l[1]))
    pa, pb = nm("param", 0), nm("param", 1)
    mp = [(["n", pa], pa), (["n", pb], pb)]
    plain, sect = [], []
    for i in range(rng.randrange(1, 4)):
        if rng.random() < 0.35:
            name = nm("plain", i)
            p["macros"].append([name, [pa, pb], gate_list(rng, mp, rng.randrange(1, 3), quantum) + ([["c", plain[-1], [["n", pb], ["n", pa]]]] if plain and rng.random() < 0.5 else [])])
            plain.append(name)
        else:
            name = nm("macro", i)
            body = []
            for _ in range(rng.randrange(1, 3)):
                c = rng.random()
                inner = gate_list(rng, mp, rng.randrange(0, 3), quantum) + ([["c", plain[-1], [["n", pa], ["n", pb]]]] if plain and rng.random() < 0.4 else [])
                if c < 0.5:
                    body.append(["sub", rng.choice((None, 3, let()[0])), inner])
                elif c < 0.65:
                    body += [["P"]] + inner + [["M"]]
                elif c < 0.85:
                    body.append(["loop", rng.choice((0, 1, 2, let()[0])), [["sub", None, inner]]])
                elif sect:
                    body.append(["c", rng.choice(sect), [["n", pb], ["n", pa]]])
                else:
                    body.append(["sub", None, []])
            p["macros"].append([name, [pa, pb], body])
            sect.append(name)

    def inner_gates():
        g = gate_list(rng, pool, rng.randrange(0, 4), quantum)
        if plain and rng.random() < 0.4:
            a, b = pick2(rng, pool)
            g.insert(rng.randrange(len(g) + 1), ["c", rng.choice(plain), [a, b]])
        return g

    def items(depth, k):
        out = []
        for _ in range(k):
            c = rng.random()
            if c < 0.35:
                out.append(["sub", rng.choice((None, None, 2, 0, let()[0])), inner_gates()])
            elif c < 0.5:
                out += [["P"]] + inner_gates() + [["M"]]
            elif c < 0.7 and depth < 3:
                out.append(["loop", rng.choice((0, 1, 2, 3, let()[0])), items(depth + 1, rng.randrange(0, 3))])
            elif c < 0.9 and sect:
                a, b = pick2(rng, pool)
                out.append(["c", rng.choice(sect), [a, b]])
            elif depth == 0:
                out.append(["seq", items(3, rng.randrange(0, 3))])
            else:
                out.append(["sub", None, []])
        return out

    p["body"] = items(0, rng.randrange(1, 5))
    if not any(s[0] == "sub" for s in walk_all(p)):
        p["body"].append(["sub", None, inner_gates()])
    return p


def walk_all(p):
    def rec(stmts):
        for s in stmts:
            yield s
            if s[0] in ("loop", "sub"):
                yield from rec(s[2])
            elif s[0] in ("par", "seq"):
                yield from rec(s[1])
    yield from rec(p["body"])
    for m in p["macros"]:
        yield from rec(m[2])


ODD = ["cal.x", "x.cal", "a.b.c", "x.y.z.w", "__macro__", "__c10", "__r0", "__in_context__", "_", "__", "_0", "_1._2", "loo", "loop_", "loops",
       "loop.x", "x.loop", "sub", "subcircui", "subcircuit_", "subcircuits", "subcircuit.x", "x.subcircuit", "prepare", "prepare_al",
       "prepare_all_", "prepare_all2", "prepare_all.x", "x.prepare_all", "_prepare_all", "measure", "measure_al", "measure_all_",
       "measure_all.m", "m.measure_all", "measure_all0", "Prepare_all", "PREPARE_ALL", "Measure_All", "le", "lett", "let.x", "ma", "mapp",
       "map.map", "macr", "macros", "macro.m", "registe", "reg", "register.q", "fro", "from.x", "a_s", "as.x", "usepulse", "usepulses.x",
       "branc", "impor", "import.y", "p0", "p1", "self", "None", "all", "lambda", "statements", "subcircuit_block", "sequential_block", "gate",
       "array_item", "X.q", "q.X", "x.X", "I", "I_", "pi", "e1", "inf", "nan", "x1e5", "b01", "q0", "q.0", "q.1", "r.q", "q.q", "q.r"]
ODD = [x for x in ODD if x not in XLIKE]      # a macro may not carry the name of a native gate
GATEISH = ["prepare_all", "measure_all"]    # legal wherever the name does not live in the gate name space (lets, aliases, registers, parameters)


def gen_names(rng, shape):
    if shape == "long":
        L = rng.choice((255, 256, 257, 300, 1000))
        stem = rng.choice(("n", "prepare_all", "x.", "_"))
        base = (stem * (L // len(stem) + 1))[:L].rstrip(".")
        return gen_small(rng, names=lambda kind, i: f"{base}{kind[0]}{i}")
    if shape == "pairs":
        # all names differ by a dotted prefix / suffix of ONE stem
        stem = rng.choice(("x", "q", "cal", "prepare_all", "m", "loop_"))
        forms = [stem + "." + stem, "a." + stem, stem + ".a", "a." + stem + ".a", stem + "._", "_." + stem, stem + "." + stem + "." + stem,
                 stem + ".b", "b." + stem, stem + ".0", "z." + stem, stem + ".z", stem + "_", "_" + stem, stem + "0", stem + ".a.b", "b.a." + stem,
                 stem + ".q", "q." + stem, "c." + stem, stem + ".c", stem + ".d", "d." + stem]
        if stem not in ("prepare_all",):
            forms.append(stem)
        forms = list(dict.fromkeys(forms))      # stem "q" makes some of them coincide
        rng.shuffle(forms)
        table = {}
        return gen_small(rng, names=lambda kind, i: table.setdefault((kind, i), forms[len(table)]))
    if shape == "shadow":
        # macro parameters carry the names of globals (a let, an alias, the register) that the macro body does not use
        p = json.loads(json.dumps(gen_small(rng)))      # no shared argument lists: the renaming below is per macro
        glob = [l[0] for l in p["lets"]] + [m[0] for m in p["maps"]] + [p["reg"]]
        ren = {"x": rng.choice(glob)}
        ren["y"] = rng.choice([g for g in glob if g != ren["x"]] or ["y"])
        for m in p["macros"]:
            used = {a[1] for s in _flat(m[2]) if s[0] in ("g", "c") for a in s[2] if a[0] in ("r",)} | \
                   {s[1] for s in _flat(m[2]) if s[0] in ("loop", "sub") and isinstance(s[1], str)}
            r = {k: v for k, v in ren.items() if v not in used}
            m[1] = [r.get(x, x) for x in m[1]]
            _rename(m[2], r)
        return p
    pool = list(ODD)
    rng.shuffle(pool)
    if shape == "bounding":
        pool = [x for x in pool if "prepare" in x.lower() or "measure" in x.lower() or "sub" in x] + pool
    table = {}

    def nm(kind, i):
        if (kind, i) not in table:
            if kind not in ("macro", "plain") and rng.random() < (0.5 if shape == "bounding" else 0.08) and GATEISH:
                cand = [g for g in GATEISH if g not in table.values()]
                if cand:
                    table[(kind, i)] = rng.choice(cand)
                    return table[(kind, i)]
            table[(kind, i)] = next(x for x in pool if x not in table.values())
        return table[(kind, i)]
    return gen_small(rng, names=nm)


def _flat(stmts):
    for s in stmts:
        yield s
        if s[0] in ("loop", "sub"):
            yield from _flat(s[2])
        elif s[0] in ("par", "seq"):
            yield from _flat(s[1])


def _rename(stmts, r):
    for s in _flat(stmts):
        if s[0] in ("g", "c"):
            for a in s[2]:
                if a[0] == "n" and a[1] in r:
                    a[1] = r[a[1]]


def make_prog(spec):
    rng = random.Random(f"c09scale/{spec['stream']}/{spec['shape']}/{spec['size']}/{spec['rs']}")
    st, sh, n = spec["stream"], spec["shape"], spec["size"]
    if st == "depth":
        return gen_depth(rng, sh, n)
    if st == "chain":
        return gen_chain(rng, sh, n)
    if st == "header":
        return gen_header(rng, sh, n)
    if st == "wide":
        return gen_wide(rng, sh, n)
    if st == "iter":
        return gen_iter(rng, sh, n)
    if st == "qubits":
        return gen_small(rng, nq=n)
    if st == "names":
        p = json.loads(json.dumps(gen_names(rng, sh)))
        for s in walk_all(p):
            if s[0] == "g" and s[1] == "X" and rng.random() < 0.6:
                s[1] = rng.choice(XLIKE)
        return p
    return gen_small(rng, quantum=rng.random() < 0.3)


# ------------------------------------------------------------------------------------------------------------------
# rendering
# ------------------------------------------------------------------------------------------------------------------
def t_arg(a):
    return f"{a[1]}[{a[2]}]" if a[0] == "r" else str(a[1])


def t_stmts(stmts, style, out, ind):
    pad = " " * min(ind, 8)
    for s in stmts:
        k = s[0]
        if k in ("g", "c"):
            out.append(pad + " ".join([s[1]] + [t_arg(a) for a in s[2]]))
        elif k == "P":
            out.append(pad + "prepare_all")
        elif k == "M":
            out.append(pad + "measure_all")
        elif k == "loop":
            out.append(f"{pad}loop {s[1]} {{")
            t_stmts(s[2], style, out, ind + 1)
            out.append(pad + "}")
        elif k == "seq":
            out.append(pad + "{")
            t_stmts(s[1], style, out, ind + 1)
            out.append(pad + "}")
        elif k == "par":
            parts = []
            for x in s[1]:
                if x[0] == "seq":
                    sub = []
                    t_stmts(x[1], style, sub, 0)
                    parts.append("{ " + " ; ".join(sub) + " }")
                else:
                    parts.append(" ".join([x[1]] + [t_arg(a) for a in x[2]]))
            out.append(pad + "< " + " | ".join(parts) + " >")
        elif k == "sub":
            if style == "sub":
                out.append(f"{pad}subcircuit {'' if s[1] is None else str(s[1]) + ' '}{{")
                t_stmts(s[2], style, out, ind + 1)
                out.append(pad + "}")
            else:
                out.append(pad + "prepare_all")
                t_stmts(s[2], style, out, ind)
                out.append(pad + "measure_all")


def to_text(p, style, usepulses=()):
    out = [f"from {u} usepulses *" for u in usepulses]
    out.append(f"register {p['reg']}[{p['nq']}]")
    for n, v in p["lets"]:
        out.append(f"let {n} {v}")
    for n, src, idx in p["maps"]:
        out.append(f"map {n} {src}" + ("" if idx is None else f"[{idx}]"))
    for n, params, body in p["macros"]:
        out.append("macro " + " ".join([n] + params) + " {")
        t_stmts(body, style, out, 1)
        out.append("}")
    t_stmts(p["body"], style, out, 0)
    return "\n".join(out) + "\n"


def s_arg(a):
    return ("array_item", a[1], a[2]) if a[0] == "r" else a[1]


def s_stmts(stmts, style):
    out = []
    for s in stmts:
        k = s[0]
        if k in ("g", "c"):
            out.append(("gate", s[1]) + tuple(s_arg(a) for a in s[2]))
        elif k == "P":
            out.append(("gate", "prepare_all"))
        elif k == "M":
            out.append(("gate", "measure_all"))
        elif k == "loop":
            out.append(("loop", s[1], ("sequential_block",) + tuple(s_stmts(s[2], style))))
        elif k == "seq":
            out.append(("sequential_block",) + tuple(s_stmts(s[1], style)))
        elif k == "par":
            out.append(("parallel_block",) + tuple(s_stmts(s[1], style)))
        elif k == "sub":
            inner = tuple(s_stmts(s[2], style))
            if style == "sub":
                out.append(("subcircuit_block", "" if s[1] is None else s[1]) + inner)
            elif style == "block":      # exactly what the expansion is to produce
                out.append(("sequential_block", ("gate", "prepare_all")) + inner + (("gate", "measure_all"),))
            else:
                out += [("gate", "prepare_all"), *inner, ("gate", "measure_all")]
    return out


def to_sexpr(p, style):
    out = ["circuit", ("register", p["reg"], p["nq"])]
    for n, v in p["lets"]:
        out.append(("let", n, v))
    for n, src, idx in p["maps"]:
        out.append(("map", n, src) if idx is None else ("map", n, src, idx))
    for n, params, body in p["macros"]:
        out.append(("macro", n, *params, ("sequential_block",) + tuple(s_stmts(body, style))))
    out += s_stmts(p["body"], style)
    return tuple(out)


# ------------------------------------------------------------------------------------------------------------------
# the independent reference
# ------------------------------------------------------------------------------------------------------------------
class RefError(Exception):
    pass


class Ref:
    """sections in flat order, unrolled visits, and the one possible outcome of every section (None when it uses SX / HH)"""

    def __init__(self, p):
        self.nq = p["nq"]
        self.lets = {n: v for n, v in p["lets"]}
        self.regs = {p["reg"]: list(range(p["nq"]))}
        self.single = {}
        for n, src, idx in p["maps"]:
            base = self.regs[src]
            if idx is None:
                self.regs[n] = base
            else:
                self.single[n] = base[self.val(idx, {})]
        self.macros = {n: (params, body) for n, params, body in p["macros"]}
        self.outcomes = []
        self.gates = 0
        self.tree = self.static(p["body"], {})
        self.visits = []
        self.dyn(self.tree)

    def val(self, x, penv):
        if isinstance(x, int):
            return x
        if x in penv:
            k, v = penv[x]
            if k != "i":
                raise RefError(f"{x} is not a number")
            return v
        return self.lets[x]

    def arg(self, a, penv):
        if a[0] == "i":
            return ("i", a[1])
        if a[0] == "r":
            return ("q", self.regs[a[1]][self.val(a[2], penv)])
        n = a[1]
        if n in penv:
            return penv[n]
        if n in self.single:
            return ("q", self.single[n])
        return ("i", self.lets[n])

    def static(self, stmts, penv):
        nodes = []
        i = 0
        while i < len(stmts):
            s = stmts[i]
            k = s[0]
            if k == "P":
                j = i + 1
                while stmts[j][0] != "M":
                    j += 1
                nodes.append(("sec", self.section(stmts[i + 1:j], penv)))
                i = j
            elif k == "sub":
                nodes.append(("sec", self.section(s[2], penv)))
            elif k == "loop":
                inner = self.static(s[2], penv)
                nodes.append(("loop", self.val(s[1], penv), inner, any(nd[0] == "sec" or nd[3] for nd in inner)))
            elif k == "seq":
                nodes += self.static(s[1], penv)
            elif k == "c":
                params, body = self.macros[s[1]]
                nodes += self.static(body, {pn: self.arg(a, penv) for pn, a in zip(params, s[2])})
            else:
                raise RefError(f"statement {s[:2]} outside a section")
            i += 1
        return nodes

    def section(self, stmts, penv):
        bits = [0] * self.nq
        self.quantum = False
        self.sim(stmts, penv, bits)
        self.outcomes.append(None if self.quantum else sum(b << k for k, b in enumerate(bits)))
        return len(self.outcomes) - 1

    def sim(self, stmts, penv, bits):
        for s in stmts:
            k = s[0]
            if k == "g":
                self.gates += 1
                if self.gates > 400000:
                    raise RefError("too many gate applications")
                q = [self.arg(a, penv)[1] for a in s[2]]
                g = s[1]
                if g == "X" or g in XLIKE:
                    bits[q[0]] ^= 1
                elif g == "CX":
                    bits[q[1]] ^= bits[q[0]]
                elif g == "SWAP":
                    bits[q[0]], bits[q[1]] = bits[q[1]], bits[q[0]]
                elif g in ("SX", "HH"):
                    self.quantum = True
                elif g not in ("Z", "S", "CZ", "P"):
                    raise RefError(f"unknown gate {g}")
            elif k == "loop":
                n = self.val(s[1], penv)
                for _ in range(n):
                    self.sim(s[2], penv, bits)
            elif k in ("par", "seq"):
                self.sim(s[1], penv, bits)
            elif k == "c":
                params, body = self.macros[s[1]]
                self.sim(body, {pn: self.arg(a, penv) for pn, a in zip(params, s[2])}, bits)
            else:
                raise RefError(f"{k} inside a section")

    def dyn(self, nodes):
        for nd in nodes:
            if nd[0] == "sec":
                self.visits.append(nd[1])
                if len(self.visits) > MAX_VISITS:
                    raise RefError("too many visits")
            elif nd[3]:
                for _ in range(nd[1]):
                    self.dyn(nd[2])


# ------------------------------------------------------------------------------------------------------------------
# dumps of real objects
# ------------------------------------------------------------------------------------------------------------------
def d_val(R, v):
    if isinstance(v, R["NamedQubit"]):
        src = v.alias_from
        return ["q", v.name, getattr(src, "name", None), d_val(R, v.alias_index)]
    if isinstance(v, R["Constant"]):
        return ["let", v.name, repr(v.value)]
    if isinstance(v, R["Parameter"]):
        return ["param", v.name, str(v.kind)]
    if isinstance(v, R["Register"]):
        return ["reg", v.name]
    if isinstance(v, (int, float)):
        return ["num", repr(v)]
    return ["other", type(v).__name__, repr(v)[:80]]


def d_stmt(R, s):
    """iterative-free recursive dump; depth is bounded by the generators (<= 160 levels, 3 frames each)"""
    if isinstance(s, R["GateStatement"]):
        gd = s.gate_def
        return ["g", s.name, "macro" if isinstance(gd, R["Macro"]) else "gate", [[k, d_val(R, v)] for k, v in s.parameters.items()]]
    if isinstance(s, R["LoopStatement"]):
        return ["loop", d_val(R, s.iterations), d_stmt(R, s.statements)]
    if isinstance(s, R["BlockStatement"]):
        return ["blk", type(s).__name__, bool(s.parallel), bool(s.subcircuit), d_val(R, s.iterations), [d_stmt(R, x) for x in s.statements]]
    return ["other", type(s).__name__]


def d_circuit(R, c):
    regs = []
    for n, r in c.registers.items():
        if isinstance(r, R["NamedQubit"]):
            regs.append([n, "single"] + d_val(R, r))
        elif r.fundamental:
            regs.append([n, r.name, "fundamental", d_val(R, r.size)])
        else:
            sl = r.alias_slice
            regs.append([n, r.name, "alias", r.alias_from.name, None if sl is None else [d_val(R, x) if x is not None else None for x in (sl.start, sl.stop, sl.step)]])
    return {"registers": regs,
            "constants": [[n, v.name, repr(v.value)] for n, v in c.constants.items()],
            "macros": [[n, m.name, [[x.name, str(x.kind)] for x in m.parameters], d_stmt(R, m.body)] for n, m in c.macros.items()],
            "usepulses": [[str(u.module), "all" if u.names is all else list(u.names)] for u in c.usepulses],
            "native": list(c.native_gates.keys()),
            "body": d_stmt(R, c.body)}


def t_dump(d, pname, mname):
    """the property's transformation, applied to a dump: a subcircuit block becomes the sequential block [prepare, *body, measure]"""
    if d[0] == "blk":
        inner = [t_dump(x, pname, mname) for x in d[5]]
        if d[3]:
            return ["blk", "BlockStatement", d[2], False, ["num", "1"], [["g", pname, "gate", []]] + inner + [["g", mname, "gate", []]]]
        return ["blk", d[1], d[2], False, d[4], inner]
    if d[0] == "loop":
        return ["loop", d[1], t_dump(d[2], pname, mname)]
    return d


def t_circuit(dc, pname, mname):
    out = dict(dc)
    out["macros"] = [[n, mn, ps, t_dump(b, pname, mname)] for n, mn, ps, b in dc["macros"]]
    out["body"] = t_dump(dc["body"], pname, mname)
    return out


def _short(path):
    return path if len(path) <= 90 else f"{path[:20]}...({len(path)} characters)...{path[-50:]}"


def first_diff(a, b, path="$"):
    r = _first_diff(a, b, path)
    return r and (_short(r.split(": ", 1)[0]) + ": " + r.split(": ", 1)[1] if ": " in r else _short(r))


def _first_diff(a, b, path="$"):
    if type(a) != type(b):
        return f"{path}: {str(a)[:80]} != {str(b)[:80]}"
    if isinstance(a, dict):
        for k in a:
            if k not in b:
                return f"{path}.{k} missing"
            r = _first_diff(a[k], b[k], f"{path}.{k}")
            if r:
                return r
        return None if set(a) == set(b) else f"{path}: keys differ"
    if isinstance(a, list):
        if len(a) != len(b) and all(not isinstance(x, list) for x in a + b):
            return f"{path}: {str(a)[:80]} != {str(b)[:80]}"
        for i, (x, y) in enumerate(zip(a, b)):
            r = _first_diff(x, y, f"{path}[{i}]")
            if r:
                return r
        return None if len(a) == len(b) else f"{path}: length {len(a)} != {len(b)}"
    return None if a == b else f"{path}: {str(a)[:80]} != {str(b)[:80]}"


def flat_dump(d, out=None):
    """a dumped block with sequential-in-sequential nesting removed (what `written prepare_all; B; measure_all` looks like)"""
    if out is None:
        out = []
    for x in d[5]:
        if x[0] == "blk" and not x[2] and not x[3] and not d[2]:
            flat_dump(x, out)
        elif x[0] == "blk":
            out.append(["blk", x[2], x[3], flat_dump(x, [])])
        elif x[0] == "loop":
            out.append(["loop", x[1], flat_dump(x[2], [])])
        else:
            out.append(x)
    return out


def subcircuits_left(R, c):
    bad, seen = [], set()
    stack = [(c.body, "body")] + [(m.body, f"macro {n}") for n, m in c.macros.items()]
    while stack:
        s, where = stack.pop()
        if isinstance(s, R["BlockStatement"]):
            if s.subcircuit:
                bad.append(where)
            stack += [(x, f"{where}[{k}]") for k, x in enumerate(s.statements)]
        elif isinstance(s, R["LoopStatement"]):
            stack.append((s.statements, where + ".loop"))
        elif isinstance(s, R["GateStatement"]):
            gd = s.gate_def
            if isinstance(gd, R["Macro"]) and id(gd) not in seen:
                seen.add(id(gd))
                stack.append((gd.body, f"{where} -> definition of {s.name}"))
    return bad


def bounding_statements(R, cin, cout):
    """(first, last) statements of every block of the result that stands where the input has a subcircuit block
    (the two circuits are walked in parallel; a shape mismatch is the business of scale_expand_shape)"""
    found = []
    stack = [(cin.body, cout.body)] + [(m.body, cout.macros[n].body) for n, m in cin.macros.items() if n in cout.macros]
    while stack:
        a, b = stack.pop()
        if isinstance(a, R["BlockStatement"]) and isinstance(b, R["BlockStatement"]):
            sa, sb = list(a.statements), list(b.statements)
            if a.subcircuit:
                if len(sb) != len(sa) + 2:
                    continue
                found.append((sb[0], sb[-1]))
                sb = sb[1:-1]
            stack += list(zip(sa, sb))
        elif isinstance(a, R["LoopStatement"]) and isinstance(b, R["LoopStatement"]):
            stack.append((a.statements, b.statements))
    return found


# ------------------------------------------------------------------------------------------------------------------
# one case
# ------------------------------------------------------------------------------------------------------------------
class Collector:
    def __init__(self):
        self.oracle = {o: {"cases": 0, "failures": []} for o in ORACLES}
        self.dist = {}

    def case(self, name, ok, case, detail):
        o = self.oracle[name]
        o["cases"] += 1
        if not ok and len(o["failures"]) < 20:
            o["failures"].append({"case": case, "detail": detail})
        elif not ok:
            self.count("failures_not_listed:" + name)

    def count(self, key, k=1):
        self.dist[key] = self.dist.get(key, 0) + k


def size_class(n):
    for t in (8, 16, 32, 64, 128, 256, 1000):
        if n < t:
            return f"<{t}"
    return ">=1000"


def make_outputs(R, kind, rng, nvis, nq):
    np = R["np"]
    vals = [rng.randrange(2 ** nq) for _ in range(nvis)]
    for i in range(0, nvis, 7):
        vals[i] = rng.choice((0, 2 ** nq - 1, 2 ** (nq - 1)))
    bits = lambda v: "".join("1" if (v >> k) & 1 else "0" for k in range(nq))
    if kind == "int":
        return vals, vals
    if kind == "str":
        return [bits(v) for v in vals], vals
    if kind == "np_int64":
        return [np.int64(v) for v in vals], vals
    if kind == "np_mixed":
        ts = (np.int64, np.int32, np.uint32, np.uint64, np.int16 if nq < 15 else np.int64, np.uint16 if nq <= 16 else np.int64, np.intp)
        return [ts[i % len(ts)](v) for i, v in enumerate(vals)], vals
    if kind == "mixed":
        return [v if i % 3 == 0 else bits(v) if i % 3 == 1 else np.int64(v) for i, v in enumerate(vals)], vals
    if kind == "tuple":
        return tuple(vals), vals
    return np.array(vals, dtype=np.int64), vals


def build_one(R, p, path, style):
    if path == "sexpr":
        return R["build"](to_sexpr(p, style), inject_pulses=R["GI"])
    return R["parse"](to_text(p, style), inject_pulses=R["GI"], autoload_pulses=False)


def usepulses_for(run_variant):
    if not run_variant.startswith(("string", "file")):
        return ()
    return {"string_two_usepulses": (".c09gates", ".c09more"), "file_emulator_backend": (".c09gates", ".c09gates")}.get(run_variant, (".c09gates",))


def call_run(R, variant, circ, text, seed):
    """-> (result, received circuit or None)"""
    R["np"].random.seed(seed)
    U = R["USE"]
    if variant == "default":
        return R["run"](circ), None
    if variant == "backend":
        return R["run"](circ, backend=U()), None
    if variant == "emulator_backend":
        return R["run"](circ, emulator_backend=U()), None
    if variant == "force_sim":
        return R["run"](circ, force_sim=True), None
    if variant == "none_none":
        return R["run"](circ, backend=None, force_sim=False, emulator_backend=None), None
    if variant == "backend_force_sim":
        return R["run"](circ, U(), True), None
    if variant == "recording":
        b = R["Rec"]()
        r = R["run"](circ, backend=b)
        return r, b.received
    if variant in ("string", "string_two_usepulses"):
        return R["run_string"](text, import_path=R["pulse_dir"]), None
    if variant == "string_backend":
        b = R["Rec"]()
        r = R["run_string"](text, R["pulse_dir"], backend=b)
        return r, b.received
    fn = os.path.join(R["pulse_dir"], "prog_%s.jaqal" % hashlib.md5(text.encode()).hexdigest()[:12])
    with open(fn, "w") as f:
        f.write(text)
    try:
        if variant == "file":
            return R["run_file"](fn), None
        return R["run_file"](fn, emulator_backend=U()), None
    finally:
        os.unlink(fn)


def summarize_run(R, r):
    np = R["np"]
    return {"nsub": len(r.subcircuits),
            "probs": [np.asarray(s.probability_by_int) for s in r.subcircuits],
            "visits": [x.subcircuit.index for x in r.readouts],
            "values": [int(x.as_int) for x in r.readouts],
            "strs": [x.as_str for x in r.readouts],
            "idx": [x.index for x in r.readouts],
            "own": [[x.index for x in s.readouts] for s in r.subcircuits]}


def summarize_out(R, r, with_freq):
    np = R["np"]
    return {"nsub": len(r.subcircuits),
            "visits": [x.subcircuit.index for x in r.readouts],
            "values": [int(x.as_int) for x in r.readouts],
            "strs": [x.as_str for x in r.readouts],
            "idx": [x.index for x in r.readouts],
            "own": [[x.index for x in s.readouts] for s in r.subcircuits],
            "freq": [np.asarray(s.relative_frequency_by_int) for s in r.subcircuits] if with_freq else None}


def same_summary(R, a, b):
    np = R["np"]
    for k in a:
        x, y = a[k], b[k]
        if k in ("probs", "freq"):
            if x is None and y is None:
                continue
            if len(x) != len(y) or not all(u.shape == v.shape and np.array_equal(u, v) for u, v in zip(x, y)):
                i = next((i for i, (u, v) in enumerate(zip(x, y)) if u.shape != v.shape or not np.array_equal(u, v)), None)
                return f"{k} differ (first at subcircuit {i}; {len(x)} vs {len(y)} subcircuits)"
        elif x != y:
            return f"{k}: {str(x)[:120]} != {str(y)[:120]}"
    return None


def ref_run(ref, ss):
    msgs = []
    if ss["nsub"] != len(ref.outcomes):
        msgs.append(f"{ss['nsub']} subcircuits, reference {len(ref.outcomes)}")
    elif ss["visits"] != ref.visits:
        msgs.append(f"visit sequence {str(ss['visits'])[:80]} != reference {str(ref.visits)[:80]}")
    else:
        for i, sidx in enumerate(ss["visits"]):
            o = ref.outcomes[sidx]
            if o is not None and ss["values"][i] != o:
                msgs.append(f"readout {i} of subcircuit {sidx} is {ss['values'][i]}, the only possible outcome is {o}")
                break
        for sidx, o in enumerate(ref.outcomes):
            if o is not None and abs(float(ss["probs"][sidx][o]) - 1.0) > 1e-9:
                msgs.append(f"subcircuit {sidx}: probability of the only possible outcome {o} is {ss['probs'][sidx][o]}")
                break
    return msgs


def ref_out(ref, ss, vals):
    msgs = []
    if ss["nsub"] != len(ref.outcomes):
        msgs.append(f"{ss['nsub']} subcircuits, reference {len(ref.outcomes)}")
    elif ss["visits"] != ref.visits:
        msgs.append(f"attribution {str(ss['visits'])[:80]} != reference {str(ref.visits)[:80]}")
    elif ss["values"] != vals:
        msgs.append(f"values {str(ss['values'])[:80]} != the outputs given {str(vals)[:80]}")
    return msgs


def attempt(R, fn):
    """-> ("ok", value) | (name of the exception class, message); only a time-out propagates"""
    try:
        return "ok", fn()
    except Hang:
        raise
    except Exception as e:
        return type(e).__name__, str(e)


def expand_call(R, variant, c):
    """-> (result, expected prepare name, expected measure name, check(first, last) -> str | None)"""
    GD = R["GateDefinition"]
    ng = c.native_gates
    native = lambda name: (lambda st: None if st.gate_def is ng[name] else f"the definition of the inserted {name} is not the circuit's native one")
    if variant in ("default", "no_native"):
        e = R["expand"](c)
        chk = (native("prepare_all"), native("measure_all")) if "prepare_all" in ng else (None, None)
        return e, "prepare_all", "measure_all", chk
    if variant == "none_none":
        return R["expand"](c, None, None), "prepare_all", "measure_all", (native("prepare_all"), native("measure_all"))
    if variant == "kw_none":
        return R["expand"](c, measure_def=None, prepare_def=None), "prepare_all", "measure_all", (native("prepare_all"), native("measure_all"))
    if variant == "str_native":
        return R["expand"](c, "prepare_all", "measure_all"), "prepare_all", "measure_all", (native("prepare_all"), native("measure_all"))
    if variant == "obj_native":
        return R["expand"](c, ng["prepare_all"], measure_def=ng["measure_all"]), "prepare_all", "measure_all", (native("prepare_all"), native("measure_all"))
    if variant == "str_other":
        isdef = lambda name: (lambda st: None if isinstance(st.gate_def, GD) and st.gate_def.name == name else f"inserted {name}: unexpected definition {st.gate_def!r}")
        return R["expand"](c, "prep.are", measure_def="__measure__"), "prep.are", "__measure__", (isdef("prep.are"), isdef("__measure__"))
    own = lambda d: (lambda st: None if st.gate_def is d else f"the definition of the inserted {d.name} is not the caller's object")
    if variant == "obj_other":
        a, b = GD("my.prepare", []), GD("measure_all", [])
        return R["expand"](c, a, b), "my.prepare", "measure_all", (own(a), own(b))
    if variant == "prepare_only":
        a = GD("prepare_all", [])
        return R["expand"](c, prepare_def=a), "prepare_all", "measure_all", (own(a), native("measure_all"))
    b = GD("m" * 300, [])
    return R["expand"](c, measure_def=b), "prepare_all", "m" * 300, (native("prepare_all"), own(b))


def run_case(R, spec, col, record=True):
    """evaluate every oracle on one case; returns the list of (oracle, detail) failures"""
    fails = []
    v = spec["variant"]
    case = dict(spec)

    def judge(name, ok, detail=""):
        if record:
            col.case(name, ok, case, detail)
        if not ok:
            fails.append((name, detail))

    try:
        p = make_prog(spec)
        ref = Ref(p)
    except RefError as e:
        if record:
            col.count("skipped_by_reference:" + str(e)[:30])
        return fails
    path = "sexpr" if p["sexpr_only"] else v["path"]
    if p["sexpr_only"] and v["run"].startswith(("string", "file")):
        v = dict(v, run={"string": "default", "string_backend": "recording", "string_two_usepulses": "backend", "file": "none_none",
                         "file_emulator_backend": "emulator_backend"}[v["run"]])
    case["text"] = (lambda t: t if len(t) <= 1500 else t[:1100] + "\n...[%d characters]...\n" % len(t) + t[-300:])(to_text(p, "sub"))
    big = spec["size"] if spec["stream"] in ("depth", "chain") else 0
    rng = random.Random(f"c09scale/outs/{spec['rs']}")
    T = R["T"]
    signal.signal(signal.SIGALRM, _alarm)
    signal.alarm(int(T.limit(2)))
    try:
        # --- construction -------------------------------------------------------------------------------------
        usep = usepulses_for(v["run"])
        ts, te = to_text(p, "sub", usep), to_text(p, "exp", usep)
        ke, ce = attempt(R, lambda: build_one(R, p, path, "exp"))
        if ke != "ok":
            col.count("explicit_spelling_refused:build")      # nothing to compare with: not this property's business
            return fails
        ks, cs = attempt(R, lambda: build_one(R, p, path, "sub"))
        judge("scale_accepted", ks == "ok", f"building the program ({path}) with subcircuit blocks raises {ks}: {str(cs)[:200]} - the explicit spelling is accepted")
        if ks != "ok":
            return fails
        # --- expand_subcircuits -------------------------------------------------------------------------------
        ev = v["expand"]
        target = cs
        if ev == "no_native":
            if path == "sexpr":
                target = R["build"](to_sexpr(p, "sub"))
            else:
                target = R["parse"](to_text(p, "sub"), autoload_pulses=False)
        before = d_circuit(R, target)
        kind, got = attempt(R, lambda: expand_call(R, ev, target))
        if kind != "ok":
            ok = big > NEST_LIMIT and (kind == "RecursionError" or "nested too deeply" in got)
            if not ok:
                judge("scale_expand_shape", False, f"expand_subcircuits [{ev}] raises {kind}: {got[:200]}")
        else:
            e, pname, mname, (chk_p, chk_m) = got
            want = t_circuit(before, pname, mname)
            have = d_circuit(R, e)
            diff = first_diff(want, have)
            judge("scale_expand_shape", diff is None, f"expand_subcircuits [{ev}]: expected vs result: {diff}")
            if path == "sexpr" and ev != "no_native" and pname == "prepare_all" and mname == "measure_all":
                blk = d_circuit(R, R["build"](to_sexpr(p, "block"), inject_pulses=R["GI"]))
                diff = first_diff(blk, have)
                judge("scale_expand_shape", diff is None, f"expand_subcircuits [{ev}] vs the program built with [prepare_all, B, measure_all] blocks: {diff}")
            left = subcircuits_left(R, e)
            judge("scale_no_subcircuit_left", not left, f"expand_subcircuits [{ev}] leaves {len(left)} subcircuit block(s), e.g. at {_short(left[0]) if left else None}")
            msgs = []
            nfound = 0
            for first, last in bounding_statements(R, target, e):
                nfound += 1
                if not isinstance(first, R["GateStatement"]) or not isinstance(last, R["GateStatement"]) or first.name != pname or last.name != mname \
                        or first.parameters or last.parameters:
                    msgs.append(f"a subcircuit block became a block that begins with {first!r} and ends with {last!r}")
                    continue
                for chk, st in ((chk_p, first), (chk_m, last)):
                    m = chk(st) if chk else None
                    if m:
                        msgs.append(m)
            nsubs = sum(1 for s in walk_all(p) if s[0] == "sub")
            if nfound < nsubs:
                msgs.append(f"only {nfound} blocks of the result stand for the {nsubs} subcircuit blocks of the input")
            judge("scale_bounding_gates", not msgs, f"expand_subcircuits [{ev}]: " + "; ".join(msgs[:3]))
        # --- execution ----------------------------------------------------------------------------------------
        emulate = p["nq"] <= 14
        if emulate:
            rv = v["run"]
            ke, ge = attempt(R, lambda: call_run(R, rv, ce, te, spec["rs"] % 2 ** 31))
            ks, gs = attempt(R, lambda: call_run(R, rv, cs, ts, spec["rs"] % 2 ** 31))
            if ke != "ok":
                col.count("explicit_spelling_refused:run:" + ("nested too deeply" if "nested too deeply" in ge else ke))
                if ks == "ok":
                    judge("scale_run_like_explicit", False, f"run [{rv}]: explicit spelling refused ({ge[:100]}), subcircuit spelling accepted")
            elif ks != "ok" and big > NEST_LIMIT and "nested too deeply" in gs:
                col.count("beyond_nest_limit:subcircuit_spelling_one_level_deeper")      # the block of the expansion is one more level
            elif ks != "ok":
                judge("scale_run_like_explicit", False, f"run [{rv}]: the subcircuit spelling raises {ks}: {gs[:200]} - the explicit spelling runs")
            else:
                se, ss = summarize_run(R, ge[0]), summarize_run(R, gs[0])
                d = same_summary(R, se, ss)
                judge("scale_run_like_explicit", d is None, f"run [{rv}]: explicit vs subcircuit spelling: {d}")
                if gs[1] is not None and ge[1] is not None:
                    left = subcircuits_left(R, gs[1])
                    d = first_diff(flat_dump(d_stmt(R, ge[1].body)), flat_dump(d_stmt(R, gs[1].body)))
                    judge("scale_run_like_explicit", not left and d is None, f"run [{rv}]: the backend is handed a different program for the subcircuit spelling: {_short(left[0]) if left else d}")
                # the reference: what `prepare_all; B; measure_all` means.  It is held against the subcircuit spelling only
                # where the explicit spelling itself meets it (anything else is not the business of this property).
                msgs, msgs_e = ref_run(ref, ss), ref_run(ref, se)
                if msgs and msgs_e:
                    col.count("reference_differs_from_both_spellings:run")
                else:
                    judge("scale_run_like_explicit", not msgs, f"run [{rv}] of the subcircuit spelling vs reference: " + "; ".join(msgs))
        # --- output parsing -----------------------------------------------------------------------------------
        outs, vals = make_outputs(R, v["outs"], rng, len(ref.visits), p["nq"])
        with_freq = p["nq"] <= 16
        ke, ge = attempt(R, lambda: R["outlist"](ce, outs))
        ks, gs = attempt(R, lambda: R["outlist"](cs, outs))
        if ke != "ok":
            col.count("explicit_spelling_refused:output:" + ("nested too deeply" if "nested too deeply" in ge else ke))
            if ks == "ok":
                judge("scale_output_like_explicit", False, f"parse_jaqal_output_list: explicit spelling refused ({ge[:100]}), subcircuit spelling accepted")
        elif ks != "ok" and big > NEST_LIMIT and "nested too deeply" in gs:
            col.count("beyond_nest_limit:subcircuit_spelling_one_level_deeper")
        elif ks != "ok":
            judge("scale_output_like_explicit", False, f"parse_jaqal_output_list [{v['outs']}]: the subcircuit spelling raises {ks}: {gs[:200]} - the explicit spelling is parsed")
        else:
            se, ss = summarize_out(R, ge, with_freq), summarize_out(R, gs, with_freq)
            d = same_summary(R, se, ss)
            judge("scale_output_like_explicit", d is None, f"parse_jaqal_output_list [{v['outs']}]: explicit vs subcircuit spelling: {d}")
            msgs, msgs_e = ref_out(ref, ss, vals), ref_out(ref, se, vals)
            if msgs and msgs_e:
                col.count("reference_differs_from_both_spellings:output")
            else:
                judge("scale_output_like_explicit", not msgs, f"parse_jaqal_output_list [{v['outs']}] of the subcircuit spelling vs reference: " + "; ".join(msgs))
        judge("scale_terminates", True)
    except Hang:
        T.saw_hang()
        judge("scale_terminates", False, "no result within the time limit")
    except RecursionError:
        # the script's own dumps recurse over the nesting; the generators keep far below the limit
        judge("scale_accepted", False, "RecursionError outside the library's documented JaqalError")
    except Exception as e:  # anything that is not a JaqalError is not a documented refusal
        import traceback
        tb = traceback.extract_tb(e.__traceback__)
        where = next((f"{os.path.basename(f.filename)}:{f.lineno}" for f in reversed(tb) if "jaqalpaq" in f.filename), "")
        judge("scale_accepted", False, f"{type(e).__name__}: {str(e)[:200]} {where}")
    finally:
        signal.alarm(0)
    if record:
        col.count("stream:" + spec["stream"])
        col.count(f"shape:{spec['stream']}/{spec['shape']}")
        if spec["size"]:
            col.count(f"size:{spec['stream']}:{size_class(spec['size'])}")
        col.count("path:" + path)
        col.count("run:" + v["run"])
        col.count("expand:" + v["expand"])
        col.count("outs:" + v["outs"])
        col.count("sections:" + size_class(len(ref.outcomes)))
        col.count("visits:" + size_class(len(ref.visits)))
        col.count("zero_visits", len(ref.visits) == 0)
        col.count("quantum_sections", sum(o is None for o in ref.outcomes))
        col.count("nonzero_outcomes", sum(bool(o) for o in ref.outcomes))
    return fails


def specs(seed, n, thorough):
    """the grid size x shape of every stream is walked systematically (rotated by seed), variants cycle with co-prime strides"""
    rng = random.Random(f"c09scale/{seed}/{thorough}")
    grids = {}
    for st in STREAMS:
        g = [(sh, sz) for sz in SIZES[st] for sh in SHAPES[st]]
        if st == "header":
            g = [(sh, sz) for sh, sz in g if not (sh in ("maps", "mixed") and sz > 300)] + ([("lets", 1000), ("macros", 1000)] if thorough else [])
        if st == "depth" and thorough:
            g += [(sh, 140) for sh in SHAPES[st]]      # beyond NEST_LIMIT: only "same refusal for both spellings" is demanded
        if st == "chain" and not thorough:
            g = [(sh, min(sz, 100) if sh.startswith("alias") else sz) for sh, sz in g]
        # every size once before any size twice (sizes in random order, shapes rotating), so that a short run crosses every threshold
        by_size = {}
        for sh, sz in g:
            by_size.setdefault(sz, []).append(sh)
        for sz in by_size:
            rng.shuffle(by_size[sz])
        sizes = list(by_size)
        g = []
        rnd = 0
        while any(by_size.values()):
            rng.shuffle(sizes)
            for j, sz in enumerate(sizes):
                if by_size[sz]:
                    g.append((by_size[sz].pop((rnd + j) % len(by_size[sz])), sz))
            rnd += 1
        grids[st] = g
    # share of the cases per stream
    weights = {"depth": 4, "chain": 3, "header": 3, "wide": 3, "iter": 2, "qubits": 1, "names": 4, "defaults": 5}
    order = [st for st in STREAMS for _ in range(weights[st])]
    out = []
    pos = {st: 0 for st in STREAMS}
    k = rng.randrange(1000)
    for i in range(n):
        st = order[i % len(order)]
        sh, sz = grids[st][pos[st] % len(grids[st])]
        pos[st] += 1
        k += 1
        variant = {"path": "sexpr" if k % 3 == 0 else "text",
                   "run": RUN_VARIANTS[(k * 5) % len(RUN_VARIANTS)],
                   "expand": EXPAND_VARIANTS[(k * 3) % len(EXPAND_VARIANTS)],
                   "outs": OUT_KINDS[(k * 2 + k // 7) % len(OUT_KINDS)]}
        if st == "qubits" and sz >= 13:
            variant["run"] = rng.choice(("default", "backend", "recording"))
        out.append({"stream": st, "shape": sh, "size": sz, "rs": rng.randrange(2 ** 40), "variant": variant})
    return out


def run(seed, n, driver=DEFAULT_DRIVER, thorough=False):
    R = _load()
    col = Collector()
    samples = []
    distinct = set()
    for spec in specs(seed, n, thorough):
        run_case(R, spec, col)
        distinct.add(json.dumps(spec, sort_keys=True))
        if len(samples) < 6 and spec["stream"] in ("names", "defaults", "qubits") and len(samples) < 6:
            s = dict(spec)
            try:
                s["text"] = to_text(make_prog(spec), "sub")[:1200]
            except Exception:
                pass
            samples.append(s)
    return {"corr": {}, "oracle": col.oracle, "distribution": dict(sorted(col.dist.items())), "samples": samples, "nontrivial": len(distinct)}


def replay(case, driver=DEFAULT_DRIVER):
    R = _load()
    spec = {k: case[k] for k in ("stream", "shape", "size", "rs", "variant")}
    fails = run_case(R, spec, Collector(), record=False)
    if fails:
        return {"oracle_ok": False, "detail": "; ".join(f"{o}: {d}" for o, d in fails[:4]), "model": None, "impl": None}
    return {"oracle_ok": True, "detail": "all oracles hold on this case", "model": None, "impl": None}


def main():
    ap = argparse.ArgumentParser()
    ap.add_argument("--seed", type=int, default=0)
    ap.add_argument("--n", type=int, default=100)
    ap.add_argument("--thorough", action="store_true")
    a = ap.parse_args()
    r = run(a.seed, a.n, thorough=a.thorough)
    print(json.dumps({"oracle": {k: (v["cases"], len(v["failures"])) for k, v in r["oracle"].items()}, "distribution": r["distribution"],
                      "nontrivial": r["nontrivial"]}, indent=1, default=str))
    for k, v in r["oracle"].items():
        for f in v["failures"][:3]:
            print("FAIL", k, f["detail"], json.dumps({x: f["case"][x] for x in ("stream", "shape", "size", "rs", "variant")}))
    return 1 if any(v["failures"] for v in r["oracle"].values()) else 0


if __name__ == "__main__":
    sys.exit(main())
