#!/venv/bin/python
"""C03 — edge VALUES and PATHS: the emulator state is the ordered product of the gate matrices on |0..0>.

The other C03 streams (emu_diff, walk_diff, c03_gatesets) write every program as text / plain S-expressions over
QUBIT / INT parameters with small integer arguments, contiguous or stride-2 ascending aliases, and overrides that
replace one small integer by another.  This stream generates the values and paths they never produce:

  keyword_calls      object-level API: GateStatements made by `gatedef(**kwargs)` / `.call(**kwargs)` with the
                     keywords in ANY order (native gates and macros, at top level, in blocks / loops and inside macro
                     bodies), Register / NamedQubit / Constant / Parameter / Macro / BlockStatement / LoopStatement
                     objects, assembled by `build(["circuit", <objects>…])` or by filling a `Circuit`; the parameter
                     names of the gate set are deliberately NOT in alphabetical order.
  register_argument  native gates with REGISTER-typed parameters (alone, next to a QUBIT parameter, classical
                     parameter in between) called on aliases with stride 2 / 3, negative steps, stop -1, let-valued
                     bounds, aliases of aliases, whole-register aliases, length-1 aliases, and through macro
                     parameters (also indexed inside the macro).
  let_override       lets declared by an int literal, an integral float literal (`2.0` is an INT constant), a
                     non-integral one, 0 / -0.0, used as angles, integer arguments, indices, slice bounds, loop counts,
                     register size, directly or through macro arguments; override dictionaries whose values are of
                     ANOTHER kind (non-integral float for an int literal, int for a float, integral float, 0, -0.0,
                     beyond 2**53, last-ulp neighbours); applied by fill_in_let / parse(override_dict, expand_let |
                     expand_let_map [, expand_macro]).
  numeric_extremes   arguments 65535 … 2**53+1 … 2**64+1 … 10**30, 4300-digit literals, 5e-324, 1e300, neighbours in
                     the last ulp, ints in FLOAT slots and integral floats in INT slots.  Two gates of the set (VH, VI)
                     have a matrix that is a hash of the exact numeric VALUE of their argument, so that a value that is
                     rounded, truncated or coerced anywhere on the way changes the state macroscopically.
  falsy_values       0 / 0.0 / -0.0 arguments (literal, let, macro argument, override to 0), index 0, length-1
                     registers and aliases, loop count 0 (literal, let, macro argument), empty blocks / macros /
                     subcircuits.
  mixed              all of the above together.

Every program is an abstract description (JSON, see `interpret`) that is rendered as Jaqal text, as an S-expression
for `circuitbuilder.build`, as core objects with keyword calls, or through `CircuitBuilder`; the REFERENCE is this
script's own interpreter of the description (own alias resolution, macro binding by NAME, loop unrolling) followed
by explicit 2^n x 2^n embeddings with numpy.  A program is generated only if the interpreter finds it valid with the
declared AND the overriding let values (in-range integral indices, distinct qubits per gate, disjoint parallel
branches, integral INT arguments), so nothing here is a legitimate rejection.

Oracles (one per theme, all stating the same equation of C03 on the real code; `corr` is empty):
  for every subcircuit of `run_jaqal_circuit(circuit)`: `state_vector` == U_k … U_1 e0 (1e-9) where U_j is the matrix
  of the j-th executed gate at its resolved numeric arguments on its resolved qubits (bit j of the matrix index = the
  gate's j-th qubit, a register argument standing for all of its qubits in order), `simulated_probability_by_int` ==
  |amplitude|^2 (1e-9), as many subcircuits as executed; idle gates / gates without unitary are skipped.

Besides the random programs of each theme, every run contains four systematic sweeps (sampled in the quick tier,
complete in the thorough one): gate x keyword order x place of the call; register-argument gate x alias step
(+-1, +-2, +-3) x alias of alias x direct / macro parameter / macro parameter indexed; declared literal x overriding
value x use x way of applying the override; extreme value x INT / FLOAT slot x way it reaches the gate.

Deliberately NOT generated (not demanded by C03, or another pass's own limits):
  * GateStatement(definition, {name: value…}) built by hand with the names in another order than the definition (the
    constructor is not the documented way to call a gate; only `definition(...)` / `.call(...)` are used);
  * parse(..., expand_let_map=True) for programs that pass whole registers as arguments (fill_in_map refuses them);
  * an alias-of-alias slice with an OMITTED stop: the builder freezes it at the size the source alias has under the
    declared lets, so `let N 3; register q[3]; map e q[0:N]; map r e[1:]; X r[0]` overridden with {N: 2} raises
    JaqalError "Index out of range" although the same text with `let N 2` runs - reported as a finding by the author
    of this stream, `replay` of such a case fails; omitted stops are generated on the fundamental register only;
  * several fundamental registers (the emulator refuses them), error paths (C03 speaks about valid programs only).

    PYTHONPATH=/verif /venv/bin/python -m harness.agents.c03_edge [--seed S] [--count N] [--thorough]
    recommended: quick n=2000 (about 7 s), thorough n=20000 (about 75 s).
"""
import argparse
import hashlib
import json
import math
import os
import random
import signal
import sys
import time
import warnings
import zlib
from fractions import Fraction

import numpy as np

try:
    from harness import timeouts as T
except ImportError:  # run as a plain script
    sys.path.insert(0, os.path.dirname(os.path.dirname(os.path.dirname(os.path.abspath(__file__)))))
    from harness import timeouts as T

DEFAULT_DRIVER = "/verif/lean/.lake/build/bin/jaqal-model"
TOL = 1e-9
MAX_EXEC = 40
THEMES = ("keyword_calls", "register_argument", "let_override", "numeric_extremes", "falsy_values", "mixed")
ORACLES = tuple("product_" + t for t in THEMES)


# ------------------------------------------------------------------ the gate set (matrices are functions of VALUES)
def _generic(d, tag):
    rs = np.random.RandomState(zlib.crc32(tag.encode()))
    q, _ = np.linalg.qr(rs.normal(size=(d, d)) + 1j * rs.normal(size=(d, d)))
    return q


_X = np.array([[0, 1], [1, 0]], dtype=complex)
_SX = np.array([[(1 + 1j) / 2, (1 - 1j) / 2], [(1 - 1j) / 2, (1 + 1j) / 2]])
_S = np.array([[1, 0], [0, 1j]], dtype=complex)
_PH = [1, 1j, -1, -1j]
_CX = np.zeros((4, 4), dtype=complex)  # control = first qubit (bit 0), target = second (bit 1)
_CX[0, 0] = _CX[2, 2] = _CX[3, 1] = _CX[1, 3] = 1
_NS = _generic(4, "NS")
_T3 = _generic(8, "T3")
_G2 = _generic(4, "G2")
_G3 = _generic(8, "G3")
_QR = _generic(8, "QR")
_RQ = _generic(8, "RQ")
_VH = [_generic(2, f"VH{k}") for k in range(16)]


def _iv(k):
    """the integer an INT argument stands for (an integral float counts as that integer)"""
    return k if isinstance(k, int) else int(k)


def vkey(x):
    """0..15, a hash of the exact numeric VALUE of x (2 == 2.0, 0 == -0.0; neighbours in the last ulp differ)"""
    fr = Fraction(x)
    s = format(fr.numerator, "x") + "/" + format(fr.denominator, "x")
    return hashlib.sha256(s.encode()).digest()[0] % 16


def u_P(k):
    return np.array([[1, 0], [0, _PH[_iv(k) % 4]]], dtype=complex)


def u_PF(k):
    return np.array([[1, 0], [0, np.exp(1j * float(k))]], dtype=complex)


def u_R(t):
    t = float(t)
    c, s = np.cos(t / 2), np.sin(t / 2)
    return np.array([[c, -1j * s], [-1j * s, c]], dtype=complex)


def u_U(theta, phi):
    theta, phi = float(theta), float(phi)
    c, s = np.cos(theta / 2), np.sin(theta / 2)
    return np.array([[c, -1j * np.exp(-1j * phi) * s], [-1j * np.exp(1j * phi) * s, c]], dtype=complex)


def u_VH(x):
    return _VH[vkey(x)]


def u_VI(k):
    return _VH[vkey(_iv(k))]


def u_W(k, j):
    return np.array([[1, 0], [0, _PH[(_iv(k) + 2 * _iv(j) + 1) % 4]]], dtype=complex) @ _SX


def u_CR(th):
    m = np.eye(4, dtype=complex)
    r = u_R(th)
    for a in (0, 1):
        for b in (0, 1):
            m[1 + 2 * a, 1 + 2 * b] = r[a, b]  # acts on bit 1 (second qubit) when bit 0 (first qubit) is set
    return m


def u_G3(t):
    return _G3 @ np.diag(np.exp(1j * float(t) * np.arange(8) / 8))


def u_RQ(t):
    return _RQ @ np.diag(np.exp(-1j * float(t) * np.arange(8) / 8))


# name -> ([(parameter name, kind)], matrix function | None); kind: q | r2 | r3 (REGISTER of that length) | i | f.
# Parameter names are chosen so that the definition order is never the alphabetical one.
GSPEC = {
    "X": ([("q", "q")], lambda: _X),
    "SX": ([("q", "q")], lambda: _SX),
    "S": ([("q", "q")], lambda: _S),
    "N": ([("q", "q")], None),
    "P": ([("q", "q"), ("k", "i")], u_P),
    "PF": ([("k", "f"), ("a", "q")], u_PF),
    "R": ([("q", "q"), ("a", "f")], u_R),
    "U": ([("q", "q"), ("theta", "f"), ("phi", "f")], u_U),
    "VH": ([("x", "f"), ("q", "q")], u_VH),
    "VI": ([("q", "q"), ("k", "i")], u_VI),
    "W": ([("q", "q"), ("k", "i"), ("j", "i")], u_W),
    "CX": ([("src", "q"), ("dst", "q")], lambda: _CX),
    "NS": ([("b", "q"), ("a", "q")], lambda: _NS),
    "CR": ([("c", "q"), ("th", "f"), ("a", "q")], u_CR),
    "T3": ([("z", "q"), ("y", "q"), ("x", "q")], lambda: _T3),
    "G2": ([("r", "r2")], lambda: _G2),
    "G3": ([("r", "r3"), ("a", "f")], u_G3),
    "QR": ([("q", "q"), ("h", "r2")], lambda: _QR),
    "RQ": ([("r", "r2"), ("t", "f"), ("q", "q")], u_RQ),
}
IDLE = {"I_" + g: g for g in ("X", "R", "CX", "G3", "QR")}  # only in gate sets made with add_idle_gates


def gspec(name):
    """(parameters, matrix function | None) of a native gate name (idle gates: the parameters of their parent)"""
    if name in IDLE:
        return GSPEC[IDLE[name]][0], None
    return GSPEC[name]


_L = {}


def _lib():
    if not _L:
        os.environ["JAQALPAQ_RUN_EMULATOR"] = "1"
        from jaqalpaq.core import GateDefinition, Parameter, ParamType, Register, NamedQubit, Constant, Macro, Circuit
        from jaqalpaq.core import BlockStatement, LoopStatement
        from jaqalpaq.core.gatedef import BusyGateDefinition, add_idle_gates
        from jaqalpaq.core.circuitbuilder import build, CircuitBuilder, SequentialBlockBuilder, ParallelBlockBuilder
        from jaqalpaq.core.algorithm import fill_in_let
        from jaqalpaq.parser import parse_jaqal_string
        from jaqalpaq.emulator import run_jaqal_circuit
        from jaqalpaq.emulator.unitary import UnitarySerializedEmulator
        from jaqalpaq.error import JaqalError

        class SubclassedGateDefinition(GateDefinition):
            """a user subclass that keeps its matrix function elsewhere"""

            def __init__(self, name, parameters, fn):
                super().__init__(name, parameters)
                self._fn = fn

            @property
            def ideal_unitary(self):
                return self._fn

        _L.update(locals())
        _L["sets"] = {}
    return _L


def gate_set(idle, subclass):
    L = _lib()
    key = (bool(idle), bool(subclass))
    if key not in L["sets"]:
        PT = L["ParamType"]
        kinds = {"q": PT.QUBIT, "r2": PT.REGISTER, "r3": PT.REGISTER, "i": PT.INT, "f": PT.FLOAT}
        d = {}
        for name, (params, fn) in GSPEC.items():
            ps = [L["Parameter"](pn, kinds[k]) for pn, k in params]
            if subclass and fn is not None:
                d[name] = L["SubclassedGateDefinition"](name, ps, fn)
            else:
                d[name] = L["GateDefinition"](name, ps, ideal_unitary=fn)
        d["prepare_all"] = L["BusyGateDefinition"]("prepare_all", [])
        d["measure_all"] = L["BusyGateDefinition"]("measure_all", [])
        if idle:
            d = L["add_idle_gates"](d)
        L["sets"][key] = d
    return L["sets"][key]


# ------------------------------------------------------------------ numbers in a case
# A number is a JSON int / float; an int with more than 4000 digits is written ["int", "<digits>"].
def dec(v):
    if isinstance(v, list) and len(v) == 2 and v[0] == "int":
        return int(v[1])
    return v


def enc(v):
    if isinstance(v, int) and not isinstance(v, bool) and abs(v) >= 10 ** 4000:
        return ["int", str(v)]
    return v


def is_num(a):
    return (isinstance(a, (int, float)) and not isinstance(a, bool)) or (isinstance(a, list) and len(a) == 2 and a[0] == "int")


def num_text(v):
    """a Jaqal literal with exactly this value"""
    v = dec(v)
    if isinstance(v, int):
        return str(v)
    s = repr(float(v))
    if "e" in s:
        m, e = s.split("e")
        if "." not in m:
            m += ".0"
        s = m + "e" + e
    return s


def integral(v):
    return isinstance(v, int) or (isinstance(v, float) and math.isfinite(v) and v == int(v))


# ------------------------------------------------------------------ the reference interpreter
# program description `ap`:
#   {"size": int | let name, "lets": [[name, number]], "maps": [[name, "whole", src] | [name, "item", src, index] |
#    [name, "slice", src, lo, hi, step]]   (index / bounds: int | let name | null for an omitted bound),
#    "macros": [[name, [parameter names], [item]]], "subs": [{"style": "plain" | "block", "items": [item]}],
#    "override": {let name: number} | null}
#   item: ["g", gate or macro name, [arg]] | ["loop", count, [item]] | ["par", [[item]]]
#   arg : number | name (let, alias, macro parameter) | ["idx", register name or macro parameter, int | name]
#   The arguments of a gate are listed in the order of the definition's parameters (GSPEC / the macro's parameter list).
class Invalid(Exception):
    pass


def interpret(ap, use_override=True):
    """-> {"n": register size, "subs": [[(gate name, [qubit], [classical value])]]}; raises Invalid."""
    lets = {}
    for name, v in ap["lets"]:
        lets[name] = dec(v)
    if use_override and ap.get("override"):
        for name, v in ap["override"].items():
            if name not in lets:
                raise Invalid("override of an unknown let")
            lets[name] = dec(v)

    def small(v, what):
        if isinstance(v, str):
            v = lets[v] if v in lets else _bad(f"{what}: unknown name {v}")
        v = dec(v)
        if not integral(v):
            raise Invalid(f"{what} {v!r} is not integral")
        return int(v)

    def _bad(msg):
        raise Invalid(msg)

    n = small(ap["size"], "register size")
    if n < 1 or n > 8:
        raise Invalid("register size")
    regs = {"q": list(range(n))}
    qubits = {}
    for m in ap["maps"]:
        name, kind, src = m[0], m[1], m[2]
        if name in regs or name in qubits or name in lets or src not in regs:
            raise Invalid("map")
        base = regs[src]
        if kind == "whole":
            regs[name] = list(base)
        elif kind == "item":
            k = small(m[3], "index")
            if not 0 <= k < len(base):
                raise Invalid("alias index out of range")
            qubits[name] = base[k]
        else:
            lo = 0 if m[3] is None else small(m[3], "slice start")
            hi = len(base) if m[4] is None else small(m[4], "slice stop")
            st = 1 if m[5] is None else small(m[5], "slice step")
            if st == 0 or lo < 0 or hi > len(base) or hi < -1:
                raise Invalid("slice")
            idx = list(range(lo, hi, st))
            if not idx or any(not 0 <= k < len(base) for k in idx):
                raise Invalid("slice empty or out of range")
            regs[name] = [base[k] for k in idx]
    macros = {m[0]: (m[1], m[2]) for m in ap["macros"]}

    def value(a, env, what):
        """a classical value"""
        if isinstance(a, str):
            if a in env:
                b = env[a]
                if b[0] != "num":
                    raise Invalid(f"{what}: {a} is not a number")
                return b[1]
            if a in lets:
                return lets[a]
            raise Invalid(f"{what}: unknown name {a}")
        if is_num(a):
            return dec(a)
        raise Invalid(f"{what}: not a number")

    def count(a, env, what):
        v = value(a, env, what)
        if not integral(v):
            raise Invalid(f"{what} {v!r} is not integral")
        return int(v)

    def register(a, env):
        if isinstance(a, str):
            if a in env:
                if env[a][0] != "reg":
                    raise Invalid(f"{a} is not a register")
                return env[a][1]
            if a in regs:
                return regs[a]
        raise Invalid(f"{a!r} is not a register")

    def qubit(a, env):
        if isinstance(a, str):
            if a in env:
                if env[a][0] != "q":
                    raise Invalid(f"{a} is not a qubit")
                return env[a][1]
            if a in qubits:
                return qubits[a]
            raise Invalid(f"{a} is not a qubit")
        if isinstance(a, list) and len(a) == 3 and a[0] == "idx":
            r = register(a[1], env)
            k = count(a[2], env, "index")
            if not 0 <= k < len(r):
                raise Invalid("index out of range")
            return r[k]
        raise Invalid("not a qubit")

    def anyarg(a, env):
        """an argument of a macro call (untyped)"""
        if isinstance(a, list) and len(a) == 3 and a[0] == "idx":
            return ("q", qubit(a, env))
        if is_num(a):
            return ("num", dec(a))
        if a in env:
            return env[a]
        if a in lets:
            return ("num", lets[a])
        if a in regs:
            return ("reg", regs[a])
        if a in qubits:
            return ("q", qubits[a])
        raise Invalid(f"unknown name {a}")

    def run(items, env, out, depth, touched):
        """appends the executed gates to `out`; `touched` collects the qubits of every gate statement reached, also
        those inside loops that run zero times (the branches of a parallel block must be disjoint as written)"""
        if depth > 6:
            raise Invalid("macro nesting")
        for it in items:
            if it[0] == "g":
                name, args = it[1], it[2]
                if name in macros:
                    params, body = macros[name]
                    if len(params) != len(args):
                        raise Invalid("macro argument count")
                    run(body, {p: anyarg(a, env) for p, a in zip(params, args)}, out, depth + 1, touched)
                    continue
                params, _fn = gspec(name)
                if len(params) != len(args):
                    raise Invalid("argument count")
                qs, cs = [], []
                for (pn, kind), a in zip(params, args):
                    if kind == "q":
                        qs.append(qubit(a, env))
                    elif kind in ("r2", "r3"):
                        r = register(a, env)
                        if len(r) != int(kind[1]):
                            raise Invalid("register argument of the wrong length")
                        qs.extend(r)
                    elif kind == "i":
                        v = value(a, env, "argument")
                        if not integral(v):
                            raise Invalid("INT argument is not integral")
                        cs.append(v)
                    else:
                        v = value(a, env, "argument")
                        try:
                            fin = math.isfinite(float(v)) and abs(v) < 1e301
                        except OverflowError:
                            fin = False
                        if not fin:  # (the matrix functions of this gate set convert the angle to a double)
                            raise Invalid("FLOAT argument too large for this gate set")
                        cs.append(v)
                if len(set(qs)) != len(qs):
                    raise Invalid("gate acts on a qubit twice")
                touched.update(qs)
                out.append((name, qs, cs))
            elif it[0] == "loop":
                c = count(it[1], env, "loop count")
                if c < 0:
                    raise Invalid("negative loop count")
                once = []
                run(it[2], env, once, depth, touched)
                if len(out) + c * len(once) > 4 * MAX_EXEC:
                    raise Invalid("too long")
                out.extend(once * c)
            elif it[0] == "par":
                seen = set()
                for br in it[1]:
                    mine, used = [], set()
                    run(br, env, mine, depth, used)
                    if used & seen:
                        raise Invalid("parallel branches share a qubit")
                    seen |= used
                    out.extend(mine)
                touched |= seen
            else:
                raise Invalid(f"bad item {it[0]}")

    subs = []
    for sub in ap["subs"]:
        out = []
        run(sub["items"], {}, out, 0, set())
        if len(out) > MAX_EXEC:
            raise Invalid("too long")
        subs.append(out)
    return {"n": n, "subs": subs}


def embed(u, qs, n):
    """2^n x 2^n matrix acting as `u` on qubits qs (bit j of a `u` index <-> qs[j]), identity elsewhere; bit i of a
    row / column index is register qubit i."""
    d = 1 << n
    idx = np.arange(d)
    sub = np.zeros(d, dtype=int)
    mask = 0
    for j, q in enumerate(qs):
        sub |= ((idx >> q) & 1) << j
        mask |= 1 << q
    rest = idx & ~mask
    return np.where(rest[:, None] == rest[None, :], u[sub[:, None], sub[None, :]], 0)


def reference_states(sem):
    n = sem["n"]
    states = []
    for sub in sem["subs"]:
        v = np.zeros(1 << n, dtype=complex)
        v[0] = 1
        for name, qs, cs in sub:
            fn = gspec(name)[1]
            if fn is None:
                continue
            u = np.asarray(fn(*cs), dtype=complex)
            v = (embed(u, qs, n) * v[None, :]).sum(axis=1)  # (elementwise: no BLAS threads)
        states.append(v)
    return states


# ------------------------------------------------------------------ surface form 1: Jaqal text
def _targ(a):
    if isinstance(a, str):
        return a
    if is_num(a):
        return num_text(a)
    return f"{a[1]}[{_targ(a[2])}]"


def _titems(items):
    out = []
    for it in items:
        if it[0] == "g":
            out.append(" ".join([it[1]] + [_targ(a) for a in it[2]]))
        elif it[0] == "loop":
            out.append(f"loop {_targ(it[1])} {{ " + " ; ".join(_titems(it[2])) + " }")
        else:
            brs = []
            for br in it[1]:
                parts = _titems(br)
                brs.append(parts[0] if len(parts) == 1 else "{ " + " ; ".join(parts) + " }")
            out.append("< " + " | ".join(brs) + " >")
    return out


def to_text(ap):
    out = [f"let {name} {num_text(v)}" for name, v in ap["lets"]]
    out.append(f"register q[{_targ(ap['size'])}]")
    for m in ap["maps"]:
        if m[1] == "whole":
            out.append(f"map {m[0]} {m[2]}")
        elif m[1] == "item":
            out.append(f"map {m[0]} {m[2]}[{_targ(m[3])}]")
        else:
            b = ["" if x is None else _targ(x) for x in m[3:6]]
            out.append(f"map {m[0]} {m[2]}[{b[0]}:{b[1]}" + (f":{b[2]}]" if m[5] is not None else "]"))
    for name, params, body in ap["macros"]:
        out.append(f"macro {name} " + " ".join(params) + " { " + " ; ".join(_titems(body)) + " }")
    for sub in ap["subs"]:
        body = _titems(sub["items"])
        out += (["prepare_all"] + body + ["measure_all"]) if sub["style"] == "plain" else (["subcircuit {"] + body + ["}"])
    return "\n".join(out) + "\n"


# ------------------------------------------------------------------ surface form 2: S-expression for build()
def _sarg(a):
    if isinstance(a, str):
        return a
    if is_num(a):
        return dec(a)
    return ["array_item", a[1], _sarg(a[2])]


def _sitems(items):
    out = []
    for it in items:
        if it[0] == "g":
            out.append(["gate", it[1]] + [_sarg(a) for a in it[2]])
        elif it[0] == "loop":
            out.append(["loop", _sarg(it[1]), ["sequential_block"] + _sitems(it[2])])
        else:
            brs = []
            for br in it[1]:
                parts = _sitems(br)
                brs.append(parts[0] if len(parts) == 1 else ["sequential_block"] + parts)
            out.append(["parallel_block"] + brs)
    return out


def _smap(m):
    if m[1] == "whole":
        return ["map", m[0], m[2]]
    if m[1] == "item":
        return ["map", m[0], m[2], _sarg(m[3])]
    return ["map", m[0], m[2]] + [None if x is None else _sarg(x) for x in m[3:6]]


def to_sexpr(ap):
    out = ["circuit"] + [["let", name, dec(v)] for name, v in ap["lets"]]
    out.append(["register", "q", _sarg(ap["size"])])
    out += [_smap(m) for m in ap["maps"]]
    for name, params, body in ap["macros"]:
        out.append(["macro", name] + list(params) + [["sequential_block"] + _sitems(body)])
    for sub in ap["subs"]:
        body = _sitems(sub["items"])
        if sub["style"] == "plain":
            out += [["gate", "prepare_all"]] + body + [["gate", "measure_all"]]
        else:
            out.append(["subcircuit_block", ""] + body)
    return out


# ------------------------------------------------------------------ surface form 3: core objects, keyword calls
class _Objects:
    """Builds the program from core objects.  Every gate statement is made by calling the definition; `call_styles`
    (a list the builder appends to) records how: pos | kw (definition order) | kw_perm (another order) and whether
    through __call__ or .call.  The random choices derive from `fseed` only."""

    def __init__(self, ap, G, fseed, assemble, kw_only, perm=None):
        L = _lib()
        self.perm = perm
        self.L, self.ap, self.G = L, ap, G
        self.rng = random.Random(f"c03edge/objects/{fseed}")
        self.assemble, self.kw_only = assemble, kw_only
        self.styles = {}
        self.consts, self.names, self.macros = {}, {}, {}

    def bump(self, k):
        self.styles[k] = self.styles.get(k, 0) + 1

    def cv(self, a, penv=None):
        """an int / let name / macro parameter name -> int | Constant | Parameter"""
        if isinstance(a, str):
            if penv and a in penv:
                return penv[a]
            return self.consts[a]
        return dec(a)

    def arg(self, a, penv):
        if isinstance(a, str):
            if penv and a in penv:
                return penv[a]
            if a in self.consts:
                return self.consts[a]
            return self.names[a]
        if is_num(a):
            return dec(a)
        base = penv[a[1]] if (penv and a[1] in penv) else self.names[a[1]]
        return base[self.cv(a[2], penv)]

    def call(self, gd, vals):
        pn = [p.name for p in gd.parameters]
        x = self.rng.random()
        if not pn:
            self.bump("call:no_parameters")
            return gd()
        if x < 0.15 and not self.kw_only:
            self.bump("call:positional")
            return gd(*vals)
        order = list(range(len(pn)))
        if self.perm and len(self.perm) == len(pn):
            order = list(self.perm)
            self.bump("call:keywords_in_another_order")
        elif len(pn) > 1 and x < 0.85:
            while order == list(range(len(pn))):
                self.rng.shuffle(order)
            self.bump("call:keywords_in_another_order")
        else:
            self.bump("call:keywords_in_definition_order" if len(pn) > 1 else "call:single_keyword")
        kw = {pn[i]: vals[i] for i in order}
        if self.rng.random() < 0.4:
            self.bump("call:.call()")
            return gd.call(**kw)
        return gd(**kw)

    def stmts(self, items, penv):
        L = self.L
        out = []
        for it in items:
            if it[0] == "g":
                gd = self.macros.get(it[1]) or self.G[it[1]]
                if it[1] in self.macros:
                    self.bump("call:of_a_macro")
                out.append(self.call(gd, [self.arg(a, penv) for a in it[2]]))
            elif it[0] == "loop":
                out.append(L["LoopStatement"](self.cv(it[1], penv), L["BlockStatement"](statements=self.stmts(it[2], penv))))
            else:
                brs = []
                for br in it[1]:
                    parts = self.stmts(br, penv)
                    brs.append(parts[0] if len(parts) == 1 else L["BlockStatement"](statements=parts))
                out.append(L["BlockStatement"](parallel=True, statements=brs))
        return out

    def build(self):
        L, ap = self.L, self.ap
        for name, v in ap["lets"]:
            v = dec(v)
            if isinstance(v, int) or not integral(v):
                self.consts[name] = L["Constant"](name, v)
            else:  # an integral float literal: the builder's own reading of it
                self.consts[name] = L["build"](("let", name, v))
        reg = L["Register"]("q", self.cv(ap["size"]))
        self.names["q"] = reg
        header = list(self.consts.values()) + [reg]
        for m in ap["maps"]:
            src = self.names[m[2]]
            if m[1] == "whole":
                obj = L["Register"](m[0], alias_from=src)
            elif m[1] == "item":
                obj = L["NamedQubit"](m[0], src, self.cv(m[3]))
            else:
                lo = 0 if m[3] is None else self.cv(m[3])
                hi = src.size if m[4] is None else self.cv(m[4])
                st = 1 if m[5] is None else self.cv(m[5])
                obj = L["Register"](m[0], alias_from=src, alias_slice=slice(lo, hi, st))
            self.names[m[0]] = obj
            header.append(obj)
        for name, params, body in ap["macros"]:
            ps = [L["Parameter"](p, None) for p in params]
            penv = {p.name: p for p in ps}
            self.macros[name] = L["Macro"](name, parameters=ps, body=L["BlockStatement"](statements=self.stmts(body, penv)))
        body = []
        for sub in ap["subs"]:
            st = self.stmts(sub["items"], None)
            if sub["style"] == "plain":
                body += [self.G["prepare_all"]()] + st + [self.G["measure_all"]()]
            else:
                body.append(L["BlockStatement"](subcircuit=True, iterations=1, statements=st))
        if self.assemble == "circuit_attributes":
            c = L["Circuit"](native_gates=self.G)
            for k in self.consts.values():
                c.constants[k.name] = k
            for o in header[len(self.consts):]:
                c.registers[o.name] = o
            for mo in self.macros.values():
                c.macros[mo.name] = mo
            c.body.statements.extend(body)
            return c
        return L["build"](["circuit"] + header + list(self.macros.values()) + body, inject_pulses=self.G)


# ------------------------------------------------------------------ surface form 4: CircuitBuilder
def via_builder(ap, G, fseed, styles):
    L = _lib()
    rng = random.Random(f"c03edge/builder/{fseed}")
    cb = L["CircuitBuilder"](native_gates=G)
    consts, names = {}, {}
    for name, v in ap["lets"]:
        consts[name] = cb.let(name, dec(v))
    size = ap["size"]
    names["q"] = cb.register("q", consts[size] if isinstance(size, str) else size)

    def cv(a):
        return consts[a] if isinstance(a, str) else (None if a is None else dec(a))

    for m in ap["maps"]:
        src = names[m[2]]
        if m[1] == "whole":
            names[m[0]] = cb.map(m[0], src)
        elif m[1] == "item":
            names[m[0]] = cb.map(m[0], src, cv(m[3]))
        else:
            names[m[0]] = cb.map(m[0], src, slice(cv(m[3]), cv(m[4]), cv(m[5])))

    def garg(a, top):
        """top level: a core object half of the time, otherwise the S-expression / name"""
        if top and rng.random() < 0.5:
            if isinstance(a, str) and a in names:
                styles["builder:object_argument"] = styles.get("builder:object_argument", 0) + 1
                return names[a]
            if isinstance(a, list) and not is_num(a) and a[1] in names and not isinstance(a[2], str):
                styles["builder:object_argument"] = styles.get("builder:object_argument", 0) + 1
                return names[a[1]][dec(a[2])]
        return _sarg(a)

    def fill(b, items, top):
        for it in items:
            if it[0] == "g":
                b.gate(it[1], *[garg(a, top) for a in it[2]])
            elif it[0] == "loop":
                inner = L["SequentialBlockBuilder"]()
                fill(inner, it[2], top)
                b.loop(_sarg(it[1]), inner, unevaluated=True)
            else:
                pb = b.block(parallel=True)
                for br in it[1]:
                    if len(br) == 1:
                        fill(pb, br, top)
                    else:
                        fill(pb.block(parallel=False), br, top)

    for name, params, body in ap["macros"]:
        inner = L["SequentialBlockBuilder"]()
        fill(inner, body, False)
        cb.macro(name, list(params), inner, unevaluated=True)
    for sub in ap["subs"]:
        if sub["style"] == "plain":
            cb.gate("prepare_all")
            fill(cb, sub["items"], True)
            cb.gate("measure_all")
        else:
            fill(cb.subcircuit(), sub["items"], True)
    return cb.build()


# ------------------------------------------------------------------ executing one case on the real code
class Hang(Exception):
    pass


def _alarm(*_a):
    raise Hang()


def make_circuit(case, styles=None):
    """The circuit of the case, overrides applied (real code only)."""
    L = _lib()
    ap = case["ap"]
    G = gate_set(case.get("idle"), case.get("subclass"))
    ov = ap.get("override")
    ov = None if ov is None else {k: dec(v) for k, v in ov.items()}
    via = case.get("ov_via")
    form = case["form"]
    styles = {} if styles is None else styles
    if form == "text":
        kw = {}
        if via and via.startswith("parse"):
            kw["override_dict"] = ov
            kw["expand_let_map" if "let_map" in via else "expand_let"] = True
            if via.endswith("macro"):
                kw["expand_macro"] = True
        c = L["parse_jaqal_string"](to_text(ap), inject_pulses=G, autoload_pulses=False, **kw)
    elif form == "sexpr":
        c = L["build"](to_sexpr(ap), inject_pulses=G)
    elif form == "objects":
        ob = _Objects(ap, G, case.get("fseed", 0), case.get("assemble", "build"), case.get("kw_only", False),
                      case.get("perm"))
        c = ob.build()
        for k, v in ob.styles.items():
            styles[k] = styles.get(k, 0) + v
    elif form == "builder":
        c = via_builder(ap, G, case.get("fseed", 0), styles)
    else:
        raise ValueError(f"bad form {form}")
    if via == "fill_in_let":
        c = L["fill_in_let"](c, ov)
    elif via == "fill_in_let_keyword":
        c = L["fill_in_let"](c, override_dict=ov)
    return c


def execute(case, styles=None):
    """-> ("ok", [(state, probabilities)]) | ("err", "Type: message") | ("hang", "")"""
    L = _lib()
    old = signal.signal(signal.SIGALRM, _alarm)
    signal.alarm(int(T.limit()))
    try:
        with warnings.catch_warnings():
            warnings.simplefilter("ignore")
            c = make_circuit(case, styles)
            if case.get("backend") == "explicit":
                res = L["run_jaqal_circuit"](c, backend=L["UnitarySerializedEmulator"]())
            else:
                res = L["run_jaqal_circuit"](c)
            return ("ok", [(np.array(sc.state_vector), np.array(sc.simulated_probability_by_int)) for sc in res.subcircuits])
    except Hang:
        T.saw_hang()
        return ("hang", "")
    except Exception as e:  # every generated program is valid: nothing is a legitimate rejection
        return ("err", f"{type(e).__name__}: {str(e)[:300]}")
    finally:
        signal.alarm(0)
        signal.signal(signal.SIGALRM, old)


def _fmt(v):
    v = np.asarray(v)
    if v.size > 16:
        k = int(np.argmax(np.abs(v)))
        return f"<{v.size} entries, largest at index {k}: {v[k]:.6g}>"
    if np.iscomplexobj(v):
        return "[" + ", ".join(f"{z.real:.6g}{z.imag:+.6g}j" for z in v.tolist()) + "]"
    return "[" + ", ".join(f"{x:.6g}" for x in v.tolist()) + "]"


def _gates_text(sub):
    s = "; ".join(f"{g} on qubits {qs}" + (f" at {[c if len(repr(c)) < 40 else repr(c)[:20] + '…' for c in cs]}" if cs else "")
                  for g, qs, cs in sub)
    return s if len(s) < 900 else s[:900] + " …"


def judge(case, styles=None):
    """(ok, detail).  Raises Invalid when the description is not a valid program (never for a generated case)."""
    ap = case["ap"]
    interpret(ap, use_override=False)  # the program itself must be valid too
    sem = interpret(ap, use_override=True)
    want = reference_states(sem)
    r = execute(case, styles)
    how = f"[{case['form']}" + (f", override via {case['ov_via']}" if case.get("ov_via") else "") + "]"
    if r[0] != "ok":
        return False, f"{how} a valid program " + ("does not terminate" if r[0] == "hang" else f"raises {r[1]}")
    got = r[1]
    if len(got) != len(want):
        return False, f"{how} {len(got)} subcircuits reported, {len(want)} executed"
    for k, ((v, p), w) in enumerate(zip(got, want)):
        if v.shape != w.shape:
            return False, f"{how} subcircuit {k}: state_vector of shape {v.shape}, expected {w.shape}"
        dv = float(np.max(np.abs(v - w))) if np.all(np.isfinite(v)) else float("inf")
        if not dv <= TOL:
            i = int(np.argmax(np.abs(v - w))) if math.isfinite(dv) else 0
            return False, (f"{how} subcircuit {k}: state_vector {_fmt(v)} is not the product of the gate matrices on |0..0> "
                           f"{_fmt(w)} (largest deviation {dv:.3g} at index {i}: got {v[i]:.6g}, expected {w[i]:.6g}); "
                           f"executed gates: {_gates_text(sem['subs'][k])}")
        pw = np.abs(w) ** 2
        if p.shape != pw.shape or not float(np.max(np.abs(p - pw))) <= TOL:
            return False, f"{how} subcircuit {k}: probabilities {_fmt(p)} but |amplitude|^2 is {_fmt(pw)}"
    return True, f"{len(want)} subcircuits, {sum(len(s) for s in sem['subs'])} executed gates agree with the reference"


# ------------------------------------------------------------------ value pools
def _ulp_up(x):
    return math.nextafter(x, math.inf)


_BIG_DIGITS = ["9" * 4300, "1" + "0" * 4298 + "7"]  # 4300 and 4299 digits: the longest literals Python converts


def int_pool(rng, theme):
    small = [0, 1, 2, 3, 5, 7, -1, -2]
    edge = [65535, 65536, 2 ** 31 - 1, 2 ** 31, 2 ** 32 + 1, 2 ** 53 - 1, 2 ** 53, 2 ** 53 + 1, 2 ** 63 - 1, 2 ** 63,
            2 ** 64 + 1, 10 ** 30 + 3, -(2 ** 63) - 1, -(2 ** 53) - 1]
    flo = [2.0, 0.0, -0.0, 4.0, -3.0, 9007199254740992.0, 1e22, 1e300, -1e300]
    zero = [0, 0, 0.0, -0.0]
    x = rng.random()
    if theme == "falsy_values":
        return rng.choice(zero if x < 0.6 else small)
    if theme == "numeric_extremes":
        if x < 0.04:
            return int(rng.choice(_BIG_DIGITS))
        return rng.choice(edge if x < 0.6 else flo if x < 0.85 else small)
    if x < 0.6:
        return rng.choice(small)
    return rng.choice(edge if x < 0.8 else flo if x < 0.95 else zero)


def float_pool(rng, theme):
    plain = [0.25 * k for k in range(-8, 9) if k % 4] + [0.1, 0.3, -0.7, 1.1, 2.5, math.pi, -math.e]
    ints = [1, 2, 3, -1, 4, 7]
    intf = [1.0, 2.0, -3.0, 4.0]
    zero = [0, 0.0, -0.0]
    edge = [5e-324, -5e-324, 1e-300, 2.2250738585072014e-308, 1e300, -1e300, 1e22, 123456789.12345679,
            0.1, _ulp_up(0.1), 1.0, _ulp_up(1.0), math.nextafter(1.0, 0.0), 0.30000000000000004, 0.3,
            65535, 65536.5, 2 ** 53, 2 ** 53 + 1, 9007199254740992.0, 9007199254740994.0, 2 ** 63, 2 ** 64 + 1,
            4.999999999999999, 5.000000000000001, 0.49999999999999994, -0.9999999999999999]
    x = rng.random()
    if theme == "falsy_values":
        return rng.choice(zero if x < 0.6 else plain + ints)
    if theme == "numeric_extremes":
        return rng.choice(edge if x < 0.75 else zero + intf)
    if x < 0.35:
        return rng.choice(plain)
    if x < 0.45:
        return round(rng.uniform(-7, 7), rng.choice([2, 6, 15]))
    if x < 0.65:
        return rng.choice(ints + intf)
    return rng.choice(zero if x < 0.8 else edge)


def other_kind(rng, declared, theme):
    """an overriding value for a FLOAT-role let, preferably of another kind than the declared literal"""
    declared = dec(declared)
    if integral(declared) and rng.random() < 0.7:
        return rng.choice([0.5, -0.75, 2.5, 0.1, 1.9, -0.3, 0.999, 1e-3, 3.000000000000001, -0.5, 0.25, 1.5])
    if not integral(declared) and rng.random() < 0.5:
        return rng.choice([0, 1, 2, -1, 3, 2.0, 0.0, -0.0, 1.0, 2 ** 53 + 1])
    return float_pool(rng, theme)


# ------------------------------------------------------------------ program generator
GATE_WEIGHTS = {
    "keyword_calls": {"CX": 5, "NS": 5, "U": 6, "W": 5, "CR": 6, "T3": 5, "PF": 3, "VH": 3, "RQ": 4, "QR": 4, "G3": 2, "P": 2, "R": 2, "X": 1, "SX": 1},
    "register_argument": {"G2": 7, "G3": 7, "QR": 6, "RQ": 6, "X": 2, "SX": 2, "CX": 2, "R": 1, "NS": 1},
    "let_override": {"R": 6, "U": 6, "PF": 4, "VH": 6, "P": 4, "VI": 4, "W": 3, "CR": 4, "G3": 2, "RQ": 2, "CX": 2, "X": 1, "SX": 2},
    "numeric_extremes": {"VH": 8, "VI": 8, "P": 5, "W": 4, "R": 3, "U": 3, "PF": 3, "CR": 2, "G3": 1, "SX": 2, "CX": 1},
    "falsy_values": {"R": 4, "U": 4, "P": 4, "PF": 3, "VH": 4, "VI": 4, "W": 3, "CR": 3, "X": 3, "SX": 3, "CX": 3, "N": 2, "G2": 1, "G3": 2, "I_X": 1, "I_R": 1},
    "mixed": {g: 3 for g in GSPEC} | {g: 1 for g in IDLE} | {"N": 1},
}


class Gen:
    def __init__(self, rng, theme, thorough):
        self.rng, self.theme, self.thorough = rng, theme, thorough
        self.weights = GATE_WEIGHTS[theme]
        self.uses_regarg = False
        self.feat = {}

    def note(self, k):
        self.feat[k] = self.feat.get(k, 0) + 1

    # ---- header
    def header(self):
        rng, th = self.rng, self.theme
        nmax = 6 if self.thorough else 5
        if th == "register_argument":
            n = rng.randint(3, nmax)
        elif th == "falsy_values":
            n = rng.choice([1, 1, 2, 2, 3, 4])
        else:
            n = rng.randint(1, nmax)
        self.n = n
        self.idle = any(g in IDLE for g in self.weights) and rng.random() < 0.7
        lets = {}
        lit = lambda v: float(v) if rng.random() < 0.3 else v  # an integral float literal is an INT constant too
        self.ix = {}
        for k in range(rng.randint(0, 2)):
            v = 0 if (th == "falsy_values" and rng.random() < 0.7) else rng.randrange(n)
            lets[f"IX{k}"] = lit(v)
            self.ix[f"IX{k}"] = v
        self.cn = {}
        if rng.random() < 0.6:
            v = 0 if (th == "falsy_values" and rng.random() < 0.6) else rng.randrange(4)
            lets["CN0"] = lit(v)
            self.cn["CN0"] = v
        self.ka = []
        for k in range(rng.randint(0, 2)):
            lets[f"KA{k}"] = int_pool(rng, th)
            self.ka.append(f"KA{k}")
        self.fa = []
        for k in range(rng.randint(1, 3) if th in ("let_override", "mixed", "falsy_values", "numeric_extremes") else rng.randint(0, 2)):
            lets[f"FA{k}"] = float_pool(rng, th)
            self.fa.append(f"FA{k}")
        self.size = n
        if rng.random() < 0.3:
            lets["NQ"] = lit(n)
            self.size = "NQ"
        order = list(lets)
        rng.shuffle(order)
        self.lets = {k: lets[k] for k in order}
        # aliases
        self.regs = {"q": list(range(n))}
        self.qubits = {}
        self.maps = []
        names = ["e", "r", "h", "g", "w", "s", "d"]
        nal = rng.randint(2, 6) if th == "register_argument" else rng.randint(0, 4)
        for name in names[:nal]:
            self._alias(name)
        for name in ("z", "y"):
            if rng.random() < 0.35:
                src = rng.choice(list(self.regs))
                base = self.regs[src]
                k = 0 if (th == "falsy_values" and rng.random() < 0.6) else rng.randrange(len(base))
                self.maps.append([name, "item", src, self._bound(k)])
                self.qubits[name] = base[k]

    def _bound(self, v, allow_nq=False):
        """an index / slice bound with (declared) value v: literal or a let of that value"""
        cands = [k for k, x in self.ix.items() if x == v] + [k for k, x in self.cn.items() if x == v]
        if allow_nq and self.size == "NQ" and v == self.n:
            cands.append("NQ")
        if cands and self.rng.random() < 0.45:
            self.note("bound_or_index_given_by_let")
            return self.rng.choice(cands)
        return v

    def _alias(self, name):
        rng = self.rng
        src = rng.choice(list(self.regs))
        base = self.regs[src]
        ln = len(base)
        if rng.random() < 0.15:
            self.maps.append([name, "whole", src])
            self.regs[name] = list(base)
            self.note("alias:whole_register" + ("_of_alias" if src != "q" else ""))
            return
        want = rng.choice([1, 2, 2, 3, 3, 4]) if self.theme == "register_argument" else rng.randint(1, ln)
        m = min(want, ln)
        steps = [s for s in (1, 1, 2, 3, -1, -1, -2, -3) if (m - 1) * abs(s) <= ln - 1]
        if self.theme != "register_argument" and rng.random() < 0.4:
            steps = [s for s in steps if s == 1] or steps
        st = rng.choice(steps)
        if st > 0:
            lo = rng.randint(0, ln - 1 - (m - 1) * st)
            last = lo + (m - 1) * st
            hi = rng.randint(last + 1, min(ln, last + st))
        else:
            lo = rng.randint((m - 1) * -st, ln - 1)
            last = lo + (m - 1) * st
            hi = rng.randint(max(-1, last + st), last - 1)
        idx = list(range(lo, hi, st))
        assert len(idx) == m, (lo, hi, st, m)
        blo = self._bound(lo)
        bhi = self._bound(hi, allow_nq=src == "q") if hi >= 0 else hi
        bst = st
        if st == 1:
            if rng.random() < 0.5:
                bst = None
            if lo == 0 and rng.random() < 0.3:
                blo = None
            if hi == ln and src == "q" and rng.random() < 0.3:
                bhi = None  # (of an alias the builder freezes an omitted stop at the size under the DECLARED lets)
        elif st > 1:
            if lo == 0 and rng.random() < 0.3:
                blo = None
            if hi == ln and src == "q" and rng.random() < 0.3:
                bhi = None
        self.maps.append([name, "slice", src, blo, bhi, bst])
        self.regs[name] = [base[k] for k in idx]
        self.note(f"alias:step={st}")
        if hi == -1:
            self.note("alias:stop=-1")
        if src != "q":
            self.note("alias:of_alias")
        if m == 1:
            self.note("alias:length_1")

    # ---- references
    def qref(self, i):
        """a surface form of fundamental qubit i (declared let values)"""
        rng = self.rng
        forms = [["idx", "q", i]]
        for name, res in self.regs.items():
            for pos, t in enumerate(res):
                if t == i:
                    forms.append(["idx", name, pos])
        forms += [name for name, t in self.qubits.items() if t == i]
        f = rng.choice(forms) if rng.random() < 0.75 else forms[0]
        if isinstance(f, list):
            f = ["idx", f[1], self._bound(f[2])]
            if f[1] != "q":
                self.note("qubit_through_alias")
        return f

    def regref(self, length, pool):
        c = [name for name, res in self.regs.items() if len(res) == length and set(res) <= set(pool)]
        return self.rng.choice(c) if c else None

    def carg(self, kind, mparams=None):
        rng = self.rng
        if mparams and rng.random() < 0.55:
            p = mparams.get("ka" if kind == "i" else "fa")
            if p:
                return p
        x = rng.random()
        if kind == "i":
            if self.ka and x < 0.4:
                return rng.choice(self.ka)
            return enc(int_pool(rng, self.theme))
        if self.fa and x < 0.5:
            return rng.choice(self.fa)
        if self.ka and x < 0.58:
            return rng.choice(self.ka)  # an integer constant in a FLOAT slot
        return enc(float_pool(rng, self.theme))

    def pick_gate(self, pool, in_macro_lengths=None):
        """a native gate applicable to the qubit pool -> (name, [register alias or None per r-parameter]) | None"""
        rng = self.rng
        names = list(self.weights)
        for _ in range(12):
            g = rng.choices(names, [self.weights[k] for k in names])[0]
            if g in IDLE and not self.idle:
                continue
            params = gspec(g)[0]
            need_q = sum(1 for _p, k in params if k == "q")
            rl = [int(k[1]) for _p, k in params if k in ("r2", "r3")]
            if not rl:
                if need_q <= len(pool):
                    return g, None
                continue
            if in_macro_lengths is not None:
                continue
            r = self.regref(rl[0], pool)
            if r is None:
                continue
            rest = [q for q in pool if q not in self.regs[r]]
            if need_q <= len(rest):
                return g, r
        return None

    def gate(self, pool):
        pk = self.pick_gate(pool)
        if pk is None:
            return None
        g, r = pk
        params = gspec(g)[0]
        rest = [q for q in pool if r is None or q not in self.regs[r]]
        qs = self.rng.sample(rest, sum(1 for _p, k in params if k == "q"))
        qi = iter(qs)
        args = []
        for _pn, k in params:
            if k == "q":
                args.append(self.qref(next(qi)))
            elif k in ("r2", "r3"):
                args.append(r)
                self.uses_regarg = True
                self.note("register_argument")
                self._note_reg(r)
            else:
                args.append(self.carg(k))
        return ["g", g, args]

    def _note_reg(self, r):
        for m in self.maps:
            if m[0] == r:
                if m[1] == "whole":
                    self.note("register_argument:whole_alias")
                elif m[5] not in (None, 1):
                    self.note("register_argument:alias_step_not_1")
                if m[2] != "q":
                    self.note("register_argument:alias_of_alias")
        if r == "q":
            self.note("register_argument:fundamental_register")

    # ---- macros
    def macro(self, name, earlier):
        rng = self.rng
        nq = rng.randint(0, min(2, self.n))
        rl = None
        if rng.random() < (0.7 if self.theme == "register_argument" else 0.25):
            rl = rng.choice([2, 3])
            if nq + rl > self.n or self.regref(rl, range(self.n)) is None:
                rl = None
        if nq == 0 and rl is None:
            nq = 1
        mp = {}
        params = [f"{name}x{j}" for j in range(nq)]
        if rl:
            mp["rg"] = f"{name}rg"
            params.append(mp["rg"])
        if rng.random() < 0.7:
            mp["fa"] = f"{name}fa"
            params.append(mp["fa"])
        if rng.random() < 0.4:
            mp["ka"] = f"{name}ka"
            params.append(mp["ka"])
        if rng.random() < 0.35:
            mp["cn"] = f"{name}cn"
            params.append(mp["cn"])
        rng.shuffle(params)
        xs = [p for p in params if "x" in p[len(name):]]
        elems = list(xs) + ([["idx", mp["rg"], k] for k in range(rl)] if rl else [])

        def one():
            x = rng.random()
            if earlier and x < 0.2:
                cand = [m for m in earlier if m["nq"] <= len(xs) and (m["rl"] is None or m["rl"] == rl)]
                if cand:
                    m = rng.choice(cand)
                    qv = iter(rng.sample(xs, m["nq"]))
                    args = []
                    for p, kind in m["kinds"]:
                        if kind == "q":
                            args.append(next(qv))
                        elif kind == "rg":
                            args.append(mp["rg"])
                        elif kind == "cn":
                            args.append(mp.get("cn") or rng.randrange(3))
                        else:
                            args.append(self.carg("i" if kind == "ka" else "f", mp))
                    self.note("macro_calls_macro")
                    return ["g", m["name"], args]
            names = list(self.weights)
            for _ in range(12):
                g = rng.choices(names, [self.weights[k] for k in names])[0]
                if g in IDLE and not self.idle:
                    continue
                gp = gspec(g)[0]
                need_q = sum(1 for _p, k in gp if k == "q")
                grl = [int(k[1]) for _p, k in gp if k in ("r2", "r3")]
                if grl:
                    if not rl or grl[0] != rl or need_q > len(xs):
                        continue
                    avail = list(xs)
                else:
                    if need_q > len(elems):
                        continue
                    avail = list(elems)
                qv = iter(rng.sample(avail, need_q))
                args = []
                for _pn, k in gp:
                    if k == "q":
                        a = next(qv)
                        if isinstance(a, list):
                            self.note("register_parameter_indexed_in_macro")
                        args.append(a)
                    elif k in ("r2", "r3"):
                        args.append(mp["rg"])
                        self.uses_regarg = True
                        self.note("register_argument:through_macro_parameter")
                    else:
                        args.append(self.carg(k, mp))
                return ["g", g, args]
            return None

        body = []
        for _ in range(0 if (self.theme == "falsy_values" and rng.random() < 0.15) else rng.randint(1, 3)):
            it = one()
            if it is None:
                continue
            if rng.random() < 0.25:
                cnt = mp["cn"] if ("cn" in mp and rng.random() < 0.7) else rng.choice([0, 1, 2])
                it = ["loop", cnt, [it]]
                self.note("loop_in_macro" + ("_count_is_parameter" if isinstance(cnt, str) else ""))
            body.append(it)
        if not body:
            self.note("empty_macro_body")
        kinds = []
        for p in params:
            suffix = p[len(name):]
            kinds.append((p, "q" if suffix.startswith("x") else suffix))
        return {"name": name, "params": params, "body": body, "nq": nq, "rl": rl, "kinds": kinds}

    def call(self, m, pool):
        rng = self.rng
        r = None
        if m["rl"]:
            r = self.regref(m["rl"], pool)
            if r is None:
                return None
        rest = [q for q in pool if r is None or q not in self.regs[r]]
        if m["nq"] > len(rest):
            return None
        qv = iter(rng.sample(rest, m["nq"]))
        args = []
        for _p, kind in m["kinds"]:
            if kind == "q":
                args.append(self.qref(next(qv)))
            elif kind == "rg":
                args.append(r)
                self._note_reg(r)
                self.uses_regarg = True
            elif kind == "cn":
                z = self.theme == "falsy_values" and rng.random() < 0.6
                args.append(rng.choice(list(self.cn)) if (self.cn and rng.random() < 0.4) else (0 if z else rng.randrange(3)))
            else:
                args.append(self.carg("i" if kind == "ka" else "f"))
        self.note("macro_call")
        return ["g", m["name"], args]

    # ---- body
    def simple(self, pool):
        if self.macros and self.rng.random() < 0.3:
            it = self.call(self.rng.choice(self.macros), pool)
            if it:
                return it
        return self.gate(pool)

    def items(self, length, depth):
        rng, n = self.rng, self.n
        allq = list(range(n))
        out = []
        for _ in range(length):
            x = rng.random()
            if x < 0.12 and n >= 2:
                parts = list(allq)
                rng.shuffle(parts)
                nb = rng.randint(2, min(3, n))
                cuts = sorted(rng.sample(range(1, n), nb - 1))
                pools = [parts[a:b] for a, b in zip([0] + cuts, cuts + [n])]
                brs = []
                for pl in pools:
                    br = [it for it in (self.simple(pl) for _ in range(rng.choice([1, 1, 2]))) if it]
                    if br:
                        brs.append(br)
                if len(brs) >= 2:
                    out.append(["par", brs])
                    self.note("parallel_block")
                    continue
            if x < 0.3 and depth < 2:
                z = self.theme == "falsy_values" and rng.random() < 0.6
                cnt = rng.choice(list(self.cn)) if (self.cn and rng.random() < 0.45) else (0 if z else rng.randint(0, 3))
                inner = self.items(0 if (self.theme == "falsy_values" and rng.random() < 0.2) else rng.randint(1, 2), depth + 1)
                out.append(["loop", cnt, inner])
                self.note("loop" + ("_count_is_let" if isinstance(cnt, str) else "") + ("_empty_body" if not inner else ""))
                continue
            it = self.simple(allq)
            if it:
                out.append(it)
        return out

    def override(self):
        rng, th = self.rng, self.theme
        p = {"let_override": 1.0, "mixed": 0.5, "falsy_values": 0.5, "numeric_extremes": 0.4}.get(th, 0.15)
        if rng.random() >= p:
            return None
        if rng.random() < 0.05:
            return {}
        ov = {}
        for name, v in self.lets.items():
            if rng.random() < (0.7 if name.startswith("FA") else 0.35):
                lit = lambda x: float(x) if rng.random() < 0.35 else x
                if name.startswith("IX"):
                    ov[name] = lit(0 if (th == "falsy_values" and rng.random() < 0.6) else rng.randrange(self.n))
                elif name.startswith("CN"):
                    ov[name] = rng.choice([0, 0, 0.0, -0.0]) if rng.random() < 0.4 else lit(rng.randrange(4))
                elif name.startswith("KA"):
                    ov[name] = enc(int_pool(rng, th))
                elif name.startswith("FA"):
                    ov[name] = enc(other_kind(rng, v, th))
                elif name == "NQ":
                    ov[name] = lit(self.n + rng.choice([0, 1]))
        return ov

    def make(self):
        rng = self.rng
        self.header()
        self.macros = []
        for name in ("ma", "mb"):
            if rng.random() < 0.55:
                self.macros.append(self.macro(name, list(self.macros)))
        subs = []
        for _ in range(rng.choice([1, 1, 2, 3])):
            ln = 0 if (self.theme == "falsy_values" and rng.random() < 0.12) else rng.randint(1, 6)
            subs.append({"style": rng.choice(["plain", "block"]), "items": self.items(ln, 0)})
        return {"size": self.size, "lets": [[k, enc(v)] for k, v in self.lets.items()], "maps": self.maps,
                "macros": [[m["name"], m["params"], m["body"]] for m in self.macros], "subs": subs,
                "override": self.override()}


# ------------------------------------------------------------------ systematic sweeps (explicit small programs)
def _scramble(n):
    """a generic product state so that a wrong qubit / argument shows"""
    out = []
    for i in range(n):
        out.append(["g", "SX", [["idx", "q", i]]])
        out.append(["g", "R", [["idx", "q", i], 0.3 + 0.4 * i]])
    return out


def _ap(n, lets, maps, macros, items, override=None):
    return {"size": n, "lets": lets, "maps": maps, "macros": macros, "subs": [{"style": "plain", "items": items}],
            "override": override}


def sweep_keyword(rng, full):
    """every gate with two or more parameters x keyword orders x (top level | macro body | loop / parallel block)"""
    import itertools

    out = []
    for g, (params, _fn) in GSPEC.items():
        if len(params) < 2:
            continue
        perms = [list(p) for p in itertools.permutations(range(len(params))) if list(p) != list(range(len(params)))]
        for perm in (perms if full else [rng.choice(perms)]):
            for where in (("top", "macro", "loop") if full else (rng.choice(["top", "macro", "loop"]),)):
                n = 5
                maps = [["e", "slice", "q", 0, 5, 2], ["d", "slice", "q", 4, 2, -1]]
                qs = iter([1, 3, 2])
                args, margs, mparams = [], [], []
                for pn, k in params:
                    if k == "q":
                        a = ["idx", "q", next(qs)]
                    elif k == "r3":
                        a = "e"
                    elif k == "r2":
                        a = "d" if g != "RQ" else "e2"
                    elif k == "i":
                        a = rng.choice([1, 2, 3, 5])
                    else:
                        a = rng.choice([0.7, 1.9, -0.4, 2.3])
                    args.append(a)
                if g == "RQ":
                    maps.append(["e2", "slice", "q", 0, 3, 2])
                if g == "QR":
                    args = [["idx", "q", 1], "d"]
                if g in ("G3",):
                    pass
                items = _scramble(n)
                macros = []
                if where == "macro":
                    mparams = [f"p{j}" for j in range(len(args))]
                    macros = [["mm", mparams, [["g", g, list(mparams)]]]]
                    items.append(["g", "mm", args])
                elif where == "loop":
                    items.append(["loop", 2, [["g", g, args]]])
                else:
                    items.append(["g", g, args])
                out.append({"theme": "keyword_calls", "ap": _ap(n, [], maps, macros, items), "form": "objects", "perm": perm,
                            "kw_only": True, "assemble": rng.choice(["build", "circuit_attributes"]),
                            "fseed": rng.randrange(1 << 30), "sweep": f"keyword:{g}:{where}"})
    return out


def sweep_register(rng, full):
    """register-typed arguments x alias step x alias of alias x direct / macro parameter"""
    out = []
    combos = [(g, st, over, via) for g in ("G2", "G3", "QR", "RQ") for st in (1, 2, 3, -1, -2, -3)
              for over in ("plain", "whole_alias_of_it", "slice_of_longer_alias", "reversed_alias_of_it")
              for via in ("direct", "macro_parameter", "macro_parameter_indexed")]
    if not full:
        combos = rng.sample(combos, 30)
    for g, st, over, via in combos:
        ln = 3 if g == "G3" else 2
        n = 7
        base_len = ln + (2 if over == "slice_of_longer_alias" else 0)
        span = (base_len - 1) * abs(st)
        if span > n - 1:
            base_len, span = ln, (ln - 1) * abs(st)
            over = "plain" if over == "slice_of_longer_alias" else over
        if st > 0:
            lo = rng.randint(0, n - 1 - span)
            hi = lo + span + 1
        else:
            lo = rng.randint(span, n - 1)
            hi = lo - span - 1
        maps = [["a", "slice", "q", lo, hi, st]]
        regs = {"a": list(range(lo, hi, st))}
        name = "a"
        if over == "whole_alias_of_it":
            maps.append(["b", "whole", "a"])
            regs["b"] = regs["a"]
            name = "b"
        elif over == "slice_of_longer_alias":
            maps.append(["b", "slice", "a", 1, 1 + ln, None])
            regs["b"] = regs["a"][1:1 + ln]
            name = "b"
        elif over == "reversed_alias_of_it":
            maps.append(["b", "slice", "a", ln - 1, -1, -1])
            regs["b"] = regs["a"][::-1]
            name = "b"
        free = [q for q in range(n) if q not in regs[name]]
        qx = ["idx", "q", rng.choice(free)]
        t = rng.choice([0.4, 1.1, -0.7])
        args = {"G2": [name], "G3": [name, t], "QR": [qx, name], "RQ": [name, t, qx]}[g]
        items = _scramble(n)
        macros = []
        if via == "direct":
            items.append(["g", g, args])
        else:
            mp = [f"p{j}" for j in range(len(args))]
            body = [["g", g, list(mp)]]
            if via == "macro_parameter_indexed":
                rp = mp[args.index(name)]
                body += [["g", "X", [["idx", rp, 0]]], ["g", "CX", [["idx", rp, ln - 1], ["idx", rp, 0]]]]
            macros = [["mm", mp, body]]
            items.append(["g", "mm", args])
        items.append(["g", "X", [["idx", name, 0]]])
        out.append({"theme": "register_argument", "ap": _ap(n, [], maps, macros, items),
                    "form": rng.choice(["text", "text", "sexpr", "objects", "builder"]), "fseed": rng.randrange(1 << 30),
                    "sweep": f"register:{g}:step={st}:{over}:{via}"})
    return out


def sweep_override(rng, full):
    """declared literal x overriding value x use x way of applying the override"""
    decl = [1, 2.0, 0, -0.0, 0.25, 3, -2, 1.0]
    over = [0.5, -0.75, 2.5, 0, 0.0, -0.0, 2, 3.0, 2 ** 53 + 1, 1e-300, _ulp_up(1.0), 0.9999999999999999, -1, 1.5]
    uses = ["R", "U_first", "U_second", "VH", "PF", "CR", "G3", "macro_argument", "nested_macro_argument", "in_macro_body"]
    vias = ["fill_in_let", "fill_in_let_keyword", "parse_expand_let", "parse_expand_let_macro", "parse_expand_let_map"]
    combos = [(d, o, u) for d in decl for o in over for u in uses]
    if not full:
        combos = rng.sample(combos, 40)
    out = []
    for d, o, u in combos:
        n = 3
        lets = [["alpha", d], ["other", rng.choice([0.3, 2, 1.0])]]
        q0, q1 = ["idx", "q", 0], ["idx", "q", 1]
        macros = []
        maps = []
        if u == "R":
            it = [["g", "R", [q0, "alpha"]]]
        elif u == "U_first":
            it = [["g", "U", [q0, "alpha", "other"]]]
        elif u == "U_second":
            it = [["g", "U", [q0, "other", "alpha"]]]
        elif u == "VH":
            it = [["g", "VH", ["alpha", q1]]]
        elif u == "PF":
            it = [["g", "PF", ["alpha", q1]]]
        elif u == "CR":
            it = [["g", "CR", [q1, "alpha", q0]]]
        elif u == "G3":
            maps = [["e", "slice", "q", 2, -1, -1]]
            it = [["g", "G3", ["e", "alpha"]]]
        elif u == "macro_argument":
            macros = [["rot", ["a", "t"], [["g", "R", ["a", "t"]], ["g", "VH", ["t", "a"]]]]]
            it = [["g", "rot", [q1, "alpha"]]]
        elif u == "nested_macro_argument":
            macros = [["rot", ["a", "t"], [["g", "U", ["a", "t", "other"]]]], ["outer", ["t", "b"], [["g", "rot", ["b", "t"]], ["g", "VH", ["t", "b"]]]]]
            it = [["g", "outer", ["alpha", q0]]]
        else:
            macros = [["rot", ["a"], [["g", "R", ["a", "alpha"]], ["g", "VH", ["alpha", "a"]]]]]
            it = [["g", "rot", [q1]]]
        ov = {"alpha": enc(o)}
        if rng.random() < 0.3:
            ov["other"] = rng.choice([0.5, 1, 0])
        form = rng.choice(["text", "text", "text", "sexpr", "objects", "builder"])
        via = rng.choice(vias if (form == "text" and u != "G3") else vias[:4] if form == "text" else vias[:2])
        out.append({"theme": "let_override", "ap": _ap(n, lets, maps, macros, _scramble(n) + it + [["g", "CX", [q0, q1]]], ov),
                    "form": form, "ov_via": via, "fseed": rng.randrange(1 << 30),
                    "sweep": f"override:{type(d).__name__}_literal:{'integral' if integral(d) else 'fractional'}->"
                             f"{type(o).__name__}:{'integral' if integral(o) else 'fractional'}"})
    return out


def sweep_numeric(rng, full):
    """each extreme value x slot (INT / FLOAT) x way it reaches the gate"""
    ints = [0, -0.0, 65535, 65536, 2 ** 31, 2 ** 32 + 1, 2 ** 53, 2 ** 53 + 1, 2 ** 63 - 1, 2 ** 63, 2 ** 64 + 1, 10 ** 30 + 3,
            -(2 ** 63) - 1, 9007199254740992.0, 1e22, 1e300, int(_BIG_DIGITS[0]), int(_BIG_DIGITS[1])]
    flts = [0, 0.0, -0.0, 5e-324, 1e-300, 1e300, 0.1, _ulp_up(0.1), 1.0, _ulp_up(1.0), math.nextafter(1.0, 0.0), 2 ** 53 + 1,
            9007199254740994.0, 2 ** 64 + 1, 65535, 0.30000000000000004, 4.999999999999999, 123456789.12345679]
    ways = ["literal", "let", "macro_argument", "override", "loop_body"]
    combos = [("i", v, w) for v in ints for w in ways] + [("f", v, w) for v in flts for w in ways]
    if not full:
        combos = rng.sample(combos, 40)
    out = []
    for slot, v, way in combos:
        n = 2
        q0, q1 = ["idx", "q", 0], ["idx", "q", 1]
        gates = (lambda a: [["g", "VI", [q0, a]], ["g", "P", [q1, a]], ["g", "W", [q0, 1, a]]]) if slot == "i" else \
                (lambda a: [["g", "VH", [a, q0]], ["g", "R", [q1, a]], ["g", "U", [q0, 0.3, a]]])
        lets, macros, ov = [], [], None
        ev = enc(v)
        if way == "literal":
            it = gates(ev)
        elif way == "let":
            lets = [["val", ev]]
            it = gates("val")
        elif way == "override":
            lets = [["val", rng.choice([1, 2.0, 0]) if slot == "i" else rng.choice([1, 0.5, 2.0])]]
            ov = {"val": ev}
            it = gates("val")
        elif way == "macro_argument":
            macros = [["mm", ["v"], gates("v")]]
            it = [["g", "mm", [ev]]]
        else:
            it = [["loop", 1, gates(ev)]]
        big = isinstance(ev, list)
        form = "text" if big and rng.random() < 0.5 else rng.choice(["text", "text", "sexpr", "objects", "builder"])
        via = None if ov is None else rng.choice(["fill_in_let", "parse_expand_let", "parse_expand_let_map"] if form == "text" else ["fill_in_let"])
        out.append({"theme": "numeric_extremes", "ap": _ap(n, lets, [], macros, _scramble(n) + it + [["g", "NS", [q1, q0]]], ov),
                    "form": form, "ov_via": via, "fseed": rng.randrange(1 << 30),
                    "sweep": f"numeric:{slot}:{way}:" + ("4300_digits" if big else type(v).__name__)})
    return out


# ------------------------------------------------------------------ random cases
FORMS = {"keyword_calls": [("objects", 1)],
         "register_argument": [("text", 4), ("sexpr", 2), ("objects", 3), ("builder", 2)],
         "let_override": [("text", 6), ("sexpr", 1), ("objects", 2), ("builder", 1)],
         "numeric_extremes": [("text", 4), ("sexpr", 2), ("objects", 2), ("builder", 1)],
         "falsy_values": [("text", 4), ("sexpr", 2), ("objects", 2), ("builder", 1)],
         "mixed": [("text", 3), ("sexpr", 2), ("objects", 3), ("builder", 2)]}


def gen_case(rng, theme, thorough):
    """-> (case, features) ; the description is valid with the declared and with the overriding values"""
    rejected = 0
    while True:
        g = Gen(rng, theme, thorough)
        ap = g.make()
        try:
            interpret(ap, False)
            sem = interpret(ap, True)
            break
        except Invalid:
            rejected += 1
    forms = FORMS[theme]
    form = rng.choices([f for f, _ in forms], [w for _, w in forms])[0]
    ov = ap["override"]
    via = None
    if ov is not None:
        if form == "text":
            opts = ["fill_in_let", "fill_in_let_keyword", "parse_expand_let", "parse_expand_let_macro"]
            if not g.uses_regarg and not any(m["rl"] for m in g.macros):
                # fill_in_map is another pass with limits of its own: it refuses a whole alias used as an argument and
                # macro parameters that stand for registers
                opts += ["parse_expand_let_map", "parse_expand_let_map_macro"]
            via = rng.choice(opts)
        else:
            via = rng.choice(["fill_in_let", "fill_in_let_keyword"])
    case = {"theme": theme, "ap": ap, "form": form, "ov_via": via, "fseed": rng.randrange(1 << 30),
            "idle": g.idle, "subclass": rng.random() < 0.3, "backend": "explicit" if rng.random() < 0.2 else "default"}
    if form == "objects":
        case["assemble"] = rng.choice(["build", "circuit_attributes"])
        case["kw_only"] = theme == "keyword_calls"
    feat = dict(g.feat)
    feat["rejected_invalid_descriptions"] = rejected
    feat["executed_gates"] = sum(len(s) for s in sem["subs"])
    feat["subcircuits"] = len(sem["subs"])
    feat["subcircuits_without_gates"] = sum(1 for s in sem["subs"] if not s)
    for s in sem["subs"]:
        for _g, _q, cs in s:
            for c in cs:
                if c == 0:
                    feat["executed_argument_is_zero"] = feat.get("executed_argument_is_zero", 0) + 1
                if isinstance(c, int) and abs(c) > 2 ** 53:
                    feat["executed_int_argument_beyond_2**53"] = feat.get("executed_int_argument_beyond_2**53", 0) + 1
    if ov:
        decl = {k: dec(v) for k, v in ap["lets"]}
        for k, v in ov.items():
            v = dec(v)
            a = "integral" if integral(decl[k]) else "fractional"
            b = "integral" if integral(v) else "fractional"
            feat[f"override:{a}_literal->{type(v).__name__}_{b}"] = feat.get(f"override:{a}_literal->{type(v).__name__}_{b}", 0) + 1
            if v == 0:
                feat["override:to_zero"] = feat.get("override:to_zero", 0) + 1
    elif ov is not None:
        feat["override:empty_dictionary"] = 1
    return case, feat


# ------------------------------------------------------------------ run / replay
def run(seed: int, n: int, driver: str = DEFAULT_DRIVER, thorough: bool = False) -> dict:
    rng = random.Random(f"c03_edge:{seed}")
    dist = {}

    def bump(k, d=1):
        dist[k] = dist.get(k, 0) + d

    oracle = {o: {"cases": 0, "failures": []} for o in ORACLES}
    samples, distinct = [], set()

    def do(case, feat):
        name = "product_" + case["theme"]
        case = dict(case, oracle=name)
        styles = {}
        ok, detail = judge(case, styles)
        oracle[name]["cases"] += 1
        bump("theme:" + case["theme"])
        bump("form:" + case["form"] + (":" + case["assemble"] if case.get("assemble") else ""))
        bump("override_applied_by:" + str(case.get("ov_via")))
        if case.get("idle"):
            bump("gate_set:with_idle_gates")
        if case.get("subclass"):
            bump("gate_set:GateDefinition_subclass")
        if case.get("backend") == "explicit":
            bump("backend:explicit_UnitarySerializedEmulator")
        for k, v in list(feat.items()) + list(styles.items()):
            bump(k, v)
        distinct.add(hashlib.sha256(json.dumps([case["ap"], case["form"], case.get("ov_via")], sort_keys=True).encode()).hexdigest())
        if not ok:
            bump("failures:" + case["theme"])
            if len(oracle[name]["failures"]) < 20:
                oracle[name]["failures"].append({"case": case, "detail": detail})
        return ok

    for gen in (sweep_keyword, sweep_register, sweep_override, sweep_numeric):
        for case in gen(rng, thorough):
            bump("sweep:" + case["sweep"].split(":")[0])
            do(case, {})
    themes = list(THEMES)
    for k in range(n):
        theme = themes[k % len(themes)]
        case, feat = gen_case(rng, theme, thorough)
        do(case, feat)
        if len(samples) < 3 and k % len(themes) in (0, 1, 2) and k < 6:
            samples.append(case)
    return {"corr": {}, "oracle": oracle, "distribution": dist, "samples": samples, "nontrivial": len(distinct)}


def replay(case: dict, driver: str = DEFAULT_DRIVER) -> dict:
    try:
        ok, detail = judge(case)
    except Invalid as e:
        return {"model": None, "impl": None, "oracle_ok": None, "detail": f"not a valid program description: {e}"}
    name = case.get("oracle") or ("product_" + str(case.get("theme")))
    return {"model": None, "impl": None, "oracle_ok": bool(ok), "detail": f"{name}: {detail}"}


# ------------------------------------------------------------------ CLI
def main(argv=None):
    ap = argparse.ArgumentParser(description=__doc__.split("\n")[0])
    ap.add_argument("--driver", default=DEFAULT_DRIVER)
    ap.add_argument("--count", type=int, default=300, help="number of random programs")
    ap.add_argument("--seed", type=int, default=0)
    ap.add_argument("--thorough", action="store_true")
    ap.add_argument("--json", action="store_true")
    a = ap.parse_args(argv)
    t0 = time.time()
    res = run(a.seed, a.count, a.driver, a.thorough)
    if a.json:
        print(json.dumps(res))
    bad = 0
    for o, r in res["oracle"].items():
        print(f"oracle {o:28s} cases={r['cases']:6d} failures={len(r['failures'])}")
        bad += len(r["failures"])
        for d in r["failures"][:2]:
            print("   DETAIL", d["detail"][:900])
            c = d["case"]
            print("   CASE  ", json.dumps({k: v for k, v in c.items() if k != "ap"})[:400])
            print("   TEXT  ", to_text(c["ap"]).replace("\n", " / ")[:1200], " OVERRIDE", str(c["ap"].get("override"))[:200])
    print(f"nontrivial={res['nontrivial']}  wall={time.time() - t0:.1f}s  distribution=" + json.dumps(res["distribution"], sort_keys=True))
    return 1 if bad else 0


if __name__ == "__main__":
    sys.exit(main())
