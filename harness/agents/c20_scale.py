#!/venv/bin/python
"""C20 on pairs of programs that differ in ONE token, where the program is LARGE along one dimension, where the names are
UNUSUAL but legal, and where the parser is called with every combination of its OPTIONAL parameters.

Why (fourth-round seeded regressions missed by gen_diff / c20_pairs / c20_edge): their programs are small (a handful of
statements, depth <= 3, chains of 2 macros), all identifiers are plain short words (G, r, a, k0 ..) and every parse goes through
`parse_jaqal_string(text, inject_pulses=.., autoload_pulses=False)`.  A builder that resolves an unknown qualified gate name
`cal.Rx` to the already known gate `Rx` (so `cal.Rx` / `ref.Rx` / `Rx` build equal circuits, but only when `Rx` was used
EARLIER in the text), a comparison that stops after 256 statements / 32 levels / 64 links, a name truncated at 255 characters
or a code path taken only with `return_usepulses=True` is invisible to them.

Real code: `parse_jaqal_string` / `parse_jaqal_file` (all optional parameters), `generate_jaqal_program`, every `__eq__` of
`jaqalpaq.core` reached from `Circuit.__eq__`.  Oracles only (no Lean driver).  The script builds each program from a SPEC, prints
the text itself and computes from the spec -- independently of the library -- the declarations (value of every let; size of the
register; fundamental register, first index, length and stride of every alias) and the gate-level meaning (macros expanded, lets
and parameters substituted, qubits resolved to (fundamental register, index), short loops unrolled, same-kind blocks spliced,
one-statement blocks = the statement, numbers compared BY VALUE).  Identifiers are compared as the exact strings of the text: two
gate names are the same gate iff the tokens are identical.  Where the script cannot give a program a meaning it makes NO claim.

Streams
  scale    ONE dimension crosses 8 / 16 / 32 / 64 / 128 / 256 (/ 1000 where cheap) while everything else stays small; the
           changed token sits at the first / last / middle unit or right before / after a threshold:
             top_stmts, block_stmts ({ } < > loop-body subcircuit macro-body), depth (nests of { } < > loop subcircuit),
             macro_chain (m_i calls m_(i-1), <= 257), alias_chain (<= 129 links: the library is cubic there), lets, maps, macros,
             args (one gate), params (one macro), reg_size, iters (loop / subcircuit counts), comments (one per line)
           mutations: gate name, qubit index, numeric argument, dropped / added trailing argument, inserted one-token statement,
             loop count at level k, let value, alias index / start / source, macro body, call target, parameter reference
  ident    unusual legal spellings in every ROLE (gate name, macro name at the call, let / alias / parameter at the reference and
           at the declaration, alias source, register name): dotted names, pairs differing only by a dotted prefix / suffix
           (Rx | cal.Rx | ref.Rx | lab.v1.Rx | Rx.cal), dunder names, prefixes / extensions of keywords and of prepare_all /
           measure_all, names of the library's internal markers (__in_context__, p0, I_X, array_item, __c10 ..), look-alikes,
           case variants, names of 63 .. 65537 characters differing in the first / last / 256th character;
           crossed with the ORDER OF FIRST USE: a relative of the name used before / after the site, with the same arguments,
           as an anonymous gate, as a macro, as a let; at top level, in a loop, a parallel block, a subcircuit, a macro body
  config   a battery of the property's own single-token changes (gate name, argument, qubit index, loop count, subcircuit count,
           block kind, alias bound, let value) under EVERY combination of entry point (string / file) x autoload_pulses
           (omitted = True / True / False) x inject_pulses (omitted / None / dict / list / {}) x return_usepulses x override_dict
           (omitted / None / {}) x import_path x 0 / 1 / 2 / repeated `usepulses` lines (relative modules written by the script)
           x expand_let / expand_macro / expand_let_map.  Under the expand_* options (the parser runs passes) only the MEANING
           oracles are evaluated, not the declaration ones (expand_let_map removes aliases by design).
  Every pair may be decorated (same decoration on both sides): `;` / `|` instead of newlines, block and line comments, blank lines.

Oracles (C20 on the real code alone; names as in c20_pairs / c20_edge)
  eq_never_raises / eq_symmetric / eq_reflexive            both argument orders; c == c; c == an independent parse of the same text
  reparse_equal                                           c == parse(generate(c)) in both orders (same options)
  equal_pair_has_same_declarations_and_meaning            `==` True (either order) => script declarations and meaning agree
  declaration_change_is_unequal                           script declarations differ => False in both orders
  meaning_change_is_unequal                               script gate-level meaning differs => False in both orders
  different_declarations_or_meaning_different_text        both generate => the generated texts differ

Budget: the fixed part (configuration battery, identifier grid, one pass over every dimension x threshold) is about 1200 pairs in
the quick tier (every other entry of the battery / grid, alternating with the seed; one kind of change per size above 100) and about
2700 in the thorough tier (everything); `n` beyond that is spent on random identifier pairs (7/8) and small random scale cases (1/8).
The mutant of a program of more than 100 units is compared but not re-checked on its own (reflexivity / re-parse are checked on the
original).  Deep recursion is slow in CPython, hence few cases of depth > 64.  Recommended: quick n=2000, thorough n=8000.

Run: PYTHONPATH=/verif /venv/bin/python /verif/harness/agents/c20_scale.py [--n N] [--seed S] [--thorough]
"""
import argparse
import json
import os
import random
import re
import shutil
import signal
import sys
import tempfile
from collections import Counter
from contextlib import contextmanager

DEFAULT_DRIVER = "/verif/lean/.lake/build/bin/jaqal-model"


def _imports():
    global JaqalError, parse_jaqal_string, parse_jaqal_file, generate_jaqal_program, GATES, T, Circuit
    from jaqalpaq.error import JaqalError
    from jaqalpaq.parser import parse_jaqal_string, parse_jaqal_file
    from jaqalpaq.generator import generate_jaqal_program
    from jaqalpaq.core import Circuit
    from harness.gates import GATES
    from harness import timeouts as T


# ------------------------------------------------------------------------------------------------ guarded calls

class Hang(Exception):
    pass


def _alarm(signum, frame):
    raise Hang()


_installed = False


class alarm_handler:
    """installs the SIGALRM handler once around a whole run"""

    def __enter__(self):
        global _installed
        self.old = signal.signal(signal.SIGALRM, _alarm)
        self.was, _installed = _installed, True

    def __exit__(self, *exc):
        global _installed
        signal.alarm(0)
        signal.signal(signal.SIGALRM, self.old)
        _installed = self.was


def guarded(fn, *args):
    """-> ("ok", value) | ("jaqal", message) | ("raise", class name) | ("hang", None)"""
    if not _installed:
        with alarm_handler():
            return guarded(fn, *args)
    signal.alarm(int(T.limit()))
    try:
        try:
            return ("ok", fn(*args))
        finally:
            signal.alarm(0)
    except Hang:
        T.saw_hang()
        return ("hang", None)
    except JaqalError as e:
        return ("jaqal", str(e)[:200])
    except Exception as e:  # noqa
        return ("raise", type(e).__name__)


def py_eq(a, b):
    """True / False, or a dict describing the exception / hang"""
    st, v = guarded(lambda: a == b)
    if st == "ok":
        if v is True or v is False:
            return v
        return {"err": "returned " + type(v).__name__}
    return {"err": st if v is None else f"{st}:{v}"}


@contextmanager
def deep():
    """the SCRIPT's own recursive functions (render, reference) on deeply nested specs; never active around library calls"""
    old = sys.getrecursionlimit()
    sys.setrecursionlimit(max(old, 20000))
    try:
        yield
    finally:
        sys.setrecursionlimit(old)


# ------------------------------------------------------------------------------------------------ spec -> text
# program : {"use": [module], "head": [decl], "items": [macro | stmt]}
# decl    : ("let", name, text) | ("reg", name, atom) | ("map", name, src) | ("mapq", name, src, idx atom)
#           | ("maps", name, src, start, stop, step)   (atom | None = omitted)
# macro   : ("macro", name, [params], parallel, [stmts])
# stmt    : ("g", name, [args]) | ("loop", count atom, parallel, [stmts]) | ("blk", parallel, [stmts]) | ("sub", atom | None, [stmts])
# arg     : ("v", atom) | ("ix", name, atom)
# atom    : the TEXT of one token: a number literal or an identifier

_INT = re.compile(r"[-+]?[0-9]+\Z")
_NUM = re.compile(r"[-+]?[0-9]*\.[0-9]+([eE][-+]?[0-9]+)?\Z")


def is_lit(atom):
    return atom[0] in "+-.0123456789"


def V(atom):
    return ("v", atom)


def IX(name, atom):
    return ("ix", name, str(atom))


def G(name, *args):
    return ("g", name, list(args))


def _b(x):
    return "" if x is None else x


def r_decl(d):
    k = d[0]
    if k == "let":
        return f"let {d[1]} {d[2]}"
    if k == "reg":
        return f"register {d[1]}[{d[2]}]"
    if k == "map":
        return f"map {d[1]} {d[2]}"
    if k == "mapq":
        return f"map {d[1]} {d[2]}[{d[3]}]"
    if k == "maps":
        s = f"map {d[1]} {d[2]}[{_b(d[3])}:{_b(d[4])}"
        if d[5] is not None:
            s += f":{d[5]}"
        return s + "]"
    raise KeyError(k)


def r_arg(a):
    if a[0] == "ix":
        return f"{a[1]}[{a[2]}]"
    return a[1]


def r_block(par, stmts, ind, inline):
    o, c = ("<", ">") if par else ("{", "}")
    if not stmts:
        return o + " " + c
    if inline:
        sep = " | " if par else " ; "
        return o + " " + sep.join(r_stmt(s, ind + 1, inline) for s in stmts) + " " + c
    pad = "\t" * (ind + 1)
    sep = " |\n" if par else "\n"
    return o + "\n" + sep.join(pad + r_stmt(s, ind + 1, inline) for s in stmts) + "\n" + "\t" * ind + c


def r_stmt(s, ind=0, inline=False):
    k = s[0]
    if k == "g":
        return " ".join([s[1]] + [r_arg(a) for a in s[2]])
    if k == "loop":
        return f"loop {s[1]} " + r_block(s[2], s[3], ind, inline)
    if k == "blk":
        return r_block(s[1], s[2], ind, inline)
    if k == "sub":
        return "subcircuit " + ("" if s[1] is None else f"{s[1]} ") + r_block(False, s[2], ind, inline)
    if k == "macro":
        return " ".join(["macro", s[1]] + list(s[2])) + " " + r_block(s[3], s[4], ind, inline)
    raise KeyError(k)


COMMENTS = ["// c", "/* c */", "/* a\n b */", "/**/", "/* * / */", "// /* open", "/* // */", "/* G r[0] */", "// */", "/***/"]


def render(p, deco=None):
    """deco: None | {"inline": bool, "semi": bool, "comments": 0..1 density, "blank": bool, "dseed": int}"""
    deco = deco or {}
    inline = bool(deco.get("inline"))
    with deep():
        lines = [f"from {m} usepulses *" for m in p.get("use", ())]
        lines += [r_decl(d) for d in p["head"]]
        lines += [r_stmt(s, 0, inline) for s in p["items"]]
    dens = deco.get("comments", 0)
    out = []
    top = "/* banner */\n" if dens else ""
    for i, ln in enumerate(lines):
        h = random.Random(f"{deco.get('dseed', 0)}:{i}")
        if dens and h.random() < dens:
            c = h.choice(COMMENTS)
            ln = (c + "\n" + ln) if (c.startswith("/*") and h.random() < 0.3) else (ln + " " + c)
        end = "\n"
        if deco.get("semi") and not ln.rstrip().endswith(("// c", "open", "// */")) and "//" not in ln:
            end = h.choice([";", "; ", "\n", ";\n", "\n\n"])
        elif deco.get("blank") and h.random() < 0.3:
            end = "\n\n"
        out.append(ln + end)
    text = top + "".join(out)
    return text if text.endswith("\n") else text + "\n"


# ------------------------------------------------------------------------------------------------ spec -> meaning

class Invalid(Exception):
    """the script cannot give this program a meaning (it makes no claim then)"""


def number(text):
    if _INT.match(text):
        if len(text.lstrip("+-")) > 4300:
            raise Invalid("integer literal beyond Python's conversion limit")
        return int(text)
    if _NUM.match(text):
        v = float(text)
        if v in (float("inf"), float("-inf")):
            raise Invalid("float literal out of range")
        return v
    raise Invalid(f"not a number token: {text[:20]!r}")


def int_of(atom, lets, penv):
    if is_lit(atom):
        v = number(atom)
    elif atom in penv:
        pv = penv[atom]
        if pv[0] != "n":
            raise Invalid(f"{atom[:30]} is not a number")
        v = pv[1]
    elif atom in lets:
        v = lets[atom]
    else:
        raise Invalid(f"unknown name {atom[:30]}")
    if isinstance(v, bool) or not isinstance(v, int):
        raise Invalid(f"{atom[:30]} is not an integer")
    return v


def count_of(start, stop, step):
    if step > 0:
        return max(0, (stop - start + step - 1) // step)
    return max(0, (start - stop - step - 1) // (-step))


def qrange(fund, first, count, step):
    if count == 0:
        return ("R", fund, 0, 0, 1)
    if count == 1:
        return ("R", fund, first, 1, 1)
    return ("R", fund, first, count, step)


def as_range(entry, name):
    if entry[0] == "F":
        return qrange(name, 0, entry[1], 1)
    if entry[0] == "R":
        return entry
    raise Invalid(f"{name[:30]} is not a register")


def ev_header(head):
    """-> (lets: name -> number, regs: name -> ("F", n) | ("R", fund, first, count, step) | ("Q", fund, index))"""
    lets, regs = {}, {}
    nfund = 0
    for d in head:
        k, name = d[0], d[1]
        if name in lets or name in regs:
            raise Invalid(f"{name[:30]} declared twice")
        if k == "let":
            lets[name] = number(d[2])
        elif k == "reg":
            n = int_of(d[2], lets, {})
            if n <= 0:
                raise Invalid("register size")
            nfund += 1
            if nfund > 1:
                raise Invalid("two registers")
            regs[name] = ("F", n)
        else:
            src = d[2]
            if src not in regs:
                raise Invalid(f"unknown source {src[:30]}")
            _, fund, first, count, step = as_range(regs[src], src)
            if k == "map":
                regs[name] = qrange(fund, first, count, step)
            elif k == "mapq":
                i = int_of(d[3], lets, {})
                if not 0 <= i < count:
                    raise Invalid("index out of range")
                regs[name] = ("Q", fund, first + i * step)
            else:
                a = 0 if d[3] is None else int_of(d[3], lets, {})
                b = count if d[4] is None else int_of(d[4], lets, {})
                c = 1 if d[5] is None else int_of(d[5], lets, {})
                if c == 0:
                    raise Invalid("zero step")
                m = count_of(a, b, c)
                if not (0 <= a <= count) or (m and not (0 <= a < count and 0 <= a + (m - 1) * c < count)):
                    raise Invalid("slice out of range")
                regs[name] = qrange(fund, first + a * step, m, step * c)
    return lets, regs


def ev_arg(a, lets, regs, penv):
    if a[0] == "v":
        atom = a[1]
        if is_lit(atom):
            return ("n", number(atom))
        if atom in penv:
            return penv[atom]
        if atom in lets:
            return ("n", lets[atom])
        if atom in regs:
            e = regs[atom]
            return ("q", e[1], e[2]) if e[0] == "Q" else ("r",) + as_range(e, atom)[1:]
        raise Invalid(f"unknown name {atom[:30]}")
    name = a[1]
    if name in penv:
        base = penv[name]
        if base[0] != "r":
            raise Invalid(f"{name[:30]} is not a register")
        _, fund, first, count, step = base
    elif name in regs:
        _, fund, first, count, step = as_range(regs[name], name)
    else:
        raise Invalid(f"unknown register {name[:30]}")
    i = int_of(a[2], lets, penv)
    if not 0 <= i < count:
        raise Invalid("index out of range")
    return ("q", fund, first + i * step)


def ev_stmt(s, env, penv):
    lets, regs, macros = env
    k = s[0]
    if k == "g":
        args = tuple(ev_arg(a, lets, regs, penv) for a in s[2])
        if s[1] in macros:
            params, par, stmts, menv = macros[s[1]]
            if len(params) != len(args):
                raise Invalid("arity")
            inner = dict(zip(params, args))
            return ("par" if par else "seq", [ev_stmt(x, (lets, regs, menv), inner) for x in stmts])
        return ("g", s[1], args)
    if k == "loop":
        n = int_of(s[1], lets, penv)
        if n < 0:
            raise Invalid("negative count")
        return ("rep", n, ("par" if s[2] else "seq", [ev_stmt(x, env, penv) for x in s[3]]))
    if k == "blk":
        return ("par" if s[1] else "seq", [ev_stmt(x, env, penv) for x in s[2]])
    if k == "sub":
        n = 1 if s[1] is None else int_of(s[1], lets, penv)
        if n < 0:
            raise Invalid("negative count")
        return ("sub", n, [ev_stmt(x, env, penv) for x in s[2]])
    raise KeyError(k)


UNROLL = 12
UNROLL_NODES = 400
EMPTY = ("seq", ())


def _norm(node):
    """-> (canonical form, number of nodes in it)"""
    t = node[0]
    if t == "g":
        return node, 1
    if t == "sub":
        if node[1] == 0:
            return ("sub", 0, ()), 1
        inner, sz = _norm(("seq", node[2]))
        items = inner[1] if inner[0] == "seq" else (inner,)
        return ("sub", node[1], tuple(items)), sz + 1
    if t == "rep":
        n = node[1]
        body, sz = _norm(node[2])
        if n == 0 or body == EMPTY:
            return EMPTY, 1
        if n == 1:
            return body, sz
        if n <= UNROLL and n * sz <= UNROLL_NODES:
            return _norm(("seq", [body] * n))
        if body[0] == "rep":
            return ("rep", n * body[1], body[2]), sz
        return ("rep", n, body), sz + 1
    out, total = [], 1
    for ch in node[1]:
        c, sz = (ch, 1) if ch[0] == "g" else _norm(ch)
        if c[0] in ("seq", "par") and (c[0] == t or len(c[1]) == 0):
            out.extend(c[1])
            total += sz - 1
        else:
            out.append(c)
            total += sz
    if len(out) == 1:
        return out[0], total - 1
    if not out:
        return EMPTY, 1
    return (t, tuple(out)), total


def norm(node):
    """canonical gate-level form: nested same-kind blocks spliced, empty blocks dropped, one-item blocks = the item, loops of
    up to UNROLL repetitions unrolled (while small), longer ones kept as ("rep", count, body); a block never run has no body"""
    return _norm(node)[0]


def gate_names(stmts, out):
    for s in stmts:
        if s[0] == "g":
            out.append(s[1])
        elif s[0] == "loop":
            gate_names(s[3], out)
        elif s[0] == "blk":
            gate_names(s[2], out)
        elif s[0] == "sub":
            gate_names(s[2], out)


def analyse(p):
    """-> {"decls": (lets, regs) | None, "meaning": tree | None}"""
    with deep():
        try:
            lets, regs = ev_header(p["head"])
        except Invalid:
            return {"decls": None, "meaning": None}
        try:
            macros, seen, body = {}, set(), []
            for it in p["items"]:
                if it[0] == "macro":
                    _, name, params, par, stmts = it
                    used = []
                    gate_names(stmts, used)
                    seen.update(u for u in used if u not in macros)
                    if name in macros or name in seen or len(set(params)) != len(params):
                        raise Invalid("macro name clash / use before definition")
                    macros[name] = (params, par, stmts, dict(macros))
                else:
                    used = []
                    gate_names([it], used)
                    seen.update(u for u in used if u not in macros)
                    body.append(ev_stmt(it, (lets, regs, dict(macros)), {}))
            meaning = norm(("seq", body))
        except Invalid:
            meaning = None
    return {"decls": (lets, regs), "meaning": meaning}


def clip(s, k=400):
    return s if len(s) <= k else s[:k // 2] + f"...<{len(s) - k} more characters>..." + s[-k // 2:]


def first_diff(a, b, path="", budget=None):
    """where two nested structures differ: 'path: x vs y' (short)"""
    if budget is None:
        budget = [20000]
    budget[0] -= 1
    if budget[0] < 0:
        return path + ": (large)"
    if isinstance(a, dict) and isinstance(b, dict):
        for k in a:
            if k not in b:
                return f"{path}/{clip(str(k), 60)}: only in A"
        for k in b:
            if k not in a:
                return f"{path}/{clip(str(k), 60)}: only in B"
        for k in a:
            if a[k] != b[k]:
                return first_diff(a[k], b[k], f"{path}/{clip(str(k), 60)}", budget)
        return None
    if isinstance(a, (tuple, list)) and isinstance(b, (tuple, list)):
        if len(a) != len(b):
            return f"{path}: {len(a)} items vs {len(b)} items"
        for i, (x, y) in enumerate(zip(a, b)):
            if x != y:
                return first_diff(x, y, f"{path}/{i}", budget)
        return None
    if a != b:
        return f"{path}: {clip(repr(a), 80)} vs {clip(repr(b), 80)}"
    return None


# ------------------------------------------------------------------------------------------------ real side: configurations
# cfg (JSON): {"entry": "string" | "file", "autoload": bool (absent = parameter omitted), "inject": "none" | "GATES" | "list" | "empty"
#              (absent = omitted), "return_usepulses": bool, "override_dict": "none" | "empty", "import_path": True,
#              "expand_let" / "expand_macro" / "expand_let_map": True, "use": [module names written as usepulses lines]}

MODULE_A = '''from jaqalpaq.core import GateDefinition, Parameter, ParamType
from jaqalpaq.core.gatedef import BusyGateDefinition
Q, F, I = ParamType.QUBIT, ParamType.FLOAT, ParamType.INT
def _g(name, *ps):
    return GateDefinition(name, [Parameter(n, k) for n, k in ps])
ALL_GATES = {g.name: g for g in [
    _g("X", ("q", Q)), _g("Y", ("q", Q)), _g("Z", ("q", Q)), _g("P", ("q", Q), ("k", I)), _g("PF", ("k", F), ("q", Q)),
    _g("CX", ("c", Q), ("t", Q)), _g("Rx", ("q", Q), ("a", F)), BusyGateDefinition("prepare_all", []), BusyGateDefinition("measure_all", [])]}
'''
MODULE_B = MODULE_A.replace('_g("Rx", ("q", Q), ("a", F))', '_g("Ry", ("q", Q), ("a", F)), _g("H", ("q", Q))')
MODULES = {"c20sa": MODULE_A, "c20sb": MODULE_B}


class Real:
    """the calls into the library; owns the scratch directory with the pulse modules and the program files"""

    def __init__(self):
        self.dir = None
        self.nfile = 0

    def scratch(self):
        if self.dir is None:
            shm = "/dev/shm" if os.path.isdir("/dev/shm") and os.access("/dev/shm", os.W_OK) else None
            self.dir = tempfile.mkdtemp(prefix="c20_scale_", dir=shm)
            for name, src in MODULES.items():
                os.mkdir(os.path.join(self.dir, name))
                with open(os.path.join(self.dir, name, "__init__.py"), "w") as f:
                    f.write("")
                with open(os.path.join(self.dir, name, "jaqal_gates.py"), "w") as f:
                    f.write(src)
        return self.dir

    def close(self):
        if self.dir is not None:
            shutil.rmtree(self.dir, ignore_errors=True)
            self.dir = None

    def parse(self, text, cfg):
        kw = {}
        if "autoload" in cfg:
            kw["autoload_pulses"] = cfg["autoload"]
        inj = cfg.get("inject")
        if inj is not None:
            kw["inject_pulses"] = {"none": None, "GATES": GATES, "list": list(GATES.values()), "empty": {}}[inj]
        if "return_usepulses" in cfg:
            kw["return_usepulses"] = cfg["return_usepulses"]
        if "override_dict" in cfg:
            kw["override_dict"] = None if cfg["override_dict"] == "none" else {}
        for k in ("expand_let", "expand_macro", "expand_let_map"):
            if cfg.get(k):
                kw[k] = True
        if cfg.get("import_path"):
            kw["import_path"] = self.scratch()
        if cfg.get("entry") == "file":
            self.nfile += 1
            fn = os.path.join(self.scratch(), f"p{self.nfile % 8}.jaqal")
            with open(fn, "w") as f:
                f.write(text)
            res = parse_jaqal_file(fn, **kw)
        else:
            res = parse_jaqal_string(text, **kw)
        if kw.get("return_usepulses"):
            if not (isinstance(res, tuple) and len(res) == 2 and isinstance(res[1], dict)):
                raise TypeError("return_usepulses=True did not return (circuit, dict)")
            res = res[0]
        if not isinstance(res, Circuit):
            raise TypeError("the parser did not return a Circuit")
        return res


def cfg_key(cfg):
    return json.dumps(cfg, sort_keys=True)


def cfg_label(cfg):
    parts = [cfg.get("entry", "string"), "autoload=" + str(cfg.get("autoload", "omitted")), "inject=" + str(cfg.get("inject", "omitted"))]
    for k in ("return_usepulses", "override_dict", "import_path", "expand_let", "expand_macro", "expand_let_map"):
        if k in cfg:
            parts.append(f"{k}={cfg[k]}")
    if cfg.get("use"):
        parts.append("use=" + "+".join(cfg["use"]))
    return ",".join(parts)


def expands(cfg):
    return bool(cfg.get("expand_let") or cfg.get("expand_macro") or cfg.get("expand_let_map"))


ANON = {"autoload": False}
ANON_CFGS = [
    {"autoload": False},
    {"autoload": False, "inject": "none"},
    {"autoload": False, "return_usepulses": True},
    {"autoload": False, "return_usepulses": False, "override_dict": "none"},
    {"autoload": False, "override_dict": "empty"},
    {"autoload": False, "override_dict": "empty", "return_usepulses": True, "inject": "none"},
    {"autoload": False, "entry": "file"},
    {"autoload": False, "entry": "file", "import_path": True, "return_usepulses": True},
    {"autoload": False, "import_path": True},
    {"autoload": False, "use": ["m"]},
    {"autoload": False, "use": ["qscout.v1.std", ".loc"], "return_usepulses": True},
    {"autoload": False, "use": ["m", "m"]},
    {"autoload": False, "expand_let": True},
    {"autoload": False, "expand_let": True, "override_dict": "empty"},
    {"autoload": False, "expand_let": True, "override_dict": "none", "return_usepulses": True},
    {"autoload": False, "expand_macro": True},
    {"autoload": False, "expand_let_map": True},
    {"autoload": False, "expand_let_map": True, "override_dict": "empty", "entry": "file"},
    {"autoload": False, "expand_macro": True, "expand_let": True, "expand_let_map": True, "return_usepulses": True},
]
TYPED_CFGS = [
    {"autoload": False, "inject": "GATES"},
    {"inject": "GATES"},
    {"autoload": True, "inject": "GATES"},
    {"inject": "list"},
    {"autoload": False, "inject": "list", "return_usepulses": True},
    {"inject": "GATES", "return_usepulses": True, "override_dict": "empty"},
    {"inject": "GATES", "entry": "file"},
    {"use": [".c20sa"], "import_path": True},
    {"autoload": True, "use": [".c20sa"], "import_path": True, "return_usepulses": True},
    {"use": [".c20sa", ".c20sb"], "import_path": True},
    {"use": [".c20sb", ".c20sa"], "import_path": True, "override_dict": "none"},
    {"use": [".c20sa", ".c20sa"], "import_path": True},
    {"use": [".c20sa"], "import_path": True, "inject": "GATES"},
    {"use": [".c20sa"], "import_path": True, "inject": "none"},
    {"autoload": False, "use": [".c20sa"], "inject": "GATES"},
    {"autoload": False, "use": [".c20sa", ".c20sb"], "inject": "list", "import_path": True},
    {"use": [".c20sa"], "entry": "file"},
    {"use": [".c20sb", ".c20sa"], "entry": "file", "return_usepulses": True},
    {"use": [".c20sa"], "entry": "file", "import_path": True, "inject": "GATES"},
    {"inject": "GATES", "expand_let": True},
    {"inject": "GATES", "expand_macro": True, "override_dict": "empty"},
    {"use": [".c20sa"], "import_path": True, "expand_let_map": True},
    {"inject": "empty"},
    {"autoload": False, "inject": "empty"},
]


# ------------------------------------------------------------------------------------------------ oracles

ORACLES = ["eq_never_raises", "eq_symmetric", "eq_reflexive", "reparse_equal", "equal_pair_has_same_declarations_and_meaning",
           "declaration_change_is_unequal", "meaning_change_is_unequal", "different_declarations_or_meaning_different_text"]


class Acc:
    def __init__(self, real):
        self.real = real
        self.oracle = {k: {"cases": 0, "failures": []} for k in ORACLES}
        self.dist = Counter()
        self.samples = []
        self.nontrivial = set()
        self.cache = {}

    def check(self, name, ok, case, detail):
        o = self.oracle[name]
        o["cases"] += 1
        if not ok:
            if len(o["failures"]) < 20:
                o["failures"].append({"case": case, "detail": detail})
            else:
                o["more_failures"] = o.get("more_failures", 0) + 1

    def parsed(self, text, cfg, program=True):
        """-> (status, circuit, generated text | None); the program-level oracles are evaluated once per distinct (text, cfg)
        (program=False: not for this text -- the mutant of a large program, whose original has just been checked)"""
        key = (text, cfg_key(cfg))
        if key not in self.cache:
            if len(self.cache) > 64:
                self.cache.clear()
            st, c = guarded(self.real.parse, text, cfg)
            gen = None
            if st == "ok":
                stg, g = guarded(generate_jaqal_program, c)
                gen = g if stg == "ok" and isinstance(g, str) else None
                if gen is None:
                    self.dist[f"generate_fails:{stg}"] += 1
                self.cache[key] = (st, c, gen)
                if program:
                    self.program_oracles(text, cfg, c, gen)
            else:
                self.dist[f"program_rejected:{st}"] += 1
                self.cache[key] = (st, None, None)
        return self.cache[key]

    def program_oracles(self, text, cfg, c, gen):
        case = {"kind": "program", "text": text, "cfg": cfg}
        self.dist["distinct_programs"] += 1
        st2, c2 = guarded(self.real.parse, text, cfg)
        r = [py_eq(c, c)] + ([py_eq(c, c2), py_eq(c2, c)] if st2 == "ok" else [])
        self.check("eq_reflexive", all(x is True for x in r), case, f"c==c, c==second parse of the same text, reverse: {r}")
        if gen is not None:
            st, cg = guarded(self.real.parse, gen, cfg)
            if st != "ok":
                self.check("reparse_equal", False, case, f"generated text not accepted ({st}: {cg}): {clip(gen)!r}")
            else:
                e = [py_eq(c, cg), py_eq(cg, c)]
                self.check("reparse_equal", e == [True, True], case, f"c==parse(generate(c)): {e[0]}, reverse: {e[1]}; text {clip(gen)!r}")


def pair_oracles(acc, case):
    cfg = case["cfg"]
    sa, ca, ga = acc.parsed(case["a"], cfg)
    sb, cb, gb = acc.parsed(case["b"], cfg, program=not case.get("light"))
    if sa != "ok" or sb != "ok":
        acc.dist["pair_skipped_a_side_rejected"] += 1
        return None
    ab, ba = py_eq(ca, cb), py_eq(cb, ca)
    acc.check("eq_never_raises", isinstance(ab, bool) and isinstance(ba, bool), case, f"a==b: {ab}, b==a: {ba}")
    acc.check("eq_symmetric", ab == ba, case, f"a==b is {ab} but b==a is {ba}")
    equal = ab is True or ba is True
    md = case.get("meaning_differs")
    dd = None if expands(cfg) else case.get("decl_differs")     # the passes run by expand_* may remove declarations
    why = f"first difference of the declarations: {case.get('decl_diff')}; of the meanings: {case.get('meaning_diff')}"
    if equal:
        acc.check("equal_pair_has_same_declarations_and_meaning", not dd and not md, case,
                  f"the circuits compare equal (a==b {ab}, b==a {ba}) but declarations differ: {dd}, gate-level meaning differs: {md}; {why}")
    if dd:
        acc.check("declaration_change_is_unequal", ab is False and ba is False, case, f"declarations differ but a==b is {ab}, b==a is {ba}; {why}")
    if md:
        acc.check("meaning_change_is_unequal", ab is False and ba is False, case, f"gate-level meanings differ but a==b is {ab}, b==a is {ba}; {why}")
    if (dd or md) and ga is not None and gb is not None:
        acc.check("different_declarations_or_meaning_different_text", ga != gb, case, f"both circuits generate {clip(ga)!r}")
    return ab, ba


def token_diff(ta, tb):
    """how the two texts differ, token-wise (distribution only; comments are not tokens)"""
    strip = lambda t: re.sub(r"/\*(\n|[^\n])*?\*/|//[^\n]*", " ", t)  # noqa
    split = lambda t: re.findall(r"[A-Za-z_][A-Za-z0-9_.]*|[-+]?[0-9]*\.?[0-9]+(?:[eE][-+]?[0-9]+)?|[^\s;|]", strip(t))  # noqa
    a, b = split(ta), split(tb)
    if len(a) == len(b):
        k = sum(x != y for x, y in zip(a, b))
        return f"{k}_token{'s' if k != 1 else ''}_substituted"
    if abs(len(a) - len(b)) == 1:
        lo, hi = (a, b) if len(a) < len(b) else (b, a)
        i = 0
        while i < len(lo) and lo[i] == hi[i]:
            i += 1
        if hi[:i] + hi[i + 1:] == lo:
            return "1_token_inserted"
    return "other"


def bucket(n):
    for t in (8, 16, 32, 64, 128, 256, 1000):
        if n <= t:
            return f"<={t}"
    return ">1000"


def process(acc, A, B, tagd, cfg, deco=None):
    """A, B: specs; tagd: JSON tags (stream, dim / role, size, ...)"""
    if cfg.get("use"):
        A, B = dict(A, use=cfg["use"]), dict(B, use=cfg["use"])
    ta, tb = render(A, deco), render(B, deco)
    if ta == tb:
        acc.dist["identical_texts_skipped"] += 1
        return
    ia, ib = analyse(A), analyse(B)
    da, db = ia["decls"], ib["decls"]
    dd = None if da is None or db is None else (da != db)
    md = None if ia["meaning"] is None or ib["meaning"] is None else (ia["meaning"] != ib["meaning"])
    with deep():
        case = {"kind": "pair", "cfg": cfg, "a": ta, "b": tb, "decl_differs": dd, "meaning_differs": md,
                "decl_diff": first_diff(da, db) if dd else None, "meaning_diff": first_diff(ia["meaning"], ib["meaning"]) if md else None}
    case.update(tagd)
    d = acc.dist
    d["pairs_generated"] += 1
    res = pair_oracles(acc, case)
    what = tagd.get("dim") or tagd.get("role") or tagd.get("what")
    if res is None:
        d[f"rejected:{tagd['stream']}:{what}"] += 1
        return
    ab, ba = res
    acc.nontrivial.add(hash((ta, tb, cfg_key(cfg))))
    d["pairs"] += 1
    d[f"stream:{tagd['stream']}"] += 1
    d[f"{tagd['stream']}:{what}"] += 1
    for key in ("mutation", "position", "names", "neighbour", "context"):
        if tagd.get(key) is not None:
            d[f"{key}:{tagd[key]}"] += 1
    if tagd.get("size") is not None:
        d[f"size:{what}:{bucket(tagd['size'])}"] += 1
        d[f"size_bucket:{bucket(tagd['size'])}"] += 1
    d["cfg:" + cfg_label(cfg)] += 1
    if deco:
        for k, v in deco.items():
            if v and k != "dseed":
                d[f"decoration:{k}"] += 1
    d["text_difference:" + token_diff(ta, tb)] += 1
    d[f"script_verdict:decl_{'unknown' if dd is None else 'differs' if dd else 'same'}:meaning_{'unknown' if md is None else 'differs' if md else 'same'}"] += 1
    d["pair_compares_" + ("equal" if ab is True and ba is True else "unequal" if ab is False and ba is False else "ODD")] += 1
    if len(acc.samples) < 10 and not any(s.get("dim", s.get("role")) == what for s in acc.samples):
        acc.samples.append({k: (clip(v) if isinstance(v, str) else v) for k, v in case.items()})


# ------------------------------------------------------------------------------------------------ stream 1: scale
# A builder is  build(N, k, mk, side, o) -> spec : N = size along the dimension, k = position of the changed unit, mk = kind of
# change, side = 0 (original) | 1 (mutant), o = options drawn once per pair (vocabulary, register size, wrappers ...).

THRESHOLDS = (8, 16, 32, 64, 128, 256)
ANON_VOCAB = {"g1": ["G", "H", "K"], "alt": {"G": "H", "H": "K", "K": "G"}, "typed": False}
TYPED_VOCAB = {"typed": True}


def unit(i, o, reg="r"):
    """the i-th statement of a long run: distinct from its neighbours in name, qubit and argument"""
    nq = o["nq"]
    if o["typed"]:
        return G("X" if i % 2 else "P", IX(reg, i % nq), *([] if i % 2 else [V(str(i))]))
    return G(ANON_VOCAB["g1"][i % 3], IX(reg, i % nq), V(str(i) if i % 5 else f"{i}.5"))


def mutate_gate(s, mk, o, bump):
    """one token of a gate statement changed; None = not applicable"""
    name, args = s[1], list(s[2])
    if mk == "gate":
        if o["typed"]:
            alt = {"X": "Y", "Y": "Z", "Z": "X"}.get(name)
            if alt is None:
                return None
            return G(alt, *args)
        return G(ANON_VOCAB["alt"].get(name, name + "x"), *args)
    if mk == "index":
        for j, a in enumerate(args):
            if a[0] == "ix" and is_lit(a[2]):
                args[j] = IX(a[1], (int(a[2]) + 1) % o["nq"] if o["nq"] > 1 else int(a[2]) + 1)
                return G(name, *args)
        return None
    if mk == "arg":
        for j in range(len(args) - 1, -1, -1):
            a = args[j]
            if a[0] == "v" and is_lit(a[1]):
                v = number(a[1])
                args[j] = V(str(v + bump) if isinstance(v, int) else repr(v + bump))
                return G(name, *args)
        return None
    if mk == "drop_arg":
        if o["typed"] or not args or args[-1][0] != "v":
            return None
        return G(name, *args[:-1])
    if mk == "add_arg":
        if o["typed"]:
            return None
        return G(name, *args, V("0"))
    raise KeyError(mk)


UNIT_MUTS = ["gate", "index", "arg", "drop_arg", "add_arg", "insert"]


def prepare_units(units, k, mk, o):
    """an anonymous gate keeps the number of arguments of its first use: the unit whose argument list changes gets a name of its own
    (on BOTH sides)"""
    if mk in ("drop_arg", "add_arg") and not o["typed"]:
        return units[:k] + [G("U", *units[k][2])] + units[k + 1:]
    return units


def mutate_units(units, k, mk, o):
    if mk == "insert":
        if o["typed"]:
            return None
        return units[:k] + [G("U0")] + units[k:]
    m = mutate_gate(units[k], mk, o, len(units) + 7)
    if m is None:
        return None
    return units[:k] + [m] + units[k + 1:]


def head_r(o, extra=()):
    return list(extra) + [("reg", "r", str(o["nq"]))]


def b_top(N, k, mk, side, o):
    units = prepare_units([unit(i, o) for i in range(N)], k, mk, o)
    if side:
        units = mutate_units(units, k, mk, o)
    return None if units is None else {"head": head_r(o), "items": units}


BLOCK_KINDS = ["seq", "par", "loop2", "loop13", "parloop", "sub", "sub3", "macro", "parmacro", "loop_in_sub"]


def b_block(N, k, mk, side, o):
    units = prepare_units([unit(i, o) for i in range(N)], k, mk, o)
    if side:
        units = mutate_units(units, k, mk, o)
    if units is None:
        return None
    kind = o["kind"]
    first = G("Y" if o["typed"] else "F", IX("r", 0))
    if kind == "seq":
        items = [("blk", False, units)]
    elif kind == "par":
        items = [("blk", True, units)]
    elif kind == "loop2":
        items = [("loop", "2", False, units)]
    elif kind == "loop13":
        items = [("loop", "13", False, units)]
    elif kind == "parloop":
        items = [("loop", "3", True, units)]
    elif kind == "sub":
        items = [("sub", None, units)]
    elif kind == "sub3":
        items = [("sub", "3", units)]
    elif kind == "loop_in_sub":
        items = [("sub", "2", [("loop", "2", False, units)])]
    elif kind == "macro":
        items = [("macro", "big", [], False, units), G("big")]
    elif kind == "parmacro":
        items = [("macro", "big", [], True, units), G("big")]
    else:
        raise KeyError(kind)
    return {"head": head_r(o), "items": [first] + items + [first]}


def depth_levels(rng, N, pattern):
    """a legal chain of N nested blocks, outermost first: seq | par | loop_seq | loop_par | sub"""
    levels, cont, closed = [], "top", False     # cont: kind of the innermost container; closed: a par / sub ancestor exists
    for i in range(N):
        if cont == "par":
            lv = "seq"
        elif pattern == "alternate":
            lv = "seq" if cont == "top" else "par"
        elif pattern == "loops":
            lv = "loop_seq"
        elif pattern == "par_loops":
            lv = "loop_par" if i % 2 == 0 else "seq"
        else:
            opts = ["par", "loop_seq", "loop_seq", "loop_par"] + (["seq"] if cont == "top" else []) + ([] if closed else ["sub"])
            lv = rng.choice(opts)
        if pattern == "sub_outer" and i == 0:
            lv = "sub"
        levels.append(lv)
        cont = "par" if lv in ("par", "loop_par") else "seq"
        closed = closed or lv in ("par", "loop_par", "sub")
    return levels


def b_depth(N, k, mk, side, o):
    """N nested blocks around one gate; mk: gate / index / arg (the innermost gate), count@ (loop / subcircuit count of level k),
    sibling@ (the gate standing beside the nested block at level k)"""
    levels, counts, sibs = o["levels"], o["counts"], o["sibs"]
    g0 = unit(1, o) if o["typed"] else G("G", IX("r", 3 % o["nq"]), V("3"), V("0.123456789"))
    if side and mk in ("gate", "index", "arg"):
        g0 = mutate_gate(g0, mk, o, 7)
        if g0 is None:
            return None
    inner = [g0]
    hit = False
    for i in range(N - 1, -1, -1):
        lv = levels[i]
        stmts = list(inner)
        if sibs[i]:
            sg = G("Y" if o["typed"] else "K", IX("r", (i + 1) % o["nq"]))
            if side and mk == "sibling@" and i == k:
                sg = G("Z" if o["typed"] else "H", IX("r", (i + 1) % o["nq"]))
                hit = True
            stmts = stmts + [sg] if i % 2 else [sg] + stmts
        c = counts[i]
        if side and mk == "count@" and i == k and lv in ("loop_seq", "loop_par", "sub"):
            c = c + 1
            hit = True
        if lv == "seq":
            node = ("blk", False, stmts)
        elif lv == "par":
            node = ("blk", True, stmts)
        elif lv == "loop_seq":
            node = ("loop", str(c), False, stmts)
        elif lv == "loop_par":
            node = ("loop", str(c), True, stmts)
        else:
            node = ("sub", str(c), stmts)
        inner = [node]
    if side and mk in ("count@", "sibling@") and not hit:
        return None
    return {"head": head_r(o), "items": inner}


def b_macro_chain(N, k, mk, side, o):
    """m0 .. m(N-1), m_i calls m_(i-1); mk: gate@ / arg@ (link k's own gate), target@ (link k calls m_(k-2)), index / callarg (the call)"""
    two = o["two"]
    ps = ["a", "n"] if two else ["a"]
    pa = [V(p) for p in ps]
    g, h = ("X", "Y") if o["typed"] else ("G", "H")
    items = []
    for i in range(N):
        if o["typed"]:
            own = G("P", V("a"), V(str(i))) if (i % 2 == 0) else G(h, V("a"))
        else:
            own = G(h, V("a"), V(str(i)))
        if side and i == k and mk in ("gate@", "arg@"):
            own = mutate_gate(own, mk[:-1], o, N + 3)
            if own is None:
                return None
        if i == 0:
            body = [G(g, V("a")) if o["typed"] else G(g, *pa), own]
        else:
            tgt = i - 1
            if side and i == k and mk == "target@":
                if i < 2:
                    return None
                tgt = i - 2
            body = ([own] if o["own"] or i == k else []) + [G(f"m{tgt}", *pa)]
        items.append(("macro", f"m{i}", ps, False, body))
    idx, val = 0, "5"
    if side and mk == "index":
        idx = 1
    if side and mk == "callarg":
        if not two:
            return None
        val = "6"
    items.append(G(f"m{N - 1}", IX("r", idx), *([V(val)] if two else [])))
    return {"head": head_r(o), "items": items}


def b_alias_chain(N, k, mk, side, o):
    """a0 = r[1:], a_i = a_(i-1)[1:] (or the whole of it); mk: start@ (link k starts at 0), src@ (link k skips a link), index (the use)"""
    head = [("reg", "r", str(N + 3))]
    whole = o["whole"]
    for i in range(N):
        src = "r" if i == 0 else f"a{i - 1}"
        start = None if i in whole else "1"
        if side and i == k:
            if mk == "start@":
                if start is None:
                    return None
                start = "0"
            elif mk == "src@":
                if i < 2 or (i - 1) in whole:
                    return None
                src = f"a{i - 2}"
        head.append(("map", f"a{i}", src) if start is None else ("maps", f"a{i}", src, start, None, None))
    idx = "1" if (side and mk == "index") else "0"
    g = "X" if o["typed"] else "G"
    if o["named"]:
        head.append(("mapq", "q", f"a{N - 1}", idx))
        items = [G(g, V("q"))]
    else:
        items = [G(g, IX(f"a{N - 1}", idx))]
    return {"head": head, "items": items}


def let_value(i):
    return f"{i}.25" if i % 4 == 3 else str(i)


def b_lets(N, k, mk, side, o):
    """N lets; mk: value@ (value of let k), ref (the statement names let k-1 / k+1 instead of let k)"""
    use = o["use"]
    head = []
    for i in range(N):
        v = str(i) if use in ("index", "count") else let_value(i)
        if side and mk == "value@" and i == k:
            v = str(N + 5) if use in ("index", "count") else let_value(i + N + 4)
        head.append(("let", f"k{i}", v))
    j = k
    if side and mk == "ref":
        j = k - 1 if k > 0 else k + 1
        if j >= N:
            return None
    nq = N + 8 if use == "index" else o["nq"]
    reg = ("reg", "r", str(nq))
    head = head + [reg] if o["lets_first"] else [reg] + head
    g = "X" if o["typed"] else "G"
    if use == "arg":
        if o["typed"]:
            items = [G("PF", V(f"k{j}"), IX("r", 0))]
        else:
            items = [G(g, IX("r", 0), V(f"k{j}"))]
    elif use == "index":
        items = [G(g, IX("r", f"k{j}"))]
    elif use == "count":
        items = [("loop", f"k{j}", False, [G(g, IX("r", 0))])]
    else:
        if mk == "ref":
            return None
        items = [G(g, IX("r", 0))]
    return {"head": head, "items": items}


def b_maps(N, k, mk, side, o):
    """N aliases of a small register; mk: index@ (index / start of alias k), ref (the statement names another alias)"""
    nq = o["nq"]
    head = [("reg", "r", str(nq))]

    def pos(i):
        return (i * 7 + 1) % nq
    for i in range(N):
        s = pos(i)
        if side and mk == "index@" and i == k:
            s = (s + 1) % nq
        if i % 2 == 0:
            head.append(("mapq", f"a{i}", "r", str(s)))
        else:
            head.append(("maps", f"a{i}", "r", str(s), str(nq), None))
    j = k
    if side and mk == "ref":
        j = next((x for x in (k - 2, k + 2) if 0 <= x < N and pos(x) != pos(k)), None)
        if j is None:
            return None
    g = "X" if o["typed"] else "G"
    if o["use"] == "unused":
        if mk == "ref":
            return None
        items = [G(g, IX("r", 0))]
    else:
        items = [G(g, V(f"a{j}") if j % 2 == 0 else IX(f"a{j}", 0))]
    return {"head": head, "items": items}


def b_macros(N, k, mk, side, o):
    """N macro definitions; mk: body@ (argument in the body of macro k), gate@ (gate name there), call (another macro is called)"""
    items = []
    for i in range(N):
        own = G("P", V("a"), V(str(i))) if o["typed"] else G("G", V("a"), V(str(i)))
        if side and i == k and mk in ("body@", "gate@"):
            if mk == "gate@" and o["typed"]:
                return None
            own = mutate_gate(own, "arg" if mk == "body@" else "gate", o, N + 3)
        items.append(("macro", f"m{i}", ["a"], False, [own]))
    j = k
    if side and mk == "call":
        j = k - 1 if k > 0 else k + 1
        if j >= N:
            return None
    items.append(G(f"m{j}", IX("r", 0)))
    return {"head": head_r(o), "items": items}


def b_args(N, k, mk, side, o):
    """one anonymous gate with N arguments (numbers, qubits, lets); mk: arg@ (argument k), drop_last, add_last"""
    args = []
    for i in range(N):
        args.append(IX("r", i % o["nq"]) if i % 4 == 1 else V("kk") if i % 9 == 5 else V(let_value(i)))
    if side:
        if mk == "arg@":
            a = args[k]
            args[k] = IX("r", (int(a[2]) + 1) % o["nq"]) if a[0] == "ix" else V("jj") if a[1] == "kk" else V(let_value(k + N + 4))
        elif mk == "drop_last":
            args = args[:-1]
        elif mk == "add_last":
            args = args + [V("0")]
    head = [("let", "kk", "1"), ("let", "jj", "2")] + head_r(o)
    st = G("G", *args)
    if o["ctx"] == "macro":
        return {"head": head, "items": [("macro", "w", [], False, [st]), G("w")]}
    if o["ctx"] == "loop":
        return {"head": head, "items": [("loop", "2", False, [st])]}
    return {"head": head, "items": [st]}


def b_params(N, k, mk, side, o):
    """one macro with N parameters; mk: ref (the body names parameter k-1 / k+1 instead of k), callarg@ (argument k of the call)"""
    ps = [f"p{i}" for i in range(N)]
    j = k
    if side and mk == "ref":
        j = k - 1 if k > 0 else k + 1
        if j >= N:
            return None
    vals = [str(i) for i in range(N)]
    if side and mk == "callarg@":
        vals[k] = str(N + k)
    if o["typed"]:
        body = [G("P", IX("r", 0), V(ps[j]))]
    elif o["all"]:
        body = [G("G", *[V(p) for p in ps]), G("H", V(ps[j]))]
    else:
        body = [G("G", IX("r", 0), V(ps[j]))]
    return {"head": head_r(o), "items": [("macro", "m", ps, False, body), G("m", *[V(v) for v in vals])]}


def b_reg_size(N, k, mk, side, o):
    """a register of N qubits; mk: index (its last qubit against the one before), size (N against N + 1), size_sliced"""
    g = "X" if o["typed"] else "G"
    n = N + 1 if (side and mk in ("size", "size_sliced")) else N
    head = [("reg", "r", str(n))]
    if mk == "size_sliced":
        head.append(("maps", "a", "r", None, None, "2"))
        return {"head": head, "items": [G(g, IX("a", 0))]}
    i = N - 2 if (side and mk == "index") else N - 1
    if i < 0:
        return None
    return {"head": head, "items": [G(g, IX("r", i))]}


def b_iters(N, k, mk, side, o):
    """a loop / subcircuit count N against N + 1, as a literal or through a let"""
    g = "X" if o["typed"] else "G"
    n = str(N + 1 if side else N)
    head = head_r(o)
    atom = n
    if o["via_let"]:
        head = [("let", "n", n)] + head
        atom = "n"
    body = [G(g, IX("r", 0))]
    if mk == "loop":
        items = [("loop", atom, False, body)]
    elif mk == "parloop":
        items = [("loop", atom, True, body)]
    else:
        items = [("sub", atom, body)]
    return {"head": head, "items": items}


DIMS = {
    # name: (builder, mutation kinds, largest size quick, largest size thorough)
    "top_stmts": (b_top, UNIT_MUTS, 1000, 2000),
    "block_stmts": (b_block, UNIT_MUTS, 1000, 2000),
    "depth": (b_depth, ["gate", "index", "arg", "count@", "sibling@"], 256, 300),
    "macro_chain": (b_macro_chain, ["gate@", "arg@", "target@", "index", "callarg"], 257, 300),
    "alias_chain": (b_alias_chain, ["start@", "src@", "index"], 129, 130),
    "lets": (b_lets, ["value@", "ref"], 1000, 2000),
    "maps": (b_maps, ["index@", "ref"], 300, 2000),
    "macros": (b_macros, ["body@", "gate@", "call"], 300, 1000),
    "args": (b_args, ["arg@", "drop_last", "add_last"], 1000, 2000),
    "params": (b_params, ["ref", "callarg@"], 300, 2000),
    "reg_size": (b_reg_size, ["index", "size", "size_sliced"], 1000, 70000),
    "iters": (b_iters, ["loop", "parloop", "sub"], 1000, 100000),
}


def scale_options(rng, dim, N, typed):
    o = {"typed": typed, "nq": rng.choice([2, 3, 4, 5])}
    if dim == "block_stmts":
        o["kind"] = rng.choice(BLOCK_KINDS)
        if o["kind"] in ("par", "parloop", "parmacro"):
            o["nq"] = N + 1          # distinct qubits in a parallel block
    elif dim == "depth":
        pattern = rng.choice(["alternate", "loops", "par_loops", "mixed", "mixed", "sub_outer"])
        o["pattern"] = pattern
        o["levels"] = depth_levels(rng, N, pattern)
        big = rng.random() < 0.5
        o["counts"] = [rng.choice([1, 13, 14] if big else [1, 1, 2, 13]) for _ in range(N)]
        o["sibs"] = [rng.random() < 0.3 for _ in range(N)]
    elif dim == "macro_chain":
        o["two"] = (not typed) and rng.random() < 0.5
        o["own"] = rng.random() < 0.7
    elif dim == "alias_chain":
        o["whole"] = set(i for i in range(N) if rng.random() < 0.3)
        o["named"] = rng.random() < 0.5
    elif dim == "lets":
        o["use"] = rng.choice(["arg", "arg", "index", "count", "unused"])
        o["lets_first"] = rng.random() < 0.7
    elif dim == "maps":
        o["nq"] = rng.choice([3, 4, 5, 8])
        o["use"] = rng.choice(["used", "used", "unused"])
    elif dim == "args":
        o["ctx"] = rng.choice(["top", "macro", "loop"])
    elif dim == "params":
        o["all"] = rng.random() < 0.4
    elif dim == "iters":
        o["via_let"] = rng.random() < 0.4
    return o


def positions(rng, N, how_many):
    """positions of the changed unit: the ends, the middle, around every threshold below N"""
    cand = {0, N - 1, N // 2}
    for t in THRESHOLDS + (255, 257, 512, 1000):
        for p in (t - 1, t):
            if 0 <= p < N:
                cand.add(p)
    cand = sorted(cand)
    near = [p for p in cand if p >= N // 2]
    picks = [N - 1] + rng.sample(near, min(len(near), max(0, how_many - 2))) + [rng.choice(cand)]
    seen, out = set(), []
    for p in picks:
        if p not in seen:
            seen.add(p)
            out.append(p)
    return out[:how_many]


def pos_class(k, N):
    if k == N - 1:
        return "last"
    if k == 0:
        return "first"
    for t in THRESHOLDS + (512, 1000):
        if k in (t - 1, t):
            return f"at_threshold_{t}"
    return "inside"


def sizes_for(rng, dim, thorough):
    cap = DIMS[dim][3 if thorough else 2]
    out = []
    for t in THRESHOLDS:
        for n in ((t + 1, t, rng.randint(t + 2, 2 * t - 1)) if thorough else (t + 1,)):
            if n <= cap:
                out.append(n)
    out.append(min(cap, 1000 if not thorough else cap))
    if dim in ("depth",):
        out += [20, 40] + ([100, 160] if thorough else [])
    if dim in ("macro_chain", "alias_chain"):
        out += [33, 65, 100]
    if dim == "alias_chain" and not thorough:
        out = [9, 17, 33, 65, 129]
    if dim in ("lets", "maps"):
        out += [49, 100]
    if dim in ("top_stmts", "block_stmts"):
        out += [200]
    if dim == "iters":
        out += [34, 255, 65535, 65536]
    if dim == "reg_size":
        out += [255, 256, 257] + ([65535, 65536, 65537] if thorough else [])
    return sorted(set(n for n in out if n <= cap))


UNTYPED_ONLY = {"args"}


def scale_plan(rng, thorough):
    """-> list of (dim, N, typed): every dimension at every threshold"""
    plan = []
    for dim in DIMS:
        for N in sizes_for(rng, dim, thorough):
            plan.append((dim, N, rng.random() < 0.25 and dim not in UNTYPED_ONLY))
    return plan


PRIMARY = {"top_stmts": ["gate", "index", "arg"], "block_stmts": ["gate", "index", "arg"], "depth": ["arg", "count@"], "macro_chain": ["arg@", "target@"],
           "alias_chain": ["start@", "src@"], "lets": ["value@", "ref"], "maps": ["index@", "ref"], "macros": ["body@", "call"], "args": ["arg@", "drop_last"],
           "params": ["ref", "callarg@"], "reg_size": ["index", "size"], "iters": ["loop", "parloop", "sub"]}


HEAVY = {"depth": 70, "alias_chain": 40, "macro_chain": 200, "macros": 200}     # beyond: one primary kind per size (running time)


def scale_pairs(rng, dim, N, typed, extra, primary=True, heavy=300):
    """-> [(A, B, tags)]: one pair per PRIMARY kind of change at the LAST unit (beyond every threshold below N; for chains also the
    far end seen from the use) -- only one of them when N > 300 (HEAVY) --, then `extra` pairs with a random kind of change at the first /
    middle / a threshold position"""
    build, muts, _, _ = DIMS[dim]
    o = scale_options(rng, dim, N, typed)
    todo = []
    if primary:
        kinds = PRIMARY[dim] if N <= min(heavy, HEAVY.get(dim, 300)) else [rng.choice(PRIMARY[dim])]
        todo += [(mk, True) for mk in kinds]
    todo += [(None, False)] * extra
    out = []
    for mk, last in todo:
        for attempt in range(6):
            m = mk or rng.choice(muts)
            k = N - 1 if last else rng.choice(positions(rng, N, 4))
            if dim == "depth" and m == "count@":
                ks = [i for i, lv in enumerate(o["levels"]) if lv != "seq" and lv != "par"]
                if not ks:
                    continue
                k = ks[-1] if last else rng.choice([ks[0], rng.choice(ks)])
            if dim == "depth" and m == "sibling@":
                ks = [i for i, sb in enumerate(o["sibs"]) if sb]
                if not ks:
                    continue
                k = ks[-1] if last else rng.choice(ks)
            if dim in ("macro_chain", "alias_chain") and last:
                k = rng.choice([0, 1, N - 1]) if m != "src@" and m != "target@" else rng.choice([2, N - 1])
            A = build(N, k, m, 0, o)
            B = build(N, k, m, 1, o)
            if A is None or B is None:
                if mk is not None and attempt >= 2:
                    break
                continue
            tags = {"stream": "scale", "dim": dim, "size": N, "mutation": f"{dim}:{m}", "position": pos_class(k, N), "k": k,
                    "typed": typed, "variant": o.get("kind") or o.get("pattern") or o.get("use") or o.get("ctx"), "light": N > 100}
            out.append((A, B, tags))
            break
    return out


# ------------------------------------------------------------------------------------------------ stream 2: identifiers

def swapcase(b):
    return b.swapcase() if b.swapcase() != b else b + "_"


def family(b):
    """relatives of one name: qualified by a dotted prefix / suffix, decorated with underscores, digits, case, one character more / less"""
    out = [b, "cal." + b, "ref." + b, b + ".cal", b + ".ref", "lab.v1." + b, "lab.v2." + b, "cal.cal." + b, b + "." + b, "x." + b + ".y",
           "_" + b, b + "_", "__" + b, "__" + b + "__", b + "0", b + "1", b + ".0", b + ".1", "cal_" + b, "cal" + b, swapcase(b), b + b[-1]]
    if len(b) > 1:
        out.append(b[:-1])
    return list(dict.fromkeys(out))


BASES = ["Rx", "G", "x", "flip", "prepare_all", "measure_all", "q", "n", "gate", "X", "P", "CX"]
KEYWORDISH = ["le", "lett", "let_", "_let", "Let", "LET", "let.x", "x.let", "reg", "registers", "Register", "register.r", "ma", "mapp", "map.a",
              "a.map", "macr", "macros", "Macro", "macro.m", "loo", "loops", "Loop", "loop.a", "subcircui", "subcircuits", "Subcircuit",
              "subcircuit.s", "fro", "from_", "from.x", "usepulse", "usepulses_", "usepulses.u", "impor", "imports", "a.as", "as_", "as.a", "branc",
              "branches", "branch.b"]
PREPARE = ["prepare_all", "measure_all", "prepare_al", "prepare_all_", "prepare_all.x", "x.prepare_all", "Prepare_all", "prepare_all0", "prepare.all",
           "prepareall", "measure_al", "measure_all_", "measure_all.x", "x.measure_all", "measure.all", "prepare_all.measure_all", "prepare", "measure"]
INTERNAL = ["__in_context__", "__in_context_parallel__", "__in_context_subcircuit__", "parallel", "sequential", "p0", "p1", "p10", "I_G", "I_X", "I_Rx",
            "all", "None", "True", "self", "array_item", "circuit", "sequential_block", "parallel_block", "subcircuit_block", "unscheduled_block",
            "case", "jaqal_gates", "ALL_GATES", "__c0", "__c1", "__c10", "__c11", "__r0", "__r1", "__macro__", "__m0", "__g0", "__class__", "__eq__",
            "__dict__", "__name__", "name", "size", "value", "_name", "__init__", "iterations", "statements"]
LOOKALIKE = ["O0", "OO", "l1", "ll", "lI", "I1", "x_", "x__", "_x", "__x", "x.1", "x.10", "x.01", "x.1.0", "e5", "E5", "x.e5", "aA", "Aa", "AA", "aa",
             "a.b", "a_b", "ab", "a.b.c", "a.bc", "ab.c", "_", "__", "___", "_._", "_0", "_.0"]


def long_pairs(rng, thorough):
    """pairs of names of L characters: differing in the last / first / 256th character, one a prefix of the other, dotted"""
    out = []
    Ls = [63, 64, 65, 127, 128, 129, 254, 255, 256, 257, 300, 511, 512, 513, 1000, 1023, 1024, 1025, 4096] + ([65535, 65536, 65537] if thorough else [])
    for L in (Ls if thorough else rng.sample(Ls, 7) + [256, 257]):
        base = "".join(rng.choice("abcdefghij") for _ in range(L))
        out.append((base[:-1] + "y", base[:-1] + "z", f"long_{bucket_len(L)}:last_char"))
        out.append(("y" + base[1:], "z" + base[1:], f"long_{bucket_len(L)}:first_char"))
        if L > 256:
            out.append((base[:255] + "y" + base[256:], base[:255] + "z" + base[256:], f"long_{bucket_len(L)}:char_256"))
            out.append((base[:256] + "y" + base[257:], base[:256] + "z" + base[257:], f"long_{bucket_len(L)}:char_257"))
        out.append((base, base + "a", f"long_{bucket_len(L)}:prefix"))
        dotted = ".".join(base[i:i + 7] for i in range(0, L, 8))
        out.append((dotted, dotted[:-1] + ("y" if dotted[-1] != "y" else "z"), f"long_{bucket_len(L)}:dotted_last"))
        out.append(("y." + dotted, "z." + dotted, f"long_{bucket_len(L)}:dotted_prefix"))
    return out


def bucket_len(L):
    return "<=255" if L <= 255 else "<=1025" if L <= 1025 else ">1025"


def name_pairs(rng, thorough):
    """-> [(x, y, z, class)]: x, y = the two names of the pair; z = a third relative (the neighbour)"""
    out = []
    for b in BASES:
        fam = family(b)
        pairs = [(fam[0], f) for f in fam[1:]] + [("cal." + b, "ref." + b), ("lab.v1." + b, "lab.v2." + b), ("cal." + b, "cal.cal." + b),
                                                  (b + ".cal", b + ".ref"), ("cal." + b, b + ".cal"), ("__" + b, "__" + b + "__"), (b + "0", b + "1"),
                                                  (b + ".0", b + ".1"), ("_" + b, b + "_")]
        for x, y in (pairs if thorough else rng.sample(pairs, 9)):
            z = rng.choice([f for f in fam if f not in (x, y)] + [b, b])
            if z in (x, y):
                z = b + ".z"
            out.append((x, y, z, "family:" + ("dotted" if "." in x + y else "plain")))
    for grp, label in ((KEYWORDISH, "keywordish"), (PREPARE, "prepare_measure"), (INTERNAL, "internal_marker"), (LOOKALIKE, "lookalike")):
        k = len(grp) * 2 if thorough else 25
        for _ in range(k):
            x, y, z = rng.sample(grp, 3)
            out.append((x, y, z, label))
    for x, y, label in long_pairs(rng, thorough):
        out.append((x, y, x[:5] + "q" + x[6:] if len(x) > 6 else x + "q", label))
    return out


ID_ROLES = ["gate_name", "gate_name_macro", "macro_call", "let_ref", "let_decl", "alias_ref", "alias_decl", "map_src", "param_ref", "param_decl",
            "reg_rename", "reg_decl"]
NEIGHBOURS = ["none", "pre", "pre_same_args", "post", "pre_and_post", "pre_in_macro", "z_is_macro", "z_is_let", "pre_y", "pre_x_post_y", "pre_loop"]
ID_CTXS = ["top", "loop", "par", "sub", "macro", "macro_loop", "seq_in_par"]
LET_USES = ["arg", "index", "count", "size", "map_index", "slice_stop", "sub_count"]


def place(stmt, ctx, other):
    """-> (macro items, body statements)"""
    if ctx == "top":
        return [], [stmt]
    if ctx == "loop":
        return [], [("loop", "2", False, [stmt, other])]
    if ctx == "par":
        return [], [("blk", True, [stmt, other])]
    if ctx == "seq_in_par":
        return [], [("blk", True, [("blk", False, [other, stmt]), other])]
    if ctx == "sub":
        return [], [("sub", None, [other, stmt])]
    if ctx == "macro":
        return [("macro", "ww", [], False, [stmt, other])], [G("ww")]
    if ctx == "macro_loop":
        return [("macro", "ww", [], False, [("loop", "2", False, [stmt])])], [G("ww"), other]
    raise KeyError(ctx)


def ident_pair(role, x, y, z, nb, ctx, o):
    """-> (A, B) | None.  Fixed names of the templates: register rr, gates GG / HH, macro mm / ww, lets kk, alias aa, parameters pa / pb"""
    typed = o["typed"]
    g, h = ("X", "Y") if typed else ("GG", "HH")
    other = G(h, IX("rr", 0))
    reg = ("reg", "rr", "4")

    def both(fn):
        a, b = fn(x), fn(y)
        return None if a is None or b is None else (a, b)

    if role in ("gate_name", "gate_name_macro"):
        # the site calls gate NAME with a qubit and (untyped) a number; neighbours use the relative z
        sargs = [IX("rr", 1)] + ([] if typed else [V("0.5")])

        def mk(name):
            site = G(name, *sargs)
            zs = G(z, *sargs) if nb in ("pre_same_args", "pre_and_post") else G(z, IX("rr", 0), *([] if typed else [V("0.25")]))
            macros, head, pre, post = [], [reg], [], []
            if role == "gate_name_macro":
                # y is a macro (of the same arity) on both sides: side A calls the gate x, side B the macro y
                macros.append(("macro", y, ["pa"] + ([] if typed else ["pb"]), False, [G(g, V("pa")), G(h, V("pa"))]))
            if nb in ("pre", "pre_same_args", "pre_and_post"):
                pre.append(zs)
            if nb in ("post", "pre_and_post"):
                post.append(zs)
            if nb == "pre_in_macro":
                macros.append(("macro", "nn", ["pa"], False, [G(z, V("pa"), *([] if typed else [V("0.5")]))]))
                pre.append(G("nn", IX("rr", 1)))
            if nb == "z_is_macro":
                macros.append(("macro", z, ["pa"] + ([] if typed else ["pb"]), False, [G(h, V("pa"))]))
                pre.append(G(z, *sargs))
            if nb == "z_is_let":
                head = [("let", z, "3")] + head
                if not typed:
                    pre.append(G("LL", IX("rr", 0), V(z)))
            if nb == "pre_y":
                pre.append(G(y, *sargs))
            if nb == "pre_x_post_y":
                pre.append(G(x, *sargs))
                post.append(G(y, *sargs))
            if nb == "pre_loop":
                pre.append(("loop", "2", False, [G(z, *sargs)]))
            pm, body = place(site, ctx, other)
            if ctx in ("macro", "macro_loop") and pre and o["pre_inside"]:
                # the neighbour stands inside the same macro body, in front of the site
                kind, nm, ps, par, stmts = pm[0]
                pm = [(kind, nm, ps, par, [s for s in pre if s[0] == "g"] + stmts)]
                pre = [s for s in pre if s[0] != "g"]
            return {"head": head, "items": macros + pre + pm + body + post} if o["macros_late"] else \
                   {"head": head, "items": macros + pm + pre + body + post}
        return both(mk)

    if role == "macro_call":
        def mk(name):
            ms = [("macro", x, ["pa"], False, [G(g, V("pa")), G(h, V("pa"))]), ("macro", y, ["pa"], False, [G(h, V("pa")), G(g, V("pa"))])]
            if nb != "none":
                ms.append(("macro", z, ["pa"], False, [G(g, V("pa"))]))
            if o["swap"]:
                ms = ms[::-1]
            pm, body = place(G(name, IX("rr", 1)), ctx, other)
            pre = [G(z, IX("rr", 1))] if nb in ("pre", "pre_same_args") else []
            return {"head": [reg], "items": ms + pm + pre + body}
        return both(mk)

    if role == "let_ref":
        use = o["let_use"]

        def mk(name):
            lets = [("let", x, "1"), ("let", y, "2")] + ([("let", z, "3")] if nb != "none" else [])
            if o["swap"]:
                lets = lets[::-1]
            head, r = lets, reg
            maps = []
            if use == "arg":
                st = G("PF", V(name), IX("rr", 1)) if typed else G(g, IX("rr", 1), V(name))
            elif use == "index":
                st = G(g, IX("rr", name))
            elif use == "count":
                st = ("loop", name, False, [G(g, IX("rr", 0))])
            elif use == "sub_count":
                if ctx in ("par", "sub", "seq_in_par"):
                    return None
                st = ("sub", name, [G(g, IX("rr", 0))])
            elif use == "size":
                r = ("reg", "rr", name)
                st = G(g, IX("rr", 0))
            elif use == "map_index":
                maps = [("mapq", "aa", "rr", name)]
                st = G(g, V("aa"))
            else:
                maps = [("maps", "aa", "rr", "0", name, None)]
                st = G(g, IX("aa", 0))
            if use == "size" and ctx != "top":
                return None
            pm, body = place(st, ctx, G(h, IX("rr", 0)))
            return {"head": head + [r] + maps, "items": pm + body}
        return both(mk)

    if role == "let_decl":
        def mk(name):
            lets = [("let", name, "1")]
            if nb != "none":
                lets = [("let", z, "1")] + lets if o["swap"] else lets + [("let", z, "1")]
            return {"head": lets + [reg], "items": [G(g, IX("rr", 0))]}
        return both(mk)

    if role in ("alias_ref", "alias_decl", "map_src"):
        sl = o["sliced"]

        def mk(name):
            def al(nm, i):
                return ("maps", nm, "rr", str(i), str(i + 2), None) if sl else ("mapq", nm, "rr", str(i))
            if role == "alias_decl":
                maps = [al(name, 1)] + ([al(z, 1)] if nb != "none" else [])
                st = G(g, IX("rr", 0))
            else:
                maps = [al(x, 0), al(y, 1)] + ([al(z, 2)] if nb != "none" else [])
                if role == "map_src":
                    if not sl:
                        return None
                    maps.append(("mapq", "aa", name, "0"))
                    st = G(g, V("aa"))
                else:
                    st = G(g, IX(name, 0)) if sl else G(g, V(name))
            if o["swap"]:
                maps = maps[:2][::-1] + maps[2:]
            pm, body = place(st, ctx, G(h, IX("rr", 3)))
            return {"head": [reg] + maps, "items": pm + body}
        return both(mk)

    if role == "param_ref":
        kind = o["param_kind"]

        def mk(name):
            ps = [x, y] + ([z] if nb != "none" else [])
            if o["swap"]:
                ps = ps[::-1]
            if kind == "qubit":
                body, call = [G(g, V(name))], [IX("rr", i) for i in range(len(ps))]
            elif kind == "index":
                body, call = [G(g, IX("rr", name))], [V(str(i)) for i in range(len(ps))]
            elif kind == "count":
                body, call = [("loop", name, False, [G(g, IX("rr", 0))])], [V(str(i + 2)) for i in range(len(ps))]
            else:
                body = [G("PF", V(name), IX("rr", 0))] if typed else [G(g, V(name), V("0.5"))]
                call = [V(f"{i}.5") for i in range(len(ps))]
            if ctx == "loop":
                body = [("loop", "2", False, body)] if kind != "count" else body
            return {"head": [reg], "items": [("macro", "mm", ps, False, body), G("mm", *call)]}
        return both(mk)

    if role == "param_decl":
        # a global let x and a macro whose one parameter is named x (shadowing) on side A, y on side B; the body names x
        def mk(name):
            if typed:
                body = [G("PF", V(x), IX("rr", 0))]
            else:
                body = [G(g, IX("rr", 0), V(x))]
            return {"head": [("let", x, "3")] + [reg], "items": [("macro", "mm", [name], False, body), G("mm", V("1"))]}
        return both(mk)

    if role == "reg_rename":
        def mk(name):
            head = [("reg", name, "4")] + ([("mapq", z, name, "2")] if nb != "none" else [])
            pm, body = place(G(g, IX(name, 1)), ctx, G(h, IX(name, 0)))
            return {"head": head, "items": pm + body}
        return both(mk)

    if role == "reg_decl":
        def mk(name):
            return {"head": ([("let", z, "1")] if nb != "none" else []) + [("reg", name, "4")], "items": [] if typed else [G(g, V("1"))]}
        return both(mk)
    raise KeyError(role)


def ident_options(rng, typed):
    return {"typed": typed, "swap": rng.random() < 0.5, "sliced": rng.random() < 0.5, "let_use": rng.choice(LET_USES),
            "param_kind": rng.choice(["qubit", "index", "count", "number"]), "pre_inside": rng.random() < 0.5, "macros_late": rng.random() < 0.5}


def ident_core():
    """always run: the dotted relatives of a gate name against each other and against the bare name, before / after the first use
    of the bare name, in every context; and one pair of every role for the dotted / dunder / keyword-like spellings"""
    out = []
    rel = [("cal.Rx", "ref.Rx"), ("cal.Rx", "Rx"), ("Rx", "ref.Rx"), ("lab.v1.Rx", "lab.v2.Rx"), ("Rx.cal", "Rx"), ("cal.Rx", "cal.cal.Rx"),
           ("hw.flip", "flip"), ("__Rx", "Rx"), ("Rx_", "Rx"), ("rx", "Rx")]
    for x, y in rel:
        base = x.split(".")[-1] if "." in x else y.split(".")[-1]
        for nb in NEIGHBOURS:
            for ctx in ("top", "loop", "macro", "macro_loop"):
                out.append(("gate_name", x, y, base, nb, ctx, False))
        out.append(("gate_name_macro", x, y, base, "none", "top", False))
        out.append(("gate_name_macro", x, y, base, "pre", "macro_loop", False))
    for x, y in [("cal.X", "ref.X"), ("cal.X", "X"), ("X.cal", "X"), ("lab.v1.X", "lab.v2.X"), ("X", "Y"), ("cal.X", "cal.Y"), ("__X", "X"), ("x", "X")]:
        for nb in ("none", "pre", "pre_same_args", "post", "pre_in_macro"):
            for ctx in ("top", "loop", "macro"):
                out.append(("gate_name", x, y, "X", nb, ctx, True))
    spell = [("cal.x", "x", "ref.x"), ("cal.x", "ref.x", "x"), ("x.cal", "x.ref", "x"), ("__c10", "__c1", "__c0"), ("__macro__", "__macro", "macro_"),
             ("le", "lett", "let_"), ("loo", "loops", "loop.a"), ("prepare_al", "prepare_all_", "prepare_all"), ("p0", "p1", "p10"),
             ("__in_context__", "__in_context_parallel__", "parallel"), ("x.1", "x.10", "x.01"), ("a.b", "a_b", "ab")]
    for role in ID_ROLES:
        for x, y, z in spell:
            for nb in ("none", "pre"):
                out.append((role, x, y, z, nb, "top", False))
    return out


# ------------------------------------------------------------------------------------------------ stream 3: configurations

def battery(typed):
    """the property's own list of single-token changes on small programs -> [(what, A, B)]"""
    g, h = ("X", "Y") if typed else ("G", "H")
    reg = ("reg", "r", "3")
    num = (lambda v: G("P", IX("r", 0), V(v))) if typed else (lambda v: G(g, IX("r", 0), V(v)))
    flt = (lambda v: G("PF", V(v), IX("r", 0))) if typed else (lambda v: G(g, V(v), IX("r", 0)))

    def P(head, items):
        return {"head": head, "items": items}
    out = [
        ("gate_name", P([reg], [G(g, IX("r", 0))]), P([reg], [G(h, IX("r", 0))])),
        ("gate_name_in_macro", P([reg], [("macro", "m", ["a"], False, [G(g, V("a"))]), G("m", IX("r", 1))]),
         P([reg], [("macro", "m", ["a"], False, [G(h, V("a"))]), G("m", IX("r", 1))])),
        ("qubit_index", P([reg], [G(g, IX("r", 0))]), P([reg], [G(g, IX("r", 1))])),
        ("qubit_index_via_let", P([("let", "i", "0"), ("let", "j", "1"), reg], [G(g, IX("r", "i"))]), P([("let", "i", "0"), ("let", "j", "1"), reg], [G(g, IX("r", "j"))])),
        ("argument_int", P([reg], [num("1")]), P([reg], [num("2")])),
        ("argument_float", P([reg], [flt("0.5")]), P([reg], [flt("0.25")])),
        ("argument_via_let", P([("let", "k", "1"), reg], [num("k")]), P([("let", "k", "2"), reg], [num("k")])),
        ("loop_count", P([reg], [("loop", "2", False, [G(g, IX("r", 0))])]), P([reg], [("loop", "3", False, [G(g, IX("r", 0))])])),
        ("loop_count_via_let", P([("let", "n", "2"), reg], [("loop", "n", False, [G(g, IX("r", 0))])]), P([("let", "n", "3"), reg], [("loop", "n", False, [G(g, IX("r", 0))])])),
        ("subcircuit_count", P([reg], [("sub", "2", [G(g, IX("r", 0))])]), P([reg], [("sub", "3", [G(g, IX("r", 0))])])),
        ("subcircuit_count_absent", P([reg], [("sub", None, [G(g, IX("r", 0))])]), P([reg], [("sub", "2", [G(g, IX("r", 0))])])),
        ("subcircuit_count_let_1", P([("let", "n", "1"), reg], [("sub", "n", [G(g, IX("r", 0))])]), P([("let", "n", "2"), reg], [("sub", "n", [G(g, IX("r", 0))])])),
        ("block_kind", P([reg], [("blk", True, [G(g, IX("r", 0)), G(h, IX("r", 1))])]), P([reg], [("blk", False, [G(g, IX("r", 0)), G(h, IX("r", 1))])])),
        ("block_kind_loop", P([reg], [("loop", "2", True, [G(g, IX("r", 0)), G(h, IX("r", 1))])]), P([reg], [("loop", "2", False, [G(g, IX("r", 0)), G(h, IX("r", 1))])])),
        ("block_vs_subcircuit", P([reg], [("blk", False, [G(g, IX("r", 0)), G(h, IX("r", 1))])]), P([reg], [("sub", None, [G(g, IX("r", 0)), G(h, IX("r", 1))])])),
        ("alias_index", P([reg, ("mapq", "a", "r", "0")], [G(g, V("a"))]), P([reg, ("mapq", "a", "r", "1")], [G(g, V("a"))])),
        ("alias_start", P([reg, ("maps", "a", "r", "0", "2", None)], [G(g, IX("a", 0))]), P([reg, ("maps", "a", "r", "1", "2", None)], [G(g, IX("a", 0))])),
        ("alias_stop_unused", P([reg, ("maps", "a", "r", "0", "2", None)], [G(g, IX("r", 0))]), P([reg, ("maps", "a", "r", "0", "3", None)], [G(g, IX("r", 0))])),
        ("alias_step", P([reg, ("maps", "a", "r", "0", "3", "1")], [G(g, IX("a", 1))]), P([reg, ("maps", "a", "r", "0", "3", "2")], [G(g, IX("a", 1))])),
        ("let_value_unused", P([("let", "k", "1"), reg], [G(g, IX("r", 0))]), P([("let", "k", "2"), reg], [G(g, IX("r", 0))])),
        ("let_value_float", P([("let", "k", "0.5"), reg], [flt("k")]), P([("let", "k", "0.25"), reg], [flt("k")])),
        ("register_size", P([("reg", "r", "3")], [G(g, IX("r", 0))]), P([("reg", "r", "4")], [G(g, IX("r", 0))])),
        ("macro_argument", P([reg], [("macro", "m", ["a"], False, [G(g, V("a"))]), G("m", IX("r", 1))]), P([reg], [("macro", "m", ["a"], False, [G(g, V("a"))]), G("m", IX("r", 2))])),
        ("macro_called", P([reg], [("macro", "m", ["a"], False, [G(g, V("a"))]), ("macro", "w", ["a"], False, [G(h, V("a"))]), G("m", IX("r", 1))]),
         P([reg], [("macro", "m", ["a"], False, [G(g, V("a"))]), ("macro", "w", ["a"], False, [G(h, V("a"))]), G("w", IX("r", 1))])),
        ("prepare_vs_measure", P([reg], [G("prepare_all"), G(g, IX("r", 0)), G("measure_all")]), P([reg], [G("prepare_all"), G(g, IX("r", 0)), G("prepare_all")])),
        ("statement_appended", P([reg], [G(g, IX("r", 0))]), P([reg], [G(g, IX("r", 0)), G("measure_all")])),
    ]
    return out


# ------------------------------------------------------------------------------------------------ run / replay

def random_deco(rng, p=0.35):
    if rng.random() > p:
        return None
    d = {"dseed": rng.randrange(10**6)}
    r = rng.random()
    if r < 0.4:
        d["comments"] = rng.choice([0.2, 0.5, 1.0])
    elif r < 0.6:
        d["inline"] = True
        d["semi"] = rng.random() < 0.5
    elif r < 0.8:
        d["semi"] = True
    else:
        d["blank"] = True
        d["comments"] = 0.3
    return d


def pick_cfg(rng, typed, plain=0.6, passes=True):
    """passes=False: none of the expand_* options (the passes are cubic on long alias chains)"""
    if typed:
        pool = TYPED_CFGS[:-2]
        first = TYPED_CFGS[0]
    else:
        pool, first = ANON_CFGS, ANON
    if not passes:
        pool = [c for c in pool if not expands(c)]
    return first if rng.random() < plain else rng.choice(pool)


def _lap(label, t0=[None]):
    """C20_SCALE_TIMING=1: seconds per stream on stderr"""
    import time
    now = time.time()
    if os.environ.get("C20_SCALE_TIMING") and t0[0] is not None:
        print(f"[c20_scale] {label}: {now - t0[0]:.1f} s", file=sys.stderr)
    t0[0] = now


def run(seed: int, n: int, driver: str = DEFAULT_DRIVER, thorough: bool = False) -> dict:
    _imports()
    real = Real()
    acc = Acc(real)
    _lap("start")
    try:
        with alarm_handler():
            # ---- configurations: the battery under every combination (thorough: complete)
            rng = random.Random(f"{seed}:c20_scale:config")
            for typed, cfgs in ((False, ANON_CFGS), (True, TYPED_CFGS)):
                bat = battery(typed)
                for ci, cfg in enumerate(cfgs):
                    for bi, (what, A, B) in enumerate(bat):
                        if not thorough and (bi + ci + seed) % 2:
                            continue        # quick tier: every other change of the battery, alternating with the configuration and the seed
                        deco = random_deco(rng, 0.15)
                        process(acc, A, B, {"stream": "config", "what": what, "typed": typed}, cfg, deco)
            acc.dist["config_pairs"] = acc.dist["pairs_generated"]
            _lap("config")
            # ---- identifiers: the core grid (thorough: complete), then random roles x names x neighbours x contexts
            rng = random.Random(f"{seed}:c20_scale:ident")
            for ii, (role, x, y, z, nb, ctx, typed) in enumerate(ident_core()):
                if not thorough and (ii + seed) % 2:
                    continue        # quick tier: every other entry of the grid, alternating with the seed
                built = ident_pair(role, x, y, z, nb, ctx, ident_options(rng, typed))
                if built is None:
                    acc.dist["combination_not_expressible"] += 1
                    continue
                tags = {"stream": "ident", "role": role, "names": "core:" + ("dotted" if "." in x + y else "plain"), "neighbour": nb, "context": ctx,
                        "typed": typed, "x": clip(x, 60), "y": clip(y, 60), "z": clip(z, 60)}
                process(acc, built[0], built[1], tags, TYPED_CFGS[0] if typed else ANON)
            acc.dist["ident_core_pairs"] = acc.dist["pairs_generated"] - acc.dist["config_pairs"]
            _lap("ident core")
            # ---- scale: every dimension at every threshold
            rng = random.Random(f"{seed}:c20_scale:scale")
            for dim, N, typed in scale_plan(rng, thorough):
                for A, B, tags in scale_pairs(rng, dim, N, typed, (1 if N <= 300 else 0) if thorough else (1 if N <= 64 else 0),
                                              heavy=300 if thorough else 100):
                    process(acc, A, B, tags, pick_cfg(rng, typed, 0.7, passes=N <= 70), random_deco(rng, 0.3) if N <= 300 else None)
            if True:   # one comment per line
                for N in (9, 17, 33, 65, 129, 257) + ((1001,) if thorough else ()):
                    o = {"typed": False, "nq": 3}
                    for mk in ("gate", "arg", "index"):
                        k = rng.choice(positions(rng, N, 4))
                        A, B = b_top(N, k, mk, 0, o), b_top(N, k, mk, 1, o)
                        tags = {"stream": "scale", "dim": "comments", "size": N, "mutation": f"comments:{mk}", "position": pos_class(k, N), "k": k, "typed": False}
                        process(acc, A, B, tags, ANON, {"comments": 1.0, "dseed": rng.randrange(10**6), "blank": rng.random() < 0.3})
            acc.dist["scale_pairs"] = acc.dist["pairs_generated"] - acc.dist["config_pairs"] - acc.dist["ident_core_pairs"]
            _lap("scale")
            # ---- the rest of the budget: random identifiers (7/8) and random small scale cases (1/8)
            rng = random.Random(f"{seed}:c20_scale:random")
            budget = max(0, n - acc.dist["pairs_generated"])
            pool = name_pairs(rng, thorough)
            tries = 0
            while budget > 0 and tries < 20 * n + 1000:
                tries += 1
                before = acc.dist["pairs_generated"]
                if rng.random() < 0.88:
                    x, y, z, label = rng.choice(pool)
                    if rng.random() < 0.5:
                        x, y = y, x
                    role = rng.choice(ID_ROLES)
                    if rng.random() < 0.35:
                        role = "gate_name"
                    typed = role in ("gate_name", "gate_name_macro", "macro_call", "let_ref", "alias_ref", "param_ref") and rng.random() < 0.15
                    nb, ctx = rng.choice(NEIGHBOURS), rng.choice(ID_CTXS)
                    built = ident_pair(role, x, y, z, nb, ctx, ident_options(rng, typed))
                    if built is None:
                        acc.dist["combination_not_expressible"] += 1
                        continue
                    tags = {"stream": "ident", "role": role, "names": label, "neighbour": nb, "context": ctx, "typed": typed,
                            "x": clip(x, 60), "y": clip(y, 60), "z": clip(z, 60)}
                    process(acc, built[0], built[1], tags, pick_cfg(rng, typed, 0.75), random_deco(rng, 0.25))
                else:
                    dim = rng.choice(list(DIMS))
                    cap = min(DIMS[dim][2], 40 if dim == "alias_chain" else 34 if dim == "depth" else 66)   # (deep recursion is slow)
                    t = rng.choice(THRESHOLDS)
                    N = min(cap, rng.choice([t + 1, t, t - 1, rng.randint(t, 2 * t)]))
                    typed = rng.random() < 0.25 and dim not in UNTYPED_ONLY
                    for A, B, tags in scale_pairs(rng, dim, N, typed, 1, primary=rng.random() < 0.3):
                        process(acc, A, B, tags, pick_cfg(rng, typed, 0.6, passes=N <= 70), random_deco(rng, 0.3))
                budget -= acc.dist["pairs_generated"] - before
    finally:
        real.close()
    _lap("random")
    return {"corr": {}, "oracle": acc.oracle, "distribution": dict(sorted(acc.dist.items())),
            "samples": acc.samples, "nontrivial": len(acc.nontrivial)}


def replay(case: dict, driver: str = DEFAULT_DRIVER) -> dict:
    """re-run ONE failing case; {"oracle_ok": False, "detail": ..} when an oracle still fails on it"""
    _imports()
    real = Real()
    try:
        with alarm_handler():
            acc = Acc(real)
            kind = case.get("kind")
            if kind == "program":
                acc.parsed(case["text"], case["cfg"])
            elif kind == "pair":
                pair_oracles(acc, case)
            else:
                return {"oracle_ok": None, "detail": f"unknown case kind {kind!r}"}
    finally:
        real.close()
    bad = [(name, f["detail"]) for name, o in acc.oracle.items() for f in o["failures"]]
    if bad:
        return {"oracle_ok": False, "detail": "; ".join(f"{n}: {d}" for n, d in bad[:6])}
    return {"oracle_ok": True, "detail": "all oracles hold on this case"}


def main():
    ap = argparse.ArgumentParser()
    ap.add_argument("--driver", default=DEFAULT_DRIVER)
    ap.add_argument("--n", type=int, default=2000)
    ap.add_argument("--seed", type=int, default=20)
    ap.add_argument("--thorough", action="store_true")
    ap.add_argument("--json", action="store_true")
    args = ap.parse_args()
    res = run(args.seed, args.n, args.driver, args.thorough)
    if args.json:
        print(json.dumps(res, indent=1))
    bad = 0
    for name, d in res["oracle"].items():
        print(f"oracle {name}: {d['cases']} cases, {len(d['failures'])} failures")
        for x in d["failures"][:3]:
            print("  FINDING", clip(json.dumps(x), 3000))
        bad += len(d["failures"])
    print("distribution:")
    for k, v in res["distribution"].items():
        print("  ", k, v)
    print("nontrivial distinct cases:", res["nontrivial"])
    print("RESULT:", "OK" if bad == 0 else f"{bad} PROBLEMS")
    sys.exit(0 if bad == 0 else 1)


if __name__ == "__main__":
    main()
